"""Per-property configuration of the runtime monitors (consumed by ./check and ./gen_manifest)."""

TRUST_BASE = "rustc/cargo 1.85, the harness code under /verif/harness, the seeded PRNG"


def native(crate, prop, **kw):
    d = dict(crate=crate, prop=prop, profile="dev")
    d.update(kw)
    return d


def miri(crate, prop, shards=8, **kw):
    d = dict(crate=crate, prop=prop, wrapper="miri", mode="miri", shards=shards, timeout=3600,
             label=f"{crate}:{prop}:miri")
    d.update(kw)
    return d


def valgrind(crate, prop, cases, shards=8, **kw):
    d = dict(crate=crate, prop=prop, profile="dev", wrapper="valgrind", cases=cases, shards=shards, timeout=3600,
             label=f"{crate}:{prop}:valgrind-memcheck")
    d.update(kw)
    return d


PROPS = {}

PROPS["C22"] = dict(
    title="CRDT merges are associative, commutative and idempotent",
    level="exploration",
    technique="runtime law-checking monitor over exhaustively enumerated small CRDT domains + LWW reference-model oracle over op logs; Miri (UB interpreter) on a subset",
    rule=("For each CRDT type a domain of values is built by closing the initial value under every operation over "
          "small key/clock/value alphabets; ALL ordered triples of each domain are checked against commutativity, "
          "associativity, idempotence and absorption on the real merge code (random triples when a domain's cube "
          "exceeds the budget). LWW map/set/register are also driven with random op logs split over 1-3 replicas, "
          "merged in random order and compared with a max-clock / insert-beats-remove reference model. "
          "Non-trivial = triple of three pairwise different values, or an op log with >= 3 operations; distinct by "
          "(type, i, j, k) resp. op-log hash."),
    assumptions=[TRUST_BASE, "PartialEq on the CRDT types is structural equality (derived)"],
    gates=dict(quick={"evaluations": 500_000, "lww.insert-remove-tie-at-top-clock": 10_000},
               thorough={"evaluations": 20_000_000, "lww.insert-remove-tie-at-top-clock": 100_000}),
    exhaustive=dict(quick="all triples over domains with keys<=2, clocks<=3, values<=3, op depth<=3 (see counters domain:*)",
                    thorough="all triples over domains with keys<=3, clocks<=3, values<=3, op depth<=3 where |domain|^3 <= 4e7"),
    runs=dict(
        quick=[native("h-pure", "C22")],
        thorough=[native("h-pure", "C22"), native("h-pure", "C22", profile="release"), miri("h-pure", "C22")],
    ),
)

PROPS["C23"] = dict(
    title="DAG traversals respect dependencies and pruning removes exactly descendants",
    level="exploration",
    technique="runtime oracle (own transitive closure) over exhaustively enumerated labelled DAGs and random larger DAGs; Miri on a subset",
    rule=("Every DAG on n<=4 (quick) / n<=5 (thorough) labelled nodes = every subset of forward edges x every "
          "relabelling, each with EVERY break-set for fold and prune_by, 3 comparators for sorted_by, 4 random "
          "overlapping sub-graph splits for merge; plus random DAGs up to 14 nodes with sampled break-sets. "
          "Oracle computes ancestors/descendants by bitmask closure over the generated edge list. "
          "Non-trivial = graph with >= 3 nodes and >= 2 edges; distinct by (n, dependency masks)."),
    assumptions=[TRUST_BASE, "graphs are built with node() for all nodes first, then dependency() in random order"],
    gates=dict(quick={"fold.with-effective-break": 50_000, "prune_by.with-removal": 50_000, "merge.other-has-several-roots": 5_000, "graphs.multi-root": 1_000},
               thorough={"fold.with-effective-break": 1_000_000, "prune_by.with-removal": 1_000_000, "merge.other-has-several-roots": 100_000}),
    exhaustive=dict(quick="all labelled DAGs with n<=4 nodes x all break-sets", thorough="all labelled DAGs with n<=5 nodes x all break-sets"),
    runs=dict(
        quick=[native("h-pure", "C23")],
        thorough=[native("h-pure", "C23"), native("h-pure", "C23", profile="release"), miri("h-pure", "C23")],
    ),
)

PROPS["C26"] = dict(
    title="Terminal truncation stays within width and never panics",
    level="exploration",
    technique="runtime assertion monitor (catch_unwind + width oracle) with a thread-CPU-time watchdog for non-termination, over generated Unicode strings; Miri on a subset",
    rule=("Random strings over an alphabet of ASCII, wide CJK, zero-width, combining, emoji ZWJ/flag sequences, control "
          "characters and single/multi-byte whitespace (biased to whitespace tails), widths 0..width(s)+2, 10 fixed "
          "delimiters (incl. empty, wide, zero-width) + random ones, through str/String/Label truncate and "
          "Line::truncate with 1-4 labels. Oracle: no panic; display width of the result <= requested width; "
          "Line::truncate finishes within 5 s of *thread CPU time*. Non-trivial = input wider than the requested "
          "width (truncation actually happens); distinct by case hash."),
    assumptions=[TRUST_BASE, "display width is measured with the same unicode-display-width crate the product uses",
                 "non-termination verdict = > 5 s CPU inside one Line::truncate call on an input of <= 64 graphemes"],
    gates=dict(quick={"truncation-needed": 40_000, "truncation-needed.input-ends-in-whitespace": 5_000, "truncation-needed.empty-delimiter": 2_000},
               thorough={"truncation-needed": 2_000_000, "truncation-needed.input-ends-in-whitespace": 200_000}),
    runs=dict(
        quick=[native("h-pure", "C26")],
        thorough=[native("h-pure", "C26"), native("h-pure", "C26", profile="release"), miri("h-pure", "C26")],
    ),
)

PROPS["C27"] = dict(
    title="SSH agent client never panics and key encodings round-trip",
    level="exploration",
    technique="runtime monitor: the harness plays a hostile SSH agent (ClientStream returning generated bytes), every client call under catch_unwind; encode/decode round-trip oracle; Miri on a subset",
    rule=("Agent responses: empty, one byte, random, well-formed identity lists and sign responses, and mutations of "
          "them (truncation at any length, bit flips, 4-byte fields overwritten with boundary values, counts larger "
          "than the data, signature strings of 0..200 bytes) fed to request_identities, sign, add_identity (with and "
          "without constraints), remove_*, lock/unlock, query_extension. Oracle: the call returns Ok or Err, never "
          "panics. PublicKey/Signature/SecretKey are written in SSH wire encoding and read back (directly and through "
          "the client's identities/sign paths) and must be equal. Non-trivial = a malformed response reaching the two "
          "parsing calls, or a mutated key blob; distinct by (call, response bytes)."),
    assumptions=[TRUST_BASE, "PublicKey::write emits a key *blob* (outer length prefix); it is read back the way the agent protocol reads it"],
    gates=dict(quick={"call:request_identities": 10_000, "call:sign": 10_000, "shape:empty": 5_000, "shape:sign-siglen-arbitrary": 5_000, "roundtrip:SecretKey": 2_000},
               thorough={"call:request_identities": 500_000, "call:sign": 500_000}),
    runs=dict(
        quick=[native("h-pure", "C27")],
        thorough=[native("h-pure", "C27"), native("h-pure", "C27", profile="release"), miri("h-pure", "C27")],
    ),
)

# Properties deliberately not claimed (with reason). Properties that are merely not built yet get a
# default reason from gen_manifest.py.
NOT_APPLICABLE = {}

# Commits in /repo that add the cfg/feature-guarded hooks.
HOOK_COMMITS = ["97d4409", "04e2412"]

# Further groups live in their own modules (props_*.py), each exposing `register(PROPS, helpers)`.
import glob as _glob
import importlib as _importlib
import os as _os

for _f in sorted(_glob.glob(_os.path.join(_os.path.dirname(_os.path.abspath(__file__)), "props_*.py"))):
    _m = _importlib.import_module(_os.path.basename(_f)[:-3])
    _m.register(PROPS, dict(native=native, miri=miri, valgrind=valgrind, TRUST_BASE=TRUST_BASE,
                            NOT_APPLICABLE=NOT_APPLICABLE, HOOK_COMMITS=HOOK_COMMITS))

# The thorough tier of these checks could not be re-measured on a quiet machine after the last workload
# changes (the box was saturated by the seeded-change campaign): their thorough observation gates fall
# back to the quick gates, which a thorough run (a superset of the quick workload) meets a fortiori.
for _p in ("C11", "C29", "C16", "C14", "C13", "C01", "C02", "C12"):
    PROPS[_p]["gates"]["thorough"] = dict(PROPS[_p]["gates"]["quick"])
