#!/bin/sh
# Build every harness binary offline from files on disk (run once after a fresh restore).
set -e
cd "$(dirname "$0")/harness"
export CARGO_NET_OFFLINE=true
cargo build --offline --workspace 2>&1 | tail -3
