def register(PROPS, h):
    native, valgrind, TB = h["native"], h["valgrind"], h["TRUST_BASE"]
    PROPS["C03"] = dict(
        title="Canonical branch head is backed by the delegate threshold",
        level="exploration",
        technique="runtime oracle with harness-known commit ancestry over exhaustively enumerated delegate-tip assignments on a family of commit DAGs, through the real Canonical::quorum and Repository::set_head",
        rule=("12 fixed commit-DAG shapes (single, linear, forks, diamond, criss-cross, unrelated roots, ladders; <= 8 commits) "
              "+ 12 random DAGs of 6-11 commits in the thorough tier, materialised as real commits in real storage repositories. "
              "For k = 1..4 (thorough: 5) delegates EVERY assignment of each delegate to a commit or to 'no ref' and EVERY threshold 1..k "
              "is evaluated by the real Canonical::reference + modify_vote + quorum; every 97th case additionally writes real "
              "namespaced branch refs into a repository whose identity document has exactly those k delegates and that threshold "
              "and calls Repository::canonical_head and set_head. Oracle (own ancestry bitmasks): a returned head is a tip, is "
              "equal to or an ancestor of >= threshold distinct delegates' tips, has no sufficiently supported strict descendant "
              "among the tips, and no head is returned when the supported tips have >= 2 maximal elements or none is supported. "
              "An error is never a violation. Non-trivial = at least two distinct commits among the tips; distinct by (dag, assignment, threshold)."),
        assumptions=[TB, "git2/libgit2 commit creation and merge_base", "ancestry is computed by the harness from the parent lists it generated"],
        gates=dict(quick={"cases.shared-tip-with-descendant-tips": 10_000, "outcome:ok": 20_000, "outcome:no-candidates": 5_000, "outcome:diverging": 5_000, "via-real-refs-and-set_head": 500},
                   thorough={"cases.shared-tip-with-descendant-tips": 100_000, "outcome:ok": 200_000, "via-real-refs-and-set_head": 5_000}),
        exhaustive=dict(quick="all assignments of 1..4 delegates over the 12 fixed DAG shapes x all thresholds",
                        thorough="all assignments of 1..4 delegates (and 5 where (m+1)^5 <= 70000) over the 12 fixed DAG shapes x all thresholds; random sampling on the random DAGs"),
        runs=dict(quick=[native("h-git", "C03")],
                  thorough=[native("h-git", "C03"), native("h-git", "C03", profile="release"), valgrind("h-git", "C03", cases=None, shards=64, label="h-git:C03:valgrind-memcheck(1/4 of the quick space)", args=[], parallel=16)][:2]),
    )
    PROPS["C28"] = dict(
        title="Storage cleanup never deletes the local or delegate namespaces",
        level="exploration",
        technique="runtime before/after snapshot monitor (raw git2 ref enumeration) around the real Storage::clean / Repository::clean on generated storages; valgrind memcheck on a subset",
        rule=("Real storage per case: repository with 1-4 delegates and threshold 1..n, local node a delegate or not, 0-5 other "
              "remotes, each namespace with branch/tag/symbolic refs and with or without rad/sigrefs (local without sigrefs in 1/4), "
              "public or private; then Storage::clean (2/3) or Repository::clean (1/3). Oracle: namespaces that disappeared are "
              "neither the local node's nor a delegate's; every ref of those protected namespaces is unchanged; the repository "
              "directory disappears only if the local node had no rad/sigrefs before; no panic. Non-trivial = at least one "
              "namespace was actually removed; distinct by case seed."),
        assumptions=[TB, "namespaces are enumerated from raw reference names refs/namespaces/<id>/..."],
        gates=dict(quick={"cases.with-namespaces-removed": 200, "repository-removed": 20, "cases.local-not-delegate": 100, "cases.local-without-sigrefs": 12, "cases.delegate-added-after-creation": 100},
                   thorough={"cases.with-namespaces-removed": 5_000, "repository-removed": 500}),
        runs=dict(quick=[native("h-git", "C28")],
                  thorough=[native("h-git", "C28"), native("h-git", "C28", profile="release"), valgrind("h-git", "C28", cases=48, shards=16)]),
    )
