#!/usr/bin/env python3
"""Evaluate a seeded breaking change against the monitors, in a scratch worktree (never in /repo).

  seedeval.py check   <patchdir> <PID> [PID...]   apply patch.diff, run ./check PID (quick) with VERIF_REPO
  seedeval.py confirm <patchdir>                  (1) patch compiles + full existing suite passes,
                                                  (2) demo.diff test fails with the patch, passes without
Prints one JSON line per step. The worktree (/tmp/sv-<name>) is removed at the end.
"""
import json, os, subprocess, sys, time, re

def sh(cmd, cwd=None, env=None, timeout=7200):
    t = time.time()
    r = subprocess.run(cmd, shell=True, cwd=cwd, env=env, stdout=subprocess.PIPE, stderr=subprocess.STDOUT, text=True, timeout=timeout)
    return r.returncode, r.stdout, time.time() - t

def worktree(name):
    wt = f"/tmp/sv-{name}"
    sh(f"git -C /repo worktree remove --force {wt}")
    rc, out, _ = sh(f"git -C /repo worktree add -q {wt} HEAD")
    assert rc == 0, out
    return wt

def main():
    mode, pdir = sys.argv[1], os.path.abspath(sys.argv[2])
    name = re.sub(r"[^A-Za-z0-9]", "-", pdir.strip("/"))[-40:]
    wt = worktree(name + "-" + mode)
    try:
        if mode == "check":
            rc, out, _ = sh(f"git -C {wt} apply {pdir}/patch.diff")
            if rc != 0:
                print(json.dumps({"step": "apply", "ok": False, "out": out[-500:]})); return 2
            for pid in sys.argv[3:]:
                env = dict(os.environ, VERIF_REPO=wt)
                rc, out, dt = sh(f"./check {pid} --tier quick", cwd="/verif", env=env)
                lines = [l for l in out.split("\n") if l.startswith(("VIOLATION", "KNOWN", "INCONCLUSIVE", pid))]
                print(json.dumps({"step": "check", "property": pid, "exit": rc, "wall_s": round(dt), "lines": [l[:260] for l in lines[-8:]]}))
        else:
            # (1) existing suite with the patch
            rc, out, _ = sh(f"git -C {wt} apply {pdir}/patch.diff")
            if rc != 0:
                print(json.dumps({"step": "apply", "ok": False, "out": out[-500:]})); return 2
            rc, out, dt = sh("cargo nextest run --workspace --no-fail-fast --tool-config-file pb:/w/lib/nextest.toml --profile pb --test-threads 8 --offline", cwd=wt)
            summ = [l.strip() for l in out.split("\n") if "Summary" in l]
            fails = sorted({l.strip()[:140] for l in out.split("\n") if re.match(r"\s+(FAIL|TIMEOUT|SIGABRT|SIGSEGV)", l)})
            print(json.dumps({"step": "existing-suite-with-patch", "exit": rc, "wall_s": round(dt), "summary": summ[-1:] , "failures": fails[:8]}))
            # (2) demo with patch
            demo = f"{pdir}/demo.diff"
            if os.path.exists(demo):
                rc, out, _ = sh(f"git -C {wt} apply {demo}")
                print(json.dumps({"step": "apply-demo", "exit": rc, "out": out[-300:]}))
                cmd = open(f"{pdir}/demo.cmd").read().strip() if os.path.exists(f"{pdir}/demo.cmd") else None
                if cmd:
                    rc1, out1, dt1 = sh(cmd, cwd=wt)
                    print(json.dumps({"step": "demo-with-patch", "exit": rc1, "wall_s": round(dt1), "tail": out1[-400:]}))
                    sh(f"git -C {wt} apply -R {pdir}/patch.diff")
                    rc2, out2, dt2 = sh(cmd, cwd=wt)
                    print(json.dumps({"step": "demo-without-patch", "exit": rc2, "wall_s": round(dt2), "tail": out2[-300:]}))
    finally:
        sh(f"git -C /repo worktree remove --force {wt}")
    return 0

if __name__ == "__main__":
    sys.exit(main())
