#!/usr/bin/env python3
"""Evaluate a seeded breaking change against the monitors, in a scratch worktree (never in /repo).

  seedeval.py check   <patchdir> <PID> [PID...]   apply patch.diff, run ./check PID (quick) with VERIF_REPO
  seedeval.py confirm <patchdir> [slot]           (1) patch compiles + full existing suite passes,
                                                  (2) demo.diff test (command in <patchdir>/demo.cmd) fails
                                                      with the patch and passes without it
  seedeval.py cleanup                             remove every /tmp/sv-* worktree with its build output
Prints one JSON line per step. `check` worktrees (/tmp/sv-<name>) are removed at the end; `confirm`
re-uses /tmp/sv-confirm-<slot> (build output kept between patches; remove with `cleanup`).
"""
import json, os, subprocess, sys, time, re

def sh(cmd, cwd=None, env=None, timeout=7200):
    t = time.time()
    r = subprocess.run(cmd, shell=True, cwd=cwd, env=env, stdout=subprocess.PIPE, stderr=subprocess.STDOUT, text=True, timeout=timeout)
    return r.returncode, r.stdout, time.time() - t

def worktree(name):
    wt = f"/tmp/sv-{name}"
    sh(f"git -C /repo worktree remove --force {wt}")
    rc, out, _ = sh(f"git -C /repo worktree add -q {wt} HEAD")
    assert rc == 0, out
    return wt

SUITE = ("cargo nextest run --workspace --no-fail-fast --tool-config-file pb:/w/lib/nextest.toml "
         "--profile pb --test-threads 8 --offline")

def failures(out):
    return sorted({re.sub(r"\s+", " ", l.strip())[:140] for l in out.split("\n")
                   if re.match(r"\s+(FAIL|TIMEOUT|SIGABRT|SIGSEGV)", l)})

def confirm(pdir, slot):
    wt = f"/tmp/sv-confirm-{slot}"
    if not os.path.isdir(wt):
        rc, out, _ = sh(f"git -C /repo worktree add -q --detach {wt} HEAD")
        assert rc == 0, out
    head = sh("git -C /repo rev-parse HEAD")[1].strip()
    sh(f"git -C {wt} checkout -q --detach {head}; git -C {wt} checkout -- . ; git -C {wt} clean -fdq -e target")
    res = {"patch": pdir, "base": head}
    rc, out, _ = sh(f"git -C {wt} apply {pdir}/patch.diff")
    if rc != 0:
        print(json.dumps({"step": "apply", "ok": False, "out": out[-500:]})); return 2
    rc, out, dt = sh(SUITE, cwd=wt)
    summ = [l.strip() for l in out.split("\n") if "Summary" in l]
    fails = failures(out)
    # timing-dependent tests on a loaded machine: re-run each failing test alone before judging
    still = []
    names = [f.split()[-1] for f in fails]
    if names:
        # first all of them together at low parallelism, then the remaining ones one by one
        expr = " | ".join(f"test(={n})" for n in names)
        rc1, out1, _ = sh(f"cargo nextest run --workspace --offline --no-fail-fast --test-threads 3 --tool-config-file pb:/w/lib/nextest.toml --profile pb -E '{expr}'", cwd=wt)
        again = [f.split()[-1] for f in failures(out1)] if rc1 != 0 else []
        for name in again:
            rc2, out2, _ = sh(f"cargo nextest run --workspace --offline --tool-config-file pb:/w/lib/nextest.toml --profile pb -E 'test(={name})'", cwd=wt)
            if rc2 != 0:
                still.append(name)
    print(json.dumps({"step": "existing-suite-with-patch", "exit": rc, "wall_s": round(dt), "summary": summ[-1:],
                      "failed_in_full_run": fails[:12], "still_failing_alone": still[:12],
                      "compile_error": ("error: could not compile" in out)}))
    ok_suite = not still and "error: could not compile" not in out and bool(summ)
    demo = f"{pdir}/demo.diff"
    ok_demo = None
    if os.path.exists(demo) and os.path.exists(f"{pdir}/demo.cmd"):
        rc, out, _ = sh(f"git -C {wt} apply {demo}")
        print(json.dumps({"step": "apply-demo", "exit": rc, "out": out[-300:]}))
        cmd = open(f"{pdir}/demo.cmd").read().strip()
        rc1, out1, dt1 = sh(cmd, cwd=wt)
        print(json.dumps({"step": "demo-with-patch", "exit": rc1, "wall_s": round(dt1), "tail": out1[-600:]}))
        sh(f"git -C {wt} apply -R {pdir}/patch.diff")
        rc2, out2, dt2 = sh(cmd, cwd=wt)
        print(json.dumps({"step": "demo-without-patch", "exit": rc2, "wall_s": round(dt2), "tail": out2[-300:]}))
        ran = lambda o: re.search(r"(\d+) passed|test result: ok\. [1-9]|PASS \[", o) is not None
        ok_demo = rc1 != 0 and rc2 == 0 and "could not compile" not in out1 and ran(out2)
    print(json.dumps({"step": "verdict", "patch": pdir, "base": head, "suite_passes_with_patch": ok_suite, "demo_discriminates": ok_demo}))
    sh(f"git -C {wt} checkout -- . ; git -C {wt} clean -fdq -e target")
    return 0

def retest(pdir, slot, names, attempts=4):
    """Re-run the named tests alone with the patch applied (up to `attempts` times each); for those that never
    pass, the same on the unpatched tree, so that load-dependent tests can be told apart."""
    wt = f"/tmp/sv-confirm-{slot}"
    head = sh("git -C /repo rev-parse HEAD")[1].strip()
    if not os.path.isdir(wt):
        rc, out, _ = sh(f"git -C /repo worktree add -q --detach {wt} HEAD")
        assert rc == 0, out
    sh(f"git -C {wt} checkout -q --detach {head}; git -C {wt} checkout -- . ; git -C {wt} clean -fdq -e target")
    rc, out, _ = sh(f"git -C {wt} apply {pdir}/patch.diff")
    assert rc == 0, out
    res = {}
    def run(name):
        rc, out, dt = sh(f"cargo nextest run --workspace --offline --tool-config-file pb:/w/lib/nextest.toml --profile pb -E 'test(={name})'", cwd=wt)
        return rc == 0 and re.search(r"1 passed", out) is not None
    for n in names:
        res[n] = {"with_patch": [run(n) for _ in range(1)]}
        k = 1
        while not any(res[n]["with_patch"]) and k < attempts:
            res[n]["with_patch"].append(run(n)); k += 1
    never = [n for n in names if not any(res[n]["with_patch"])]
    if never:
        sh(f"git -C {wt} apply -R {pdir}/patch.diff")
        for n in never:
            res[n]["without_patch"] = [run(n) for _ in range(attempts)]
    print(json.dumps({"step": "retest", "patch": pdir, "base": head, "results": res,
                      "all_passed_with_patch": not never}))
    sh(f"git -C {wt} checkout -- . ; git -C {wt} clean -fdq -e target")
    return 0

def main():
    mode = sys.argv[1]
    if mode == "retest":
        return retest(os.path.abspath(sys.argv[2]), sys.argv[3], sys.argv[4:])
    if mode == "cleanup":
        import glob
        for wt in glob.glob("/tmp/sv-*"):
            sh(f"git -C /repo worktree remove --force {wt}"); sh(f"rm -rf {wt}")
        sh("git -C /repo worktree prune")
        return 0
    pdir = os.path.abspath(sys.argv[2])
    if mode == "confirm":
        return confirm(pdir, sys.argv[3] if len(sys.argv) > 3 else "a")
    name = re.sub(r"[^A-Za-z0-9]", "-", pdir.strip("/"))[-40:]
    wt = worktree(name + "-" + mode)
    try:
        rc, out, _ = sh(f"git -C {wt} apply {pdir}/patch.diff")
        if rc != 0:
            print(json.dumps({"step": "apply", "ok": False, "out": out[-500:]})); return 2
        for pid in sys.argv[3:]:
            env = dict(os.environ, VERIF_REPO=wt)
            rc, out, dt = sh(f"./check {pid} --tier quick", cwd="/verif", env=env)
            lines = [l for l in out.split("\n") if l.startswith(("VIOLATION", "KNOWN", "INCONCLUSIVE", pid))]
            print(json.dumps({"step": "check", "property": pid, "exit": rc, "wall_s": round(dt), "lines": [l[:260] for l in lines[-8:]]}))
    finally:
        sh(f"git -C /repo worktree remove --force {wt}"); sh(f"rm -rf {wt}")
    return 0

if __name__ == "__main__":
    sys.exit(main())
