#!/usr/bin/env python3
"""Generate MANIFEST.json from props.py (single source of truth)."""
import json, os, subprocess, sys
ROOT = os.path.dirname(os.path.abspath(__file__))
sys.path.insert(0, ROOT)
from props import PROPS, NOT_APPLICABLE, HOOK_COMMITS

all_ids = [json.loads(l)["id"] for l in open(os.path.join(ROOT, "properties.jsonl"))]
checks = []
for pid in all_ids:
    if pid not in PROPS:
        continue
    s = PROPS[pid]
    checks.append({
        "property_id": pid,
        "quick_cmd": f"./check {pid} --tier quick",
        "thorough_cmd": f"./check {pid} --tier thorough",
        "evidence_file": f"/verif/evidence/{pid}.json",
        "replay_cmd_template": f"./check {pid} --replay {{path}}",
        "engine": "heartwood-runtime-monitors",
        "level_claimed": {
            "category": s["level"],
            "text": s.get("level_text") or ("Held on the executions this run produced and observed (counts in the evidence file); "
                     "a runtime monitor over generated/enumerated workloads, not a proof. " + s["rule"]),
            "design_ref": f"DESIGN.md §3 {pid}",
        },
        "level_note": "; ".join(s.get("assumptions", [])),
        "technique": s["technique"],
    })
na = [{"property_id": p, "reason": NOT_APPLICABLE.get(p, "check not built yet in this session (planned: see DESIGN.md §3); not claimed")}
      for p in all_ids if p not in PROPS]
m = {
    "version": 1,
    "setup_cmd": "./setup.sh",
    "hooks": {
        "guard": "cargo feature `verif` on radicle-node (off by default)",
        "enable": "harness crate h-node depends on radicle-node with features [\"test\", \"verif\"]; all other harness crates use only public API and the crates' existing `test` features",
        "baseline_off_cmd": "cd /repo && cargo nextest run --workspace --no-fail-fast --tool-config-file pb:/w/lib/nextest.toml --profile pb --test-threads 8 --offline || (cd /repo && cargo test --workspace --no-fail-fast --offline)",
        "source_commits": HOOK_COMMITS,
        "add_only": True,
    },
    "engines": [{
        "name": "heartwood-runtime-monitors",
        "path": "/verif/check",
        "serves_properties": [c["property_id"] for c in checks],
        "kind_free_text": "python driver + Rust harness workspace (/verif/harness) linking the real heartwood crates by path; seeded workload generators, online oracles / reference models, offline event-log checkers, catch_unwind, counting allocator, CPU-time watchdog; Miri, valgrind memcheck and ASan as secondary monitors in the thorough tier",
    }],
    "checks": checks,
    "not_applicable": na,
    "notes": "Technique family: runtime monitoring and sanitizers. Exit 0 = held on everything observed (KNOWN-FINDING lines for entries of known_findings.json), 1 = unknown violation (VIOLATION line + replay file), 2 = inconclusive (build failure, harness error, watchdog, or observation gate not met). VERIF_SEED seeds every random choice.",
}
json.dump(m, open(os.path.join(ROOT, "MANIFEST.json"), "w"), indent=1)
print(f"MANIFEST.json: {len(checks)} checks, {len(na)} not claimed")
