"""Properties of the node's persistent (SQLite) stores — harness crate h-db."""


def register(PROPS, h):
    native, valgrind, TRUST_BASE = h["native"], h["valgrind"], h["TRUST_BASE"]

    PROPS["C24"] = dict(
        title="Node databases behave like their simple models",
        level="exploration",
        technique=("runtime model-based monitor: random operation sequences against each persistent store on an in-memory "
                   "SQLite database, stepped in lock-step with an in-memory map model; return value and full read-back "
                   "compared after every operation; invariant oracle where SQL leaves the outcome open; violations shrunk "
                   "to a minimal operation list; subset under valgrind memcheck (SQLite is C)"),
        rule=("One case = one sequence of 60 (quick) / 200 (thorough) operations on a fresh store, the store chosen round-robin: "
              "routing (add_inventory incl. several/duplicate ids, remove_inventory, remove_inventories, prune with cutoff/limit/"
              "ignored node; read back by entry over all pool pairs, entries, get, get_inventory, len, count, is_empty), "
              "sync status (synced; seeds_for, seeded_by), refs cache (set, delete; get over all pool keys, count, is_empty), "
              "policies (follow, seed, set_follow_policy, set_seed_policy, unfollow, unseed, unblock_nid, unblock_rid; "
              "follow_policy, seed_policy, is_following, is_seeding, follow_policies, seed_policies, nodes_by_alias, alias, "
              "reverse_lookup), gossip store (announced, set_relay, relays, prune, filtered with default/partial/empty bloom "
              "filters; read back by filtered over the whole range and last). Keys come from pools of 3-6 nodes/repos so that "
              "most writes hit a stored key; timestamps are aimed at the stored value (tie, -1/-2, +1/+2), at 0..3, at a "
              "realistic cluster, at i64::MAX-2..i64::MAX and (2 %, observation only: the call must fail) above i64::MAX. "
              "Oracle: map model written from the statement, trait docs and unit tests: routing timestamps only increase "
              "(SeedAdded/TimeUpdated/NotUpdated per id); routing prune: nothing added or changed, removed ⊆ {ts < cutoff}, "
              "none of the ignored (local) node, |removed| ≤ limit, result = |removed|, and exactly {ts < cutoff, node ≠ "
              "ignored} when the limit cannot bind; sync status / cached refs change only to a strictly newer timestamp "
              "with a different value (and then do change), result = whether stored; policies: each write sets one column "
              "(alias / scope / policy) or deletes the row, every read-back shows the last write per column; gossip: an "
              "announcement is replaced only by a strictly newer one of the same node, kind and repository (same id kept), "
              "relay flags, prune and filtered agree with the model (filtered: bloom false positives allowed, no order "
              "demanded). Non-trivial = a completed sequence with >= 3 writes to an already stored key; distinct by "
              "operation-list hash."),
        assumptions=[TRUST_BASE,
                     "the stores are driven through their public Rust API on Database::memory() / policy Store::memory(); "
                     "on-disk journal modes, concurrent connections and busy timeouts are not exercised",
                     "routing / sync-status sequences run half with foreign keys ON and the nodes registered through the "
                     "address store, half with foreign keys OFF as in the crate's own routing tests",
                     "policy reading: follow()/seed() write alias/scope only, so they leave a blocked row blocked "
                     "(counted as observed:policy.*-on-blocked-row-stays-blocked, not flagged)",
                     "an Err from a store call on in-range input, a read error or a panic is reported as inconclusive, not "
                     "as a violation; timestamp 0 to gossip announced and from > to to filtered are never fed (C13)"],
        # quick minima are ~40 % of the smallest value seen over seeds 1-3; thorough minima = 25 x quick
        # (the thorough tier runs 7.5 x the sequences, 3.3 x as long, in two build profiles: ~50 x).
        gates=dict(
            quick={"evaluations": 12_000, "routing.add.tie": 20_000, "routing.add.regression": 15_000,
                   "routing.add.advance": 7_000, "routing.add.at-i64-boundary": 30_000,
                   "routing.prune.local-node-has-entry-older-than-cutoff": 6_000,
                   "routing.prune.limit-binding.removed-some": 2_000, "routing.prune.entry-exactly-at-cutoff": 10_000,
                   "routing.prune.removed-some": 10_000, "seeds.synced.tie.different-head": 8_000,
                   "seeds.synced.advance.same-head": 10_000, "seeds.synced.advance.different-head": 8_000,
                   "seeds.synced.regression.different-head": 9_000, "seeds.synced.at-i64-boundary": 20_000,
                   "refs.set.tie.different-oid": 6_000, "refs.set.advance.same-oid": 8_000,
                   "refs.set.advance.different-oid": 7_000, "refs.set.regression.different-oid": 7_000,
                   "refs.set.name-differing-only-in-case-is-stored": 4_000, "refs.delete.existing": 6_000,
                   "policy.follow.alias-changed": 6_000, "policy.seed.scope-changed": 5_000,
                   "policy.set_follow_policy.changed": 4_000, "policy.set_seed_policy.changed": 4_000,
                   "policy.unblock_nid.blocked-row": 1_200, "policy.unblock_rid.blocked-row": 1_200,
                   "policy.unfollow.existing": 3_500, "policy.unseed.existing": 3_500, "gossip.announced.tie": 9_000,
                   "gossip.announced.regression": 10_000, "gossip.announced.advance": 6_500,
                   "gossip.announced.node-has-other-kind-or-repo-stored": 20_000,
                   "gossip.announced.at-i64-boundary": 15_000, "gossip.relays.some-to-relay": 1_800,
                   "gossip.prune.announcement-exactly-at-cutoff": 2_500, "gossip.filtered.expecting-some": 7_000,
                   "gossip.filtered.filter-excludes-a-stored-refs-announcement": 1_800},
            thorough={"evaluations": 200_000, "routing.add.tie": 500_000, "routing.add.regression": 375_000,
                      "routing.add.advance": 175_000, "routing.add.at-i64-boundary": 750_000,
                      "routing.prune.local-node-has-entry-older-than-cutoff": 150_000,
                      "routing.prune.limit-binding.removed-some": 50_000,
                      "routing.prune.entry-exactly-at-cutoff": 250_000, "routing.prune.removed-some": 250_000,
                      "seeds.synced.tie.different-head": 200_000, "seeds.synced.advance.same-head": 250_000,
                      "seeds.synced.advance.different-head": 200_000, "seeds.synced.regression.different-head": 225_000,
                      "seeds.synced.at-i64-boundary": 500_000, "refs.set.tie.different-oid": 150_000,
                      "refs.set.advance.same-oid": 200_000, "refs.set.advance.different-oid": 175_000,
                      "refs.set.regression.different-oid": 175_000,
                      "refs.set.name-differing-only-in-case-is-stored": 100_000, "refs.delete.existing": 150_000,
                      "policy.follow.alias-changed": 150_000, "policy.seed.scope-changed": 125_000,
                      "policy.set_follow_policy.changed": 100_000, "policy.set_seed_policy.changed": 100_000,
                      "policy.unblock_nid.blocked-row": 30_000, "policy.unblock_rid.blocked-row": 30_000,
                      "policy.unfollow.existing": 87_500, "policy.unseed.existing": 87_500,
                      "gossip.announced.tie": 225_000, "gossip.announced.regression": 250_000,
                      "gossip.announced.advance": 162_500,
                      "gossip.announced.node-has-other-kind-or-repo-stored": 500_000,
                      "gossip.announced.at-i64-boundary": 375_000, "gossip.relays.some-to-relay": 45_000,
                      "gossip.prune.announcement-exactly-at-cutoff": 62_500, "gossip.filtered.expecting-some": 175_000,
                      "gossip.filtered.filter-excludes-a-stored-refs-announcement": 45_000}),
        runs=dict(
            quick=[native("h-db", "C24")],
            thorough=[native("h-db", "C24"), native("h-db", "C24", profile="release"), valgrind("h-db", "C24", cases=50)],
        ),
    )
