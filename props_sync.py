"""C17 (rate limiter) and C25 (sync announcer / fetcher) — harness crate h-sync."""


def register(PROPS, h):
    native, TRUST_BASE = h["native"], h["TRUST_BASE"]

    PROPS["C17"] = dict(
        title="Rate limiting admits at most capacity plus refill",
        level="exploration",
        technique=("runtime monitor: generated request timelines through the real RateLimiter::limit (every call under "
                   "catch_unwind), admission-bound oracle over ALL O(n^2) windows of the recorded (time, outcome) log, own "
                   "octet classifier for non-routable addresses"),
        rule=("Timelines of 20..400 calls over 1-4 hosts (DNS names, public / block-boundary / non-routable IPv4, global and "
              "non-global IPv6) and 1-4 node ids (a third of them bypassed), capacity 0..264, rate 0 / 1e-9 / fractional "
              "(0.01..0.99, 1/k, random) / integral up to 100: bursts of capacity+k calls at one instant, sub-second steps, "
              "steps of 999/1000/1001/1999/2000/2001 ms, waits of exactly ceil(1/rate) s +-1 ms, idle periods of 10..10^7 s "
              "or exactly one full refill +-1 s, and in 40% of the timelines backwards clock steps; in 10% the (capacity, "
              "rate) handed in for a host changes between calls. Oracle per rate-limited host, from the log only: for every "
              "pair i<=j of admitted calls (call order) count(i..j) <= capacity + rate*floor(L/1s) + 1e-9 with L = sum of the "
              "forward clock steps shown to the limiter between i and j (= t_j - t_i for a monotone clock; the most generous "
              "reading for a non-monotone one; max capacity/rate seen so far when the configuration varies); calls with a "
              "bypassed node id are excluded from the count and must never be limited; calls from 10/8, 172.16/12, "
              "192.168/16, 127/8, 169.254/16, 0/8, 255.255.255.255 and the documentation /24s must never be limited. "
              "100.64/10, 192.0.0/24, 198.18/15, >=224 and non-global IPv6 get no verdict (counted as obs.*). A panic on a "
              "backwards clock step is counted (panic.backwards-clock), not a violation; on a forward step the case is "
              "inconclusive. Non-trivial = a rate-limited host was exhausted and later admitted again (refill decided an "
              "admission); distinct by timeline hash."),
        assumptions=[TRUST_BASE,
                     "window length on a non-monotone clock = sum of forward steps shown to the limiter (never demands more than the statement)",
                     "which IPv4 blocks are 'non-routable' is decided by the harness's own RFC 1918/1122/3927/5737/919 octet matcher; debatable blocks and IPv6 get no verdict",
                     "the bucket's capacity/rate are the values handed to limit(); f64 accumulation error is far below the 1e-9 slack for capacities <= 264"],
        gates=dict(
            quick={"evaluations": 300_000, "bucket-calls.admitted": 6_000_000, "bucket-calls.limited": 6_000_000,
                   "windows-checked": 300_000_000, "windows-tight.zero-length": 600_000, "windows-tight.sub-second": 30_000,
                   "windows-tight.multi-second.fractional-rate": 300_000,
                   "limited-hosts.exhausted-then-admitted-after-refill": 90_000, "limited-hosts.non-monotone-clock": 48_000,
                   "bypassed.calls-beyond-capacity-at-one-instant": 1_200_000,
                   "nonroutable.calls-beyond-capacity-at-one-instant": 600_000,
                   "nonroutable.calls:private": 600_000, "nonroutable.calls:loopback": 180_000,
                   "nonroutable.calls:link-local": 180_000, "nonroutable.calls:broadcast": 60_000},
            thorough={"evaluations": 10_000_000, "bucket-calls.admitted": 160_000_000, "bucket-calls.limited": 160_000_000,
                      "windows-checked": 8_000_000_000, "windows-tight.zero-length": 16_000_000,
                      "windows-tight.sub-second": 800_000, "windows-tight.multi-second.fractional-rate": 8_000_000,
                      "limited-hosts.exhausted-then-admitted-after-refill": 2_400_000,
                      "limited-hosts.non-monotone-clock": 1_200_000,
                      "bypassed.calls-beyond-capacity-at-one-instant": 32_000_000,
                      "nonroutable.calls-beyond-capacity-at-one-instant": 16_000_000}),
        runs=dict(
            quick=[native("h-sync", "C17")],
            thorough=[native("h-sync", "C17"), native("h-sync", "C17", profile="release")],
        ),
    )

    PROPS["C25"] = dict(
        title="Sync targets report success exactly when reached",
        level="exploration",
        technique=("runtime monitor: generated configurations and call scripts through the real sync::Announcer / sync::Fetcher "
                   "public API (every call under catch_unwind), shadow bookkeeping of distinct non-local nodes, target-met "
                   "predicate from the public Target accessors; failing scripts are shrunk"),
        rule=("10-node alphabet; the local node is any of them and is put into preferred / synced / unsynced / seeds / extra "
              "candidates with probability 1/6..1/5; public and private-network configurations; MustReach(0..7) and "
              "Range(lo,hi) incl. degenerate ranges. Announcer scripts: synced_with for members of to_sync(), arbitrary, "
              "unknown, already-synced and the local node, interleaved with progress(), to_sync(), can_continue(), "
              "premature timed_out(), and continuing after a Break. Fetcher scripts: protocol runs (next_node -> "
              "ready_to_fetch -> next_fetch -> fetch_complete ok/failed) mixed with, or replaced by, arbitrary "
              "ready_to_fetch / fetch_complete / fetch_failed for the local node, unknown nodes and nodes that already have a "
              "result, duplicate candidates, progress(), finish(). Oracle: S = distinct non-local nodes synced / with a "
              "successful result; fetcher target met = (P non-empty and P subset of S) or |S| >= bound; announcer = P subset "
              "of S and |S| >= bound (its unit tests require both); bound = n for MustReach(n), upper for Range. At every "
              "synced_with / fetch_complete / timed_out / finish: success reported <=> target met. to_sync / next_node / "
              "next_fetch / timed-out set never contain the local node, next_node / next_fetch never return a node with a "
              "result, no reported synced map or count includes the local node, no panic. Accepted either way and counted "
              "(ambiguous.*): a Range between its bounds at the terminal call; the local node inside the target's preferred "
              "set. Non-trivial = a constructed machine that received >= 2 results; distinct by (configuration, script)."),
        assumptions=[TRUST_BASE,
                     "the target is what the public target() accessors return after construction",
                     "announcer needs preferred seeds AND replica count, fetcher preferred seeds OR replica count (module docs / unit tests)",
                     "can_continue()'s NoNodes counts as a failure report only while the caller has not been told Break(Success)",
                     "construction errors (NoSeeds / AlreadySynced / Target / NoCandidates) are not success reports of a sync process (counted only)"],
        gates=dict(
            quick={"evaluations": 350_000, "announcer.decisions": 200_000, "fetcher.decisions": 200_000,
                   "announcer.synced_with.local-node": 20_000, "announcer.synced_with.reaches-replica-bound": 30_000,
                   "announcer.synced_with.repeated-node": 20_000, "announcer.synced_with.unknown-node": 20_000,
                   "announcer.success.MaxReplicationFactor": 15_000, "announcer.result.TimedOut": 15_000,
                   "announcer.result.NoNodes": 5_000, "announcer.to_sync-observed": 15_000,
                   "fetcher.result.for-local-node": 40_000, "fetcher.result.for-node-that-already-has-a-result": 20_000,
                   "fetcher.result.for-unknown-node": 30_000, "fetcher.result.reaches-replica-bound": 20_000,
                   "fetcher.ready_to_fetch.local-node": 10_000,
                   "fetcher.ready_to_fetch.node-that-already-has-a-result": 8_000,
                   "fetcher.next_node.handed-out": 100_000, "fetcher.next_fetch.handed-out": 80_000,
                   "fetcher.success.PreferredNodes": 15_000, "fetcher.success.MaxReplicas": 5_000,
                   "fetcher.result.TargetError": 20_000},
            thorough={"evaluations": 20_000_000, "announcer.decisions": 12_000_000, "fetcher.decisions": 12_000_000,
                      "announcer.synced_with.local-node": 1_200_000, "announcer.synced_with.reaches-replica-bound": 1_800_000,
                      "fetcher.result.for-local-node": 2_400_000,
                      "fetcher.result.for-node-that-already-has-a-result": 1_200_000,
                      "fetcher.result.for-unknown-node": 1_800_000, "fetcher.ready_to_fetch.local-node": 600_000,
                      "fetcher.ready_to_fetch.node-that-already-has-a-result": 480_000,
                      "fetcher.success.PreferredNodes": 900_000, "fetcher.result.TargetError": 1_200_000}),
        runs=dict(
            quick=[native("h-sync", "C25")],
            thorough=[native("h-sync", "C25"), native("h-sync", "C25", profile="release")],
        ),
    )
