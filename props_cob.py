def register(PROPS, h):
    native, valgrind, TB = h["native"], h["valgrind"], h["TRUST_BASE"]
    COB_TB = [TB, "git2/libgit2 object storage", "ed25519 verification through PublicKey::verify (used by the oracle itself)",
              "changes are written with the real `impl change::Storage for git2::Repository`; refs decide what is loaded"]
    PROPS["C04"] = dict(
        title="Identity revisions need a majority of valid delegate signatures",
        level="exploration",
        technique="runtime monitor over prefix evaluations of generated identity histories: own signature verification and majority arithmetic over the public accessors of the real evaluated Identity",
        rule=("Per case a fresh repository with 1-5 delegates; 3-14 (thorough: 3-24) changes written with the low-level change "
              "writer: revision proposals (delegate added/removed, threshold, payload edits; on the current or a stale parent), "
              "accepts (valid signature, signature over other bytes, valid signature over another document, somebody else's "
              "signature, duplicate verdicts), rejects, edits and redactions of own/foreign/accepted revisions, by current "
              "delegates, former/candidate delegates and a stranger, with forks, merges and timestamp ties; multi-action "
              "changes in the release-profile run. After EVERY change the real evaluator is run on the prefix and the "
              "oracle checks: each revision on the chain current..root is Accepted and carries valid signatures (own "
              "ed25519 verification over the blob id) from a strict majority of the delegates of the document it replaced; "
              "every Accepted revision lies on that chain; a change by a key that is not a delegate of the current document "
              "(compared when applied last) leaves the identity unchanged; accepted revisions are never edited or redacted. "
              "Non-trivial = a history in which at least one adoption happened; distinct by case seed."),
        assumptions=COB_TB,
        gates=dict(quick={"adoptions-observed": 150, "adoptions-checked.with-3+-delegates": 300, "fed.accept-with-invalid-signature": 100, "fed.revision-with-invalid-signature": 100, "checked.non-delegate-change-applied-last": 300, "fed.edit-of-accepted-revision": 100},
                   thorough={"adoptions-observed": 3000, "fed.accept-with-invalid-signature": 2000}),
        runs=dict(quick=[native("h-cob", "C04")],
                  thorough=[native("h-cob", "C04"), native("h-cob", "C04", profile="release")]),
    )
    PROPS["C06"] = dict(
        title="Rejected collaborative-object changes leave no trace in the state",
        level="exploration",
        technique="runtime self-differential monitor: real evaluation of a generated history vs real evaluation of the same commits with the rejected changes unreferenced; generator ground truth for the pruning clause",
        rule=("Issue and patch histories of 4-17 (thorough: 4-25) changes by delegates, the object author and strangers with forks, "
              "merges, timestamp ties; ~22% of the changes are built to be rejected: invalid signature, or an action the type "
              "rejects unconditionally (title with newline, reply to / edit of a non-existent comment, revision edit/comment "
              "on a non-existent revision, unauthorized assign/label/merge), most of them as the LAST action of a multi-action "
              "change whose earlier actions are individually acceptable; valid changes are hung off rejected ones. Oracle: "
              "(a) no change built to be rejected, and no dependent of one, is in the returned history; (b) re-pointing the "
              "refs at tips(returned history) — the same commits minus the rejected ones — and evaluating again yields the "
              "identical state and change set. Non-trivial = a history in which something was pruned; distinct by object id."),
        assumptions=COB_TB,
        gates=dict(quick={"issue.histories-with-pruning": 100, "patch.histories-with-pruning": 100, "issue.pruned-change-had-acceptable-earlier-action": 60, "patch.pruned-change-had-acceptable-earlier-action": 60, "issue.with-invalid-signature": 20, "issue.with-dependents-of-rejected": 30},
                   thorough={"issue.histories-with-pruning": 2000, "patch.histories-with-pruning": 2000}),
        runs=dict(quick=[native("h-cob", "C06")],
                  thorough=[native("h-cob", "C06"), native("h-cob", "C06", profile="release")]),
    )
