def register(PROPS, h):
    native, valgrind, TB = h["native"], h["valgrind"], h["TRUST_BASE"]
    COB_TB = [TB, "git2/libgit2 object storage", "ed25519 verification through PublicKey::verify (used by the oracle itself)",
              "changes are written with the real `impl change::Storage for git2::Repository`; refs decide what is loaded"]
    PROPS["C04"] = dict(
        title="Identity revisions need a majority of valid delegate signatures",
        level="exploration",
        technique="runtime monitor over prefix evaluations of generated identity histories: own signature verification and majority arithmetic over the public accessors of the real evaluated Identity",
        rule=("Per case a fresh repository with 1-5 delegates; 3-14 (thorough: 3-24) changes written with the low-level change "
              "writer: revision proposals (delegate added/removed, threshold, payload edits; on the current or a stale parent), "
              "accepts (valid signature, signature over other bytes, valid signature over another document, somebody else's "
              "signature, duplicate verdicts), rejects, edits and redactions of own/foreign/accepted revisions, by current "
              "delegates, former/candidate delegates and a stranger, with forks, merges and timestamp ties; multi-action "
              "changes in the release-profile run. After EVERY change the real evaluator is run on the prefix and the "
              "oracle checks: each revision on the chain current..root is Accepted and carries valid signatures (own "
              "ed25519 verification over the blob id) from a strict majority of the delegates of the document it replaced; "
              "every Accepted revision lies on that chain; a change by a key that is not a delegate of the current document "
              "(compared when applied last) leaves the identity unchanged; accepted revisions are never edited or redacted. "
              "Non-trivial = a history in which at least one adoption happened; distinct by case seed."),
        assumptions=COB_TB,
        gates=dict(quick={"adoptions-observed": 150, "adoptions-checked.with-3+-delegates": 300, "fed.accept-with-invalid-signature": 100, "fed.revision-with-invalid-signature": 100, "checked.non-delegate-change-applied-last": 300, "fed.edit-of-accepted-revision": 100},
                   thorough={"adoptions-observed": 3000, "fed.accept-with-invalid-signature": 2000}),
        runs=dict(quick=[native("h-cob", "C04")],
                  thorough=[native("h-cob", "C04"), native("h-cob", "C04", profile="release")]),
    )
    PROPS["C06"] = dict(
        title="Rejected collaborative-object changes leave no trace in the state",
        level="exploration",
        technique="runtime self-differential monitor: real evaluation of a generated history vs real evaluation of the same commits with the rejected changes unreferenced; generator ground truth for the pruning clause",
        rule=("Issue and patch histories of 4-17 (thorough: 4-25) changes by delegates, the object author and strangers with forks, "
              "merges, timestamp ties; ~22% of the changes are built to be rejected: invalid signature, or an action the type "
              "rejects unconditionally (title with newline, reply to / edit of a non-existent comment, revision edit/comment "
              "on a non-existent revision, unauthorized assign/label/merge), most of them as the LAST action of a multi-action "
              "change whose earlier actions are individually acceptable; valid changes are hung off rejected ones. Oracle: "
              "(a) no change built to be rejected, and no dependent of one, is in the returned history; (b) re-pointing the "
              "refs at tips(returned history) — the same commits minus the rejected ones — and evaluating again yields the "
              "identical state and change set. Non-trivial = a history in which something was pruned; distinct by object id."),
        assumptions=COB_TB,
        gates=dict(quick={"issue.histories-with-pruning": 100, "patch.histories-with-pruning": 100, "issue.pruned-change-had-acceptable-earlier-action": 60, "patch.pruned-change-had-acceptable-earlier-action": 60, "issue.with-invalid-signature": 20, "issue.with-dependents-of-rejected": 30},
                   thorough={"issue.histories-with-pruning": 2000, "patch.histories-with-pruning": 2000}),
        runs=dict(quick=[native("h-cob", "C06")],
                  thorough=[native("h-cob", "C06"), native("h-cob", "C06", profile="release")]),
    )

    PROPS["C05"] = dict(
        title="Collaborative object state is a function of the change set",
        level="exploration",
        technique="runtime differential monitor: the same change commits loaded through permuted/duplicated/incremental reference placements by the real evaluators, plus a recording evaluator behind a Store wrapper that reorders objects()",
        rule=("Issue and patch change DAGs of 4-15 (thorough: 4-21) changes with 45% forks, merges, equal timestamps (so the "
              "(timestamp, oid) tie-break decides), rejected changes and unprivileged actions. Each DAG is evaluated with the "
              "tips (i) under every permutation of namespaces (<= 5 tips: all; else 8 random), (ii) plus 1-4 extra references to "
              "interior changes / duplicates in shuffled namespaces, (iii) added one by one in random order with an evaluation "
              "after each; and (iv) by a recording Evaluate impl (logs apply order and each call's concurrent set, with and "
              "without rejections) through a Store wrapper returning objects() in every permutation and with duplicates. "
              "Oracle: state, change set, edges and tips identical to the base evaluation. Non-trivial = DAG with concurrent "
              "branches and a timestamp tie; distinct by object id."),
        assumptions=COB_TB + ["enumeration order of references follows ref names, so namespace permutation reorders enumeration"],
        gates=dict(quick={"issue.with-concurrent-branches-and-timestamp-tie": 60, "patch.with-concurrent-branches-and-timestamp-tie": 60, "variant.tips-under-permuted-namespaces": 800, "variant.recording-evaluator-reordered-objects": 2000, "issue.with-several-tips": 40},
                   thorough={"issue.with-concurrent-branches-and-timestamp-tie": 1500, "variant.recording-evaluator-reordered-objects": 40000}),
        runs=dict(quick=[native("h-cob", "C05")], thorough=[native("h-cob", "C05"), native("h-cob", "C05", profile="release")]),
    )
    PROPS["C07"] = dict(
        title="Issue and patch actions obey the authorization rules",
        level="exploration",
        technique="runtime monitor over prefix evaluations: field-wise state diff of consecutive real evaluations attributed to the author's role (oracle independent of authorization())",
        rule=("Issue and patch histories of 5-15 (thorough: 5-30) changes generated incrementally with every action variant "
              "offered to every role (delegate, object author, comment/review author, stranger) including privileged actions by "
              "unprivileged actors, no-op label/assign, edits/redactions of other people's comments and reviews, forks and "
              "timestamp ties. After EVERY change the prefix is evaluated by the real evaluator. If the change is absent from "
              "the returned history the state (and history) must equal the previous prefix exactly. If it was applied last "
              "(recomputed traversal order), the diff to the previous prefix is attributed to its author: assignees/labels/"
              "merges changed => delegate; title/target/lifecycle changed => delegate or object author; an existing comment or "
              "review edited or redacted => its author or a delegate. Non-trivial = history with > 4 changes; distinct by object id."),
        assumptions=COB_TB + ["delegates are those of the (fixed) identity document every change commits to"],
        gates=dict(quick={"attributed.by-non-delegate": 1200, "changes-rejected": 800, "fed.issue.assign.by-other": 60, "fed.issue.label.by-other": 60, "fed.issue.edit.by-other": 60, "fed.issue.comment.edit.by-other": 30,
                          "fed.patch.merge.by-other": 60, "fed.patch.assign.by-other": 40, "fed.patch.lifecycle.by-other": 40, "fed.patch.review.edit.by-other": 5, "observed.issue.title-changed": 100, "observed.patch.merges-changed": 30},
                   thorough={"attributed.by-non-delegate": 30000, "changes-rejected": 20000}),
        runs=dict(quick=[native("h-cob", "C07")], thorough=[native("h-cob", "C07"), native("h-cob", "C07", profile="release")]),
    )
    PROPS["C08"] = dict(
        title="A patch is merged only by a threshold of agreeing delegates",
        level="exploration",
        technique="runtime monitor over prefix evaluations of generated merge histories with harness-known commit ancestry and delegate branch positions",
        rule=("Per case a fresh repository with 1-4 delegates, threshold 1..n, delegates' default branches on a known commit "
              "chain; histories of 4-15 (thorough: 4-23) changes: merges by delegates and non-delegates of agreeing/disagreeing "
              "(revision, commit) pairs incl. commits not on the branch, new and redacted revisions, 1-2 lifecycle actions by "
              "author/delegates, default branches moved between evaluations. After every change (and every branch move) the "
              "real evaluator runs on the prefix. Oracle: state Merged{r,c} => at least threshold distinct delegates have a "
              "surviving merge of exactly (r,c) whose commit is on their default branch now (harness ancestry); a lifecycle-only "
              "change applied last (or rejected) leaves a Merged state untouched. Non-trivial = history that reached Merged; distinct by case seed."),
        assumptions=COB_TB + ["weakest reading of 'have recorded': a merge action anywhere in the surviving history counts, even if later overridden"],
        gates=dict(quick={"merged-states-checked": 2500, "merged-states-checked.threshold>=2": 600, "lifecycle-on-merged-patch-checked": 500, "histories-with-conflicting-merges": 10, "fed.default-branch-moved": 200},
                   thorough={"merged-states-checked": 40000, "merged-states-checked.threshold>=2": 10000}),
        runs=dict(quick=[native("h-cob", "C08")], thorough=[native("h-cob", "C08"), native("h-cob", "C08", profile="release")]),
    )
    PROPS["C09"] = dict(
        title="The COB cache answers exactly like direct evaluation",
        level="exploration",
        technique="runtime differential monitor: every query on Cache<_, StoreWriter> vs Cache::no_cache after every operation; cache fed by the real post-fetch updater (hook) and the cached API; valgrind memcheck on a subset (sqlite)",
        rule=("Per case a fresh repository and in-memory cache DB; 6-17 (thorough: 6-35) operations: issues/patches created and "
              "extended behind the cache's back with the change writer (comments, edits, redactions, revisions, reviews, review "
              "comments, lifecycle, merges, labels, assigns; forks) followed by the real worker::fetch::cache_cobs with the "
              "matching RefUpdates; objects removed by deleting their refs; creates and lifecycle changes through the cached "
              "high-level API. After EVERY operation: get (known + unknown ids), list, list_by_status (all statuses / issue "
              "states incl. both close reasons), counts, is_empty for issues and patches, and find_by_revision for EVERY 40-hex id "
              "occurring anywhere inside any patch (patch ids, live and redacted revision ids, comment ids, review ids, code "
              "commits) plus an unknown id, asked of both; answers compared as JSON (Err vs Ok differs). Non-trivial/distinct = case seed."),
        assumptions=COB_TB + ["bundled sqlite", "error messages are not compared, only Ok-vs-Err and Ok payloads"],
        gates=dict(quick={"query.patch.find_by_revision(other-nested-or-unknown-id)": 10000, "query.patch.find_by_revision(revision-id)": 3000, "op.fetched-update-through-cache_cobs": 1500, "op.through-cached-api": 150,
                          "patch-status-populated.open": 100, "patch-status-populated.draft": 10, "patch-status-populated.merged": 10, "patch-status-populated.archived": 5},
                   thorough={"query.patch.find_by_revision(other-nested-or-unknown-id)": 200000}),
        runs=dict(quick=[native("h-cob", "C09")], thorough=[native("h-cob", "C09"), native("h-cob", "C09", profile="release"), valgrind("h-cob", "C09", cases=24, shards=8)]),
    )
