"""radicle-cli group: C30 (unified diff text round trip)."""


def register(PROPS, h):
    native = h["native"]
    TRUST_BASE = h["TRUST_BASE"]

    PROPS["C30"] = dict(
        title="Unified diffs round-trip through their text encoding",
        level="exploration",
        technique=("runtime round-trip monitor: generated pairs of git trees are diffed with the CLI's own git2 options, "
                   "converted to radicle_surf::diff::Diff, encoded with radicle_cli::git::unified_diff::Encode, decoded "
                   "with Decode, and compared by an own structural comparison (encode/decode calls under catch_unwind)"),
        rule=("Each case = two trees of 0-8 text files (every file non-empty, valid UTF-8, ending in a newline; 1-180 lines) "
              "written with git2 into a scratch bare repository (in-memory object store). The second tree is derived from "
              "the first: files kept, edited at 1-4 sites (insert/delete/replace/swap lines, whitespace-only tweaks: "
              "add/strip trailing blank, TAB, CR, non-ASCII space, leading blank), deleted, renamed with identical content, "
              "renamed with edits, executable bit flipped with and without edits, new files added; occasionally an empty "
              "old tree or an emptied new tree. Line alphabet: plain code-like lines, leading/trailing blanks and TABs, "
              "whitespace-only and empty lines, lines starting with + - ++ -- +++ --- @@ 'diff --git' '\\ No newline' "
              "'index ..' 'rename from' 'Binary files' etc., CJK/emoji/combining/zero-width characters, non-ASCII spaces, "
              "lines of 300-25000 bytes, CRLF endings (single lines and whole files), CR inside a line, function-context "
              "candidates with long multi-byte tails. Diff options exactly as `rad diff` (patience, minimal, context "
              "U in {0,1,2,3,5,8}; find_similar exact_match_only+all) or as `rad patch review` (same plus copies(false)). "
              "Oracle: Diff::parse(diff.to_unified_string()) has the same number and order of files, the same change kind "
              "and path(s) per file, the same hunks: header bytes (incl. text after the second @@), old/new ranges, and per "
              "line kind, bytes (incl. trailing blanks) and line numbers. Blob ids, modes and stats are not compared. "
              "Secondary clauses: encode(decode(text)) == text; per file DiffContent::parse(content.to_unified_string()) "
              "(heartwood's own hunk/line decoder) keeps hunk count, header numbers+text, line kinds/bytes/numbers and "
              "re-encodes to the same text; if the decoder rejects the text, an own reader of the git file headers in "
              "the text still compares kinds, paths and hunk counts. "
              "Half of the cases contain no line ending in whitespace and half no exact rename, so a quarter of the cases "
              "exercises everything apart from those two shapes. Excluded and counted (never given to the encoder): "
              "diffs in which git detects a binary file or reports a Copied entry (encoder: todo!()). Never generated: "
              "empty files, files without final newline, symlinks/submodules, path names git would quote, non-UTF-8 bytes. "
              "Non-trivial = the diff has at least one hunk; distinct by hash of (options, encoded text)."),
        assumptions=[TRUST_BASE,
                     "git2/libgit2 (vendored 1.8.1) and radicle-surf 0.22 compute and convert the original diff correctly; "
                     "they are also what `Decode for Diff` itself is built on",
                     "the CLI's diff options are those in commands/diff.rs, commands/patch/review.rs and review/builder.rs",
                     "libgit2 user/system configuration is disabled for the run (empty search paths)"],
        gates=dict(
            quick={"evaluations": 150_000, "roundtrips": 100_000, "held": 25_000,
                   "case:no-line-with-trailing-whitespace": 40_000, "case:has-line-with-trailing-whitespace": 30_000,
                   "case:has-moved-file": 10_000, "case:no-moved-file": 75_000,
                   "kind:added": 50_000, "kind:deleted": 50_000, "kind:modified": 100_000, "kind:moved": 10_000,
                   "file:several-hunks": 25_000, "header:with-context-text": 50_000,
                   "file:mode-and-content-change": 5_000, "file:mode-change-only": 2_500,
                   "line:trailing-blank": 150_000, "line:whitespace-only": 50_000, "line:crlf": 100_000,
                   "line:trailing-unicode-space": 25_000, "line:leading-blank": 500_000, "line:empty": 150_000,
                   "line:starts-with-plus": 50_000, "line:starts-with-minus": 50_000, "line:starts-with-@@": 50_000,
                   "line:starts-with-diff--git": 15_000, "line:starts-with-backslash": 15_000,
                   "line:unicode": 250_000, "line:long>=1000": 25_000,
                   "opts:rad-diff": 30_000, "opts:review": 40_000, "context:0": 5_000},
            thorough={"evaluations": 2_100_000, "roundtrips": 1_500_000, "held": 420_000,
                      "case:no-line-with-trailing-whitespace": 600_000, "case:has-line-with-trailing-whitespace": 480_000,
                      "case:has-moved-file": 150_000, "case:no-moved-file": 1_200_000,
                      "kind:added": 900_000, "kind:deleted": 900_000, "kind:modified": 1_800_000, "kind:moved": 150_000,
                      "file:several-hunks": 420_000, "header:with-context-text": 900_000,
                      "file:mode-and-content-change": 90_000, "file:mode-change-only": 42_000,
                      "line:trailing-blank": 2_400_000, "line:whitespace-only": 900_000, "line:crlf": 1_800_000,
                      "line:trailing-unicode-space": 420_000, "line:starts-with-plus": 900_000,
                      "line:starts-with-minus": 900_000, "line:starts-with-@@": 900_000,
                      "line:starts-with-diff--git": 240_000, "line:starts-with-backslash": 240_000,
                      "line:unicode": 4_200_000, "line:long>=1000": 420_000}),
        runs=dict(
            quick=[native("h-cli", "C30")],
            thorough=[native("h-cli", "C30")],
        ),
    )
