def register(PROPS, h):
    native, valgrind, TB = h["native"], h["valgrind"], h["TRUST_BASE"]
    F_TB = [TB, "the serving side is an honest `git upload-pack` child (same arguments as the node's worker, request line swallowed) over repository content the generator controls; git executable, libgit2",
            "ed25519 verification through PublicKey::verify is used by the harness's own signed-refs checker"]
    PROPS["C01"] = dict(
        title="Replicated refs always match their owner's signed refs",
        level="fault_enumeration",
        technique="runtime before/after ref-snapshot monitor around the real radicle-fetch clone/pull against generated hostile serving repositories; independent signed-refs checker (own blob parser, canonicaliser, signature and identity-root check)",
        rule=("Per scenario: repository with 1-4 delegates (threshold 1..n) and 0-2 contributors, every namespace honest with two signed-refs "
              "commits; client non-delegate or a delegate; clone or pull (client cloned the honest state before); scope all/followed; with or "
              "without announced refs_at; optional blocked namespace. Then 1-3 namespaces are put into a fault state — the first cycling "
              "through ALL 12 operators (signature byte flipped, sigrefs re-keyed from another namespace, rad/root naming another repository "
              "(re-signed), rad/root omitted, non-canonical blob (reordered lines, zero-oid line), unsigned extra ref, signed ref moved, "
              "signed refs deleted, signed ref to a blob, ref in an odd category, sigrefs missing, garbage blob), others from "
              "{behind, diverged, sig flipped, re-keyed, other root, extra ref, moved}; the rest equal/ahead. Oracle: every namespace whose "
              "refs changed on the client has rad/sigrefs whose blob verifies under the namespace key over its canonical text, lists "
              "refs/rad/root bound to this RID (tree lookup of embeds/radicle.json), and whose listed set equals the namespace's refs exactly; "
              "every namespace whose OFFERED signed refs fail signature/parse/root-binding is byte-identical before and after. "
              "Non-trivial = scenario in which some namespace changed; distinct by case seed."),
        assumptions=F_TB + ["'advertised data' is read as the advertised signed-refs commit: unsigned or moved plain refs on the server are not replicated at all, which is checked through the client-side clause",
                            "the local node's own namespace is never requested via refs_at (the service filters it)"],
        gates=dict(quick={"cases.with-a-changed-namespace": 100, "cases.with-an-invalid-namespace-offered": 60, "changed-namespaces-checked": 150, "offered:SigFlipped": 12, "offered:Rekeyed": 10, "offered:RootOtherRepo": 10, "offered:RootOmitted": 10, "offered:NonCanonicalBlob": 10, "offered:UnsignedExtraRef": 10, "offered:SignedRefMoved": 10, "offered:GarbageBlob": 10, "offered:TagRecreated": 10, "offered:BranchBecomesDirectory": 10, "offered:BranchRewound": 10, "cases.refs_at-with-stale-announced-tip": 10},
                   thorough={"cases.with-a-changed-namespace": 800, "cases.with-an-invalid-namespace-offered": 700}),
        runs=dict(quick=[native("h-fetch", "C01")], thorough=[native("h-fetch", "C01"), native("h-fetch", "C01", profile="release"), valgrind("h-fetch", "C01", cases=48, shards=16)]),
    )
    PROPS["C02"] = dict(
        title="Fetches respect the delegate threshold and never rewind delegate sigrefs",
        level="fault_enumeration",
        technique="runtime before/after monitor around the real radicle-fetch clone/pull over generated per-delegate offered states; ancestry by git2 on the client object database; most-generous valid-delegate count as oracle",
        rule=("Per scenario: 1-4 delegates, threshold 1..n, client delegate or not, clone or pull, scope, refs_at, blocked delegate; each delegate's "
              "offered state drawn from {equal, ahead, behind, diverged, missing, and the 12 invalid/odd offers of C01}, contributors from "
              "{equal, ahead, behind, diverged, sig flipped}. Oracle: (I1) a delegate's rad/sigrefs on the client after the fetch equals or "
              "descends from the one before; (I2) Success only if at least threshold (minus one for a delegate client) delegates have valid "
              "signed refs under the MOST generous count (offered valid and not behind/diverged, or already held by the client); (I3) a Failed "
              "or erroring fetch leaves the client's refs byte-identical (clone: no namespace refs at all). Non-trivial = some namespace changed; distinct by case seed."),
        assumptions=F_TB + ["the converse (must succeed when enough delegates are valid) is not demanded"],
        gates=dict(quick={"failed-results-checked": 8, "error-results-checked": 50, "success-results-checked": 100, "success.with-a-delegate-ahead": 40, "cases.with-delegate-behind-or-diverged": 30, "delegate-sigrefs-moved": 20},
                   thorough={"failed-results-checked": 120, "success-results-checked": 1000}),
        runs=dict(quick=[native("h-fetch", "C02")], thorough=[native("h-fetch", "C02"), native("h-fetch", "C02", profile="release"), valgrind("h-fetch", "C02", cases=48, shards=16)]),
    )
