"""Encodings group: C18 canonical JSON, C19 identity documents, C20 signed refs, C21 textual identifiers
(harness crate h-enc; the Miri-able PublicKey/Signature subset of C21 lives in h-pure as C21p)."""


def register(PROPS, h):
    native, miri, TRUST_BASE = h["native"], h["miri"], h["TRUST_BASE"]

    PROPS["C18"] = dict(
        title="Canonical JSON has a single byte representation",
        level="exploration",
        technique=("runtime monitor: generated serde_json values through cob::store::encoding::encode and Doc::encode; "
                   "own tokenizer/checker over the emitted bytes + decode->encode byte round trip + "
                   "insertion-order metamorphic check"),
        rule=("Random JSON values (depth <= 5, <= ~40 containers) whose keys/strings are built from an alphabet of ASCII "
              "around '\"' (0x20-0x24), backslash, control characters, DEL/C1, non-NFC sequences (combining marks, Hangul "
              "jamo, singleton and excluded compositions), with object keys drawn as prefix/suffix families (\"k\", \"k \", "
              "\"k!\", \"k\\\"\", \"k\\\\\", \"k\\t\" ...) and as groups that collide after NFC; integers at the i64/u64 bounds; "
              "1 in 8 values contains floats (integral, exponent, subnormal, > u64). 3/4 go through "
              "cob::store::encoding::encode, 1/4 are embedded as an identity-document payload and go through Doc::encode. "
              "Oracle (own byte-level checker, no serde): one value, no byte outside a token; integers only; no raw byte "
              "< 0x20 in strings and lower-case \\u escapes; every string NFC after un-escaping; keys strictly ascending in "
              "the UTF-8 byte order of the un-escaped key strings; a value containing a float must be rejected; "
              "decode(out)->encode == out; the output denotes the NFC model of the input; re-inserting members in "
              "another order / HashMap gives the same bytes (the last two skipped when keys collide after NFC). "
              "Non-trivial = value with an object of >= 2 keys, or a string that needs escaping/normalisation, or a "
              "float rejection; distinct by (channel, input text)."),
        assumptions=[TRUST_BASE,
                     "unicode-normalization's is_nfc/nfc (same crate as the product) is the NFC reference",
                     "'byte order of keys' = UTF-8 bytes of the un-escaped key strings; 'control characters' = U+0000..U+001F (RFC 8259)",
                     "serde_json::from_slice is the decoder of the decode->encode clause"],
        gates=dict(
            quick={"evaluations": 300_000, "encoded-ok": 200_000, "float.rejected": 20_000,
                   "input.has-prefix-related-keys": 50_000, "input.has-key-pair-ordered-differently-when-escaped": 50_000,
                   "input.has-non-nfc-string": 100_000, "input.keys-collide-after-nfc": 5_000,
                   "input.has-control-character": 100_000, "input.has-i64-min": 10_000, "input.has-u64-max": 10_000,
                   "decode-encode.byte-identical": 200_000, "insertion-order.same-bytes": 100_000,
                   "value-preserved-modulo-nfc": 100_000, "channel:Doc::encode": 50_000},
            thorough={"evaluations": 10_000_000, "encoded-ok": 7_000_000, "float.rejected": 700_000,
                      "input.has-key-pair-ordered-differently-when-escaped": 2_000_000,
                      "input.has-non-nfc-string": 4_000_000, "decode-encode.byte-identical": 7_000_000,
                      "insertion-order.same-bytes": 3_000_000}),
        runs=dict(
            quick=[native("h-enc", "C18")],
            thorough=[native("h-enc", "C18"), native("h-enc", "C18", profile="release")],
        ),
    )

    PROPS["C19"] = dict(
        title="Identity documents are always valid and bound to the repository id",
        level="exploration",
        technique=("runtime monitor: generated JSON documents through every public acceptance path (serde Deserialize of "
                   "Doc from bytes and from Value, RawDoc::from_json+verified, Doc::from_blob on real git blobs, "
                   "Doc::load_at on real commits, Delegates/Version deserializers, Doc::with_edits), accessor-level "
                   "invariant oracle; encode->decode equality; Repository::init on real temporary storage with an own "
                   "SHA-1 git-blob-hash oracle"),
        rule=("(A) documents with 0/1/few/254/255/256/257..300 delegates, duplicates (also spelled in another multibase), "
              "thresholds 0..300 and at #distinct-1/#distinct/#distinct+1/#listed, huge/negative/float/string thresholds, "
              "versions missing/0/1/2/3/2^32+1/ill-typed, arbitrary payload JSON (floats, non-NFC, invalid type names), all "
              "visibility variants, unknown and case-variant fields, duplicate fields and damaged text. Oracle on every "
              "ACCEPTED document: 1..=255 pairwise distinct delegates, 1 <= threshold <= #delegates, version == 1, and "
              "threshold / de-duplicated delegate list equal to what the JSON said. Rejections are never judged. "
              "(B) valid documents (1..255 delegates, threshold 1..n, NFC and non-NFC payloads, visibility variants): "
              "with_edits(no-op) is the identity; Doc::encode's oid == own SHA-1('blob <len>\\0'+bytes); both decoders "
              "return a document equal to the original. (C) Repository::init on a fresh storage: rid == own blob hash of "
              "the encoding, that blob is stored with exactly those bytes, the document read back from git is equal; 40 "
              "arbitrary documents per repository are committed as embeds/radicle.json and read with Doc::load_at. "
              "Non-trivial = every generated document (all are boundary-shaped); distinct by document text."),
        assumptions=[TRUST_BASE, "sha1_smol is the SHA-1 reference", "supported versions = {1} (IDENTITY_VERSION)",
                     "ground truth for 'what the JSON said' is only used when the text has no duplicate fields"],
        gates=dict(
            quick={"evaluations": 200_000, "accepted:serde_json::from_slice::<Doc>": 10_000,
                   "accepted:RawDoc::from_json+verified": 10_000, "accepted:serde_json::from_value::<Doc>": 10_000,
                   "accepted:Doc::from_blob": 1_000, "accepted:Doc::load_at": 200, "accepted:Doc::with_edits": 5_000,
                   "accepted:serde_json::from_str::<Delegates>": 10_000,
                   "accepted.255-delegates": 1_000, "accepted.threshold-equals-delegates": 5_000,
                   "accepted.duplicates-were-dropped": 3_000,
                   "input.exactly-256-distinct-delegates": 2_000, "input.no-delegates": 2_000, "input.threshold-zero": 2_000,
                   "input.threshold-one-above-delegates": 5_000, "input.threshold-between-distinct-and-listed": 2_000,
                   "shape:version-unsupported": 5_000,
                   "valid.accepted": 50_000, "valid.255-delegates": 2_000, "encode.oid-is-blob-hash": 50_000,
                   "encode-decode.equal.nfc-document": 50_000, "valid.has-non-nfc-string": 5_000,
                   "init.ok": 40, "init.rid-is-blob-hash": 40, "init.blob-stored": 40},
            thorough={"evaluations": 5_000_000, "accepted:serde_json::from_slice::<Doc>": 300_000,
                      "accepted:Doc::from_blob": 30_000, "accepted:Doc::load_at": 5_000,
                      "input.exactly-256-distinct-delegates": 50_000, "valid.accepted": 1_400_000,
                      "encode-decode.equal.nfc-document": 1_400_000, "init.ok": 1_400, "init.rid-is-blob-hash": 1_400}),
        runs=dict(
            quick=[native("h-enc", "C19")],
            thorough=[native("h-enc", "C19")],
        ),
    )

    PROPS["C20"] = dict(
        title="Signed refs text round-trips and signatures bind exactly what is accepted",
        level="exploration",
        technique=("runtime monitor on a real storage (two repositories per worker): generated ref sets signed with "
                   "MockSigner keys; single-point mutations at struct level, at refs-blob level (exhaustive single-byte "
                   "mutations for small sets) and through real git commits (SignedRefs::load_at); oracle = own "
                   "canonical rendering + ed25519 verification of whatever was accepted"),
        rule=("Ref sets of 0, 1, 2, 3-12 and 200-400 names accepted by RefString::try_from, built from components near "
              "git's validity rules ('@', '@{'-adjacent, dots, '.lock'-adjacent, 254/255/256/1000/4096-byte components, "
              "20-60 levels, non-ASCII incl. U+0085/U+00A0/U+2028, prefix-related names), non-zero oids incl. leading / "
              "trailing zero bytes, 1 in 4 sets with refs/rad/root bound to the real repository. Per set: text round "
              "trip; honest sign+verify; 6 struct mutations out of {oid bit flip / replaced / swapped, ref renamed / "
              "removed / added, key bit flip / other key, signature bit flip / by other key / over other refs, identity "
              "root re-pointed}; 8 blob mutations out of {bit flip, byte deleted / inserted, line dropped / duplicated / "
              "reversed, zero-oid line, extra line, truncation, CRLF, upper-case hex, shortened oid, oid replaced} or, for "
              "1 in 24 sets with text <= 160 bytes, ALL single-bit flips, deletions and 7 insertions at every position; 1 "
              "in 6 sets also through git commits with mutated refs / signature blobs / other key. Oracle: "
              "from_canonical(canonical(R)) == R; whenever (refs', key', sig') is ACCEPTED, key'.verify(own canonical text "
              "of the accepted refs, sig') holds and the verified value carries exactly (refs', key', sig') - so acceptance "
              "after a change of any ref, oid or key is a violation while re-spellings of the same set are not. "
              "Non-trivial = every set whose round trip was evaluated; distinct by canonical text."),
        assumptions=[TRUST_BASE, "ed25519 verification (PublicKey::verify of the ec25519 crate) is trusted",
                     "valid reference name = accepted by git_ref_format's RefString::try_from",
                     "the repository-id binding through refs/rad/root is only counted here (C01 owns it)"],
        gates=dict(
            quick={"evaluations": 400_000, "roundtrip.ok": 15_000, "accepted:honest": 15_000,
                   "set.many-refs": 100, "set.one-ref": 1_000, "name.non-ascii": 30_000, "name.with-at": 20_000,
                   "name.component-of-254-bytes-or-more": 8_000, "name.prefix-related": 5_000,
                   "mutation:oid-bit-flipped": 4_000, "mutation:ref-renamed": 4_000, "mutation:key-bit-flipped": 4_000,
                   "mutation:signature-bit-flipped": 8_000, "mutation:signature-over-other-refs": 4_000,
                   "blob-mutation.parses-to-different-refs": 80_000, "blob-mutation.parses-to-same-refs": 15_000,
                   "exhaustive-single-byte-mutation-sets": 80, "git.accepted:honest": 1_500,
                   "git.rejected:signature-blob-mutated": 1_500, "root.present-and-bound-to-this-repository": 2_000},
            thorough={"evaluations": 13_000_000, "roundtrip.ok": 500_000, "accepted:honest": 500_000,
                      "blob-mutation.parses-to-different-refs": 2_500_000, "exhaustive-single-byte-mutation-sets": 2_500,
                      "git.accepted:honest": 50_000}),
        runs=dict(
            quick=[native("h-enc", "C20")],
            thorough=[native("h-enc", "C20"), native("h-enc", "C20", profile="release", cases=100_000)],
        ),
    )

    PROPS["C21"] = dict(
        title="Textual identifiers round-trip",
        level="exploration",
        technique=("runtime monitor: print/parse round trips of PublicKey, Did, RepoId, Signature, Alias, UserAgent through "
                   "Display/FromStr/TryFrom/serde, own base58btc (and base16/32/64) encoders as the canonical-form oracle, "
                   "every parser under catch_unwind on generated text; Miri on the PublicKey/Signature subset"),
        rule=("Values: random and special byte patterns (all zero, all 0xff, 1..N/2 leading zero bytes, real curve "
              "points), aliases of 1..32 bytes ending exactly at the 32-byte limit with 2/3/4-byte characters (and 33 "
              "bytes), user agents of 3..64 bytes ending exactly at the 64-byte limit (and 65). Oracle: print(v) == own "
              "canonical text (z+base58btc(0xed01|key), did:key:..., rad:z+base58btc(oid), z+base58btc(sig), the text "
              "itself for alias / user agent), every parse path returns v; 8 other multibase spellings (base16/32/64 "
              "variants, RepoId with and without 'rad:') must, when accepted, give v and print canonically. Arbitrary "
              "text (5/8 of the cases): mutations of valid texts (delete/insert/replace/truncate/case/multibase-prefix "
              "change/duplicate), multibase soup over all prefix characters, wrong lengths, wrong multicodec, tiny and "
              "2000-character inputs, lossy random bytes - through 17 parser entry points; a panic is a violation, and "
              "whatever is accepted must print canonically and re-parse to itself. Non-trivial = arbitrary-text case; "
              "distinct by text."),
        assumptions=[TRUST_BASE, "own base58btc encoder is the canonical-form reference",
                     "which texts are accepted is not judged; an Alias built by From<&NodeId> (48 bytes) is outside the "
                     "quantifier ('valid values') and only counted"],
        gates=dict(
            quick={"evaluations": 1_500_000, "roundtrip:PublicKey": 200_000, "roundtrip:Did": 100_000,
                   "roundtrip:RepoId": 100_000, "roundtrip:Signature": 100_000, "roundtrip:Alias:valid": 100_000,
                   "roundtrip:UserAgent:valid": 100_000, "alias.at-32-byte-limit.multibyte": 30_000,
                   "useragent.at-64-byte-limit": 20_000, "alias.33-bytes-rejected": 100_000,
                   "alt-spelling-accepted:RepoId": 1_500_000, "alt-spelling-accepted:PublicKey": 1_500_000,
                   "arbitrary-accepted:PublicKey": 2_000, "arbitrary-accepted:RepoId": 2_000,
                   "arbitrary-accepted:Alias": 50_000, "arbitrary-accepted:UserAgent": 5_000,
                   "shape:multibase-soup": 20_000, "shape:wrong-length": 20_000, "shape:long": 20_000},
            thorough={"evaluations": 30_000_000, "roundtrip:PublicKey": 6_000_000, "roundtrip:RepoId": 3_000_000,
                      "roundtrip:Alias:valid": 3_000_000, "roundtrip:UserAgent:valid": 3_000_000,
                      "shape:multibase-soup": 400_000}),
        runs=dict(
            quick=[native("h-enc", "C21")],
            thorough=[native("h-enc", "C21"), native("h-enc", "C21", profile="release"), miri("h-pure", "C21p")],
        ),
    )
