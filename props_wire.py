"""Gossip wire format group (crate h-wire): C15."""


def register(PROPS, h):
    native = h["native"]
    TRUST_BASE = h["TRUST_BASE"]

    types = ["node-announcement", "inventory-announcement", "refs-announcement", "subscribe", "info", "ping", "pong"]
    limits = ["limit:inventory=INVENTORY_LIMIT", "limit:refs=REF_REMOTE_LIMIT", "limit:addresses=ADDRESS_LIMIT",
              "limit:alias=32-bytes", "limit:agent=64-bytes", "limit:dns-name=255-bytes",
              "limit:ping-zeroes=MAX_PING_ZEROES", "limit:pong-zeroes=MAX_PONG_ZEROES"]

    def gates(scale):
        g = {"mutated-decoded": 100_000 * scale, "reencode-identical": 50_000 * scale,
             "reencode-node-announcement-without-agent=b+default-agent": 500 * scale,
             "frame-roundtrip-ok": 100_000 * scale,
             "signed-announcement-verifies-after-roundtrip": 10_000 * scale,
             "addr:ipv4": 5_000 * scale, "addr:ipv6": 5_000 * scale, "addr:dns": 5_000 * scale, "addr:onion": 5_000 * scale,
             "filter-size:1024": 1_000 * scale, "filter-size:4096": 1_000 * scale, "filter-size:16384": 1_000 * scale}
        for t in types:
            g[f"roundtrip-ok:{t}"] = 10_000 * scale
            g[f"mutated-decoded:{t}"] = 5_000 * scale
        for l in limits:
            g[l] = 500 * scale
        for op in ["bitflip", "field-byte-set", "timestamp-edit", "length-field-only", "item-duplicate", "item-drop",
                   "item-swap", "item-reorder", "item-insert-or-replace", "string-resize",
                   "zeroes-resize", "agent-drop", "filter-resize", "oid-resize", "random:skeleton+random-payload"]:
            g[f"op-decoded:{op}"] = 200 * scale
        # inputs a strict decoder rejects: gate on how often they were *tried*, not on their being accepted
        for op in ["padding-nonzero", "agent-truncate", "agent-append-partial", "random:ping-pong-random-padding",
                   "append", "truncate", "truncate-at-field", "type-tag-edit", "subtype-byte-edit"]:
            g[f"op:{op}"] = 1_000 * scale
        return g

    PROPS["C15"] = dict(
        title="Wire messages round-trip and have a unique encoding",
        level="exploration",
        technique=("runtime round-trip / re-encoding monitor on the real wire::serialize / wire::deserialize: messages built "
                   "from harness-side ground truth at the documented limits, and decodable byte strings obtained by "
                   "field-aware mutation of valid encodings (own layout walker) and structured random bytes"),
        rule=("(a) Messages of all 7 types are built through the public constructors from plain ground-truth values "
              "(random and at the limits: INVENTORY_LIMIT, REF_REMOTE_LIMIT, ADDRESS_LIMIT, 32-byte alias incl. "
              "multi-byte, 64-byte user agent, 255-byte DNS names accepted by Address::from_str, all four address "
              "kinds incl. v4-mapped IPv6, the three filter sizes incl. Filter::new, MAX_PING/PONG_ZEROES, Ping::new, "
              "timestamps 0/MAX; one third of the announcements genuinely signed with AnnouncementMessage::signed). "
              "Oracle: serialize does not panic, length <= 65535, deserialize returns a message that is == and equal "
              "field by field to the ground truth, a genuine signature verifies on the decoded message, and the "
              "canonical gossip Frame around it round-trips. "
              "(b) Valid encodings are mutated with field-aware operators (bit flips, byte/int/timestamp edits, length "
              "and count fields alone or with consistent resizing, item duplicate/drop/swap/reorder/insert, string, "
              "filter, oid and padding resizing, non-zero padding, user agent dropped/truncated/appended, sub-type and "
              "type tag edits, truncation, appended bytes, splices) plus random bytes behind a valid type tag. Oracle: "
              "whenever deserialize::<Message>(b) is Ok(m), serialize(m) == b, or m is a node announcement, b ends "
              "right after the nonce and serialize(m) == b ‖ serialize(UserAgent::default()). The differing field is "
              "named by an own layout walker. Non-trivial = an encodable message (a) / a mutated input that still "
              "decodes (b); distinct by bytes."),
        assumptions=[TRUST_BASE,
                     "constructible = public constructors within the documented limits; DNS names <= 255 bytes (the `&str` encoder asserts that bound)",
                     "a panic while decoding is left to C13; a panic while re-encoding a decoded message counts as serialize(m) != b",
                     "the frame layer is only checked for canonical frames (QUIC varints accept non-minimal forms by design, frames are not signed)"],
        gates=dict(quick=gates(1), thorough=gates(15)),
        runs=dict(
            quick=[native("h-wire", "C15")],
            thorough=[native("h-wire", "C15"), native("h-wire", "C15", profile="release")],
        ),
    )
