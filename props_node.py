def register(PROPS, h):
    native, valgrind, TB = h["native"], h["valgrind"], h["TRUST_BASE"]
    SVC_TB = [TB, "the real radicle_node::Service is driven through its public event API (connected/received_message/fetched/tick/wake/command); the harness plays all peers, the wire layer and the workers; time is logical",
              "MockStorage (radicle's own test double) holds the identity documents the harness installed"]
    PROPS["C11"] = dict(
        title="Private repositories never leak through gossip",
        level="exploration",
        technique="runtime offline checker over every Io::Write the real Service emits, against the harness's own visibility predicate, under generated interleavings",
        rule=("Per case: 3-5 remote peers, 2-4 repositories (2/3 private with random allow lists and delegate sets), relay on (4/5) or off, "
              "seeding policy allow/block; 20-44 (thorough: 20-79) steps drawn from connect/disconnect, subscribe (since 0 or recent; "
              "before and after announcements), own refs announcements (Command::AnnounceRefs), refs announcements of other nodes "
              "relayed by a connected peer, clock advance + wake (gossip relay tick), restart (initialize), visibility flips "
              "public<->private and allow-list changes, AddInventory of public repositories. After every step everything in the "
              "outbox is checked: a refs announcement about a repository that is private NOW goes only to delegates/allow-listed "
              "peers (own predicate over the installed document); no inventory announcement signed by the local node lists a private repository. "
              "Non-trivial/distinct = case seed."),
        assumptions=SVC_TB,
        gates=dict(quick={"private-refs-announcement-written": 2000, "private-refs-announcement-to-allowed-peer": 1000, "steps.private-announcement-known-and-disallowed-peer-subscribed": 2000, "subscribe-after-private-announcement": 400, "restarts": 1500, "own-inventory-announcement-written": 5000},
                   thorough={"private-refs-announcement-written": 50000, "subscribe-after-private-announcement": 10000}),
        runs=dict(quick=[native("h-node", "C11")], thorough=[native("h-node", "C11"), native("h-node", "C11", profile="release")]),
    )

    PROPS["C10"] = dict(
        title="Gossip is authenticated, fresh and never echoed back",
        level="exploration",
        technique="runtime checker over recorded inputs, every Io::Write of the real Service and the gossip store contents read after each step (shadow tables built from inputs only; own signature verification)",
        rule=("Per case 3-5 connectable peers plus 2 far announcers, 2 local public repositories + 1 absent one, relay on (9/10); "
              "25-54 (thorough: 25-94) steps: node/inventory/refs announcements by any node delivered through any connected peer with "
              "timestamps older/equal/newer than the announcer's last, 2 h old, +59 min, exactly +60 min, +60 min + 1 ms, +61 min; "
              "signatures valid, forged (other key), valid-but-for-another-message; re-deliveries of earlier announcements by the same "
              "or another peer (half of them the most recent one, so several peers deliver it before the gossip tick); subscriptions; "
              "connects/disconnects (Io::Disconnect is honoured); clock advances + wake. Oracle after every step: every foreign "
              "announcement written or newly present in the store was delivered to us byte-for-byte, verifies under the announcer's key "
              "(own check over wire::serialize(message)), was <= 1 h ahead at some receipt, is the only one of its (node, kind, repo), and "
              "replaced its predecessor only with a strictly greater timestamp; inventory/refs are stored only after a valid node "
              "announcement of that announcer was fed; nothing is written to its announcer; nothing is relayed to a peer that delivered "
              "exactly it at an earlier step (messages written while answering that peer's own Subscribe are replays, checked for "
              "everything but the echo clause). Non-trivial = case with at least one relay; distinct by case seed."),
        assumptions=SVC_TB + ["'known node announcement' is read in the weakest way: a valid, not-too-future node announcement of the announcer was fed earlier"],
        gates=dict(quick={"relays-observed": 8000, "relays-observed.of-multi-deliverer-announcement": 400, "fed.sig:forged-other-key": 1000, "fed.sig:valid-for-other-message": 500, "fed.ts:equal": 1000, "fed.ts:older": 1000,
                          "fed.ts:+60min-exactly": 1000, "fed.ts:+60min+1ms": 1000, "store-replacements-observed": 500, "stored-announcements-observed": 5000, "replays-on-subscribe-observed": 500},
                   thorough={"relays-observed": 40000, "relays-observed.of-multi-deliverer-announcement": 2000}),
        runs=dict(quick=[native("h-node", "C10")], thorough=[native("h-node", "C10"), native("h-node", "C10", profile="release")]),
    )

    PROPS["C29"] = dict(
        title="Node-signed announcement timestamps strictly increase",
        level="exploration",
        technique="runtime ordering monitor over every distinct announcement signed by the local key, collected from the outbox and the gossip store after each step, with sound creation-order bounds",
        rule=("Per case 2-4 peers, 2-4 local repositories with signed refs; 30-59 (thorough: 30-99) steps: tick with a forward, equal or "
              "backward time followed by wake, restart (initialize at the current or a later clock), connect+subscribe / disconnect, "
              "AnnounceRefs, AddInventory/Unseed/Seed, fetch commands and successful fetch results (which add inventory and announce refs). "
              "Every distinct own announcement (by message bytes) is recorded at the step it first surfaces. Oracle: an announcement whose "
              "creation cannot precede step c (refs: the step it surfaced; inventory: the last initialize) has a timestamp strictly greater "
              "than every own announcement that surfaced before c; all distinct own announcements have pairwise different timestamps; per "
              "(kind, repository) timestamps increase in observation order. The node announcement handed to Service::new is created by the "
              "environment and exempt. Non-trivial = case with >= 4 distinct own announcements; distinct by case seed."),
        assumptions=SVC_TB + ["an own announcement is stored in the gossip store (or written) in the step that creates it, except the inventory announcement built inside initialize()"],
        gates=dict(quick={"own-announcements-observed": 30000, "own-announcements-observed.after-clock-stalled-or-went-back": 10000},
                   thorough={"own-announcements-observed": 600000, "own-announcements-observed.after-clock-stalled-or-went-back": 200000}),
        runs=dict(quick=[native("h-node", "C29")], thorough=[native("h-node", "C29"), native("h-node", "C29", profile="release")]),
    )

    PROPS["C16"] = dict(
        title="At most one fetch per repository, attributed to the right peer",
        level="exploration",
        technique="runtime monitor over systematically enumerated and random event schedules fed to the real Service; the harness plays wire + workers (transcription of Wire::worker_result's forwarding rule) with connection epochs and per-task result markers",
        rule=("Systematic part: EVERY sequence of length 5 (thorough: 6) over a reduced alphabet (2 peers x {connect, disconnect, fetch command, "
              "refs announcement} + deliver-result(oldest ok / 2nd err)) starting with a connect or a fetch command, each on a fresh real "
              "Service (events that are not enabled are skipped). Random part: schedules of 10-30 events over 2-3 peers, 1-2 repositories, "
              "fetch_concurrency 1-2, alphabet {connect in/out, disconnect, fetch command, refs announcement, inventory announcement, "
              "deliver result (ok/err/timeout, any pending task), wake}. Every Io::Fetch becomes a task tagged with its peer's connection "
              "epoch; results are delivered at any later step and forwarded iff a connection to the peer exists then; Io::Disconnect is "
              "honoured. After every event: <= 1 unanswered current-epoch task per repository; <= fetch_concurrency per peer; queue <= 128; "
              "every live task still has its fetch-state entry attributed to its peer; results seen on a command's channel carry the marker "
              "of a task of that repository and peer from the command's connection epoch or later; no panic. Non-trivial = schedule that "
              "started at least one fetch; distinct by event-log hash."),
        assumptions=SVC_TB + ["the environment only produces event orders the real Wire produces: one session per peer at a time, attempted before outbound connected, Io::Fetch for an unconnected peer dropped, worker results in any order and at any later time",
                              "Wire::worker_result's rule (forward iff a connection to that NodeId exists) is transcribed, not executed"],
        gates=dict(quick={"schedules.result-delivered-after-disconnect-and-reconnect": 1000, "schedules.with-two-or-more-fetch-tasks": 8000, "subscriber-results-observed": 30000, "systematic.schedules": 20000},
                   thorough={"schedules.result-delivered-after-disconnect-and-reconnect": 10000, "systematic.schedules": 100000}),
        exhaustive=dict(quick="all event sequences of length 5 over the reduced 2-peer/1-repository alphabet (12 symbols)", thorough="all event sequences of length 6 over the reduced alphabet"),
        runs=dict(quick=[native("h-node", "C16")], thorough=[native("h-node", "C16"), native("h-node", "C16", profile="release")]),
    )

    PROPS["C14"] = dict(
        title="Frame decoding is memory-bounded and chunking-independent",
        level="exploration",
        technique="runtime allocation accounting (counting #[global_allocator], refusing allocator in a child process) around the real frame Deserializer; round-trip oracle over all split points; error-vs-incomplete oracle on complete frames with damaged payloads",
        rule=("(a) headers for gossip/git streams with declared payload lengths {0,1,63,64,16383,16384,65535,3e5,2^20-1,2^20,2^30-1,2^30,2^40,2^62-1} "
              "in every legal varint width (also non-minimal), followed by 0..40 payload bytes, plus random lengths: largest single "
              "allocation request and peak live bytes during deserialize_next must be <= 256 KiB + 4 x bytes received (lengths >= 1 MiB "
              "run in a child process whose allocator refuses > 64 MiB; a refusal/abort is the observation). (b) sequences of 1-4 "
              "control/git/gossip frames (real messages) encoded and fed split at EVERY single split point (<= 600 bytes) or at random "
              "multi-splits and byte-by-byte: decoded frames == sent frames, nothing left over, no error. (c) complete gossip frames whose "
              "payload is a truncation of a valid message at every length (sampled for long messages), followed by a valid frame: the "
              "result must not be Ok(None). Non-trivial = memory case with declared > supplied, or any chunking case; distinct by bytes."),
        assumptions=[TB, "hook: radicle_node::wire::verif re-exports the private Frame/StreamId/Control types (feature `verif`)", "the bound constants (256 KiB, factor 4) cover the 64 KiB initial buffer and Vec growth"],
        gates=dict(quick={"memory.cases-with-declared-length-larger-than-supplied": 2000, "memory.child-process-cases": 100, "chunking.split-variants": 50000, "invalid-inner.complete-frame-with-truncated-message": 5000, "invalid-inner.reported-as-error": 3000},
                   thorough={"chunking.split-variants": 1500000, "invalid-inner.complete-frame-with-truncated-message": 100000}),
        runs=dict(quick=[native("h-node", "C14")], thorough=[native("h-node", "C14"), native("h-node", "C14", profile="release")]),
    )

    PROPS["C13"] = dict(
        title="No input from a remote peer can crash the node",
        level="exploration",
        technique="runtime crash monitor: catch_unwind around every peer-driven call into the real Service / frame Deserializer / pkt-line parser; bytes-level workload in child processes so that aborts are observed as the child's death; ASan build of the same workload in the thorough tier",
        rule=("(i) 20-59 step schedules against a real Service with 4 peers: every message variant with boundary values (timestamps 0, 1, MAX, "
              "now+1h, now+1h+1, old; subscribe ranges incl. since>until and MAX/MAX; inventories of 0/1/3/2973 ids, 0/1/2/1024 refs; ping/pong "
              "sizes at and above the limits; announcements by the relayer, by others, by the local node's own key; valid and foreign "
              "signatures) delivered in every session state (unknown, initial, attempted, connected inbound/outbound) mixed with "
              "connects, dials, disconnects and clock advances; Io::Disconnect honoured. (ii) 1-3 frames per case: valid gossip frames "
              "from the same generator, mutated (bit flips, truncation, boundary bytes, appended bytes), random bytes, and headers with "
              "boundary varint lengths up to 2^62-1, fed in random chunks of 1-64 bytes to Deserializer<_, Frame>; every decoded gossip "
              "message is handed to a live Service. Runs in child processes of 2000 cases; a child that dies is bisected to the case. "
              "(iii) git request lines with length fields 0000..0004, 0400, 0401, ffff, non-hex, random and correct, over valid, mutated, "
              "over-long and random bodies, into the real pkt-line parser. (iv) the wire's per-connection stream table (hook StreamsProbe): "
              "20-79 step interleavings of remote `open`s with identifiers of the remote's choosing (the next / upcoming identifiers of our "
              "own space, identifiers of its own space, control/gossip ids, random 62-bit values, already open ids), local stream opens "
              "and closes; a local open must not panic and must return a fresh git identifier of our own space. "
              "Oracle: no panic, no process death. Non-trivial/distinct = "
              "service schedule seed, header bytes."),
        assumptions=SVC_TB + ["hooks: wire::verif (Frame, StreamsProbe) and worker::verif::git_request (feature `verif`)",
                              "(iv) drives the stream table, not the reactor-driven `Wire` around it: the `open` handler's call into the table (`Streams::accept`) is what is exercised"],
        gates=dict(quick={"bytes.cases": 150000, "bytes.cases-decoding-at-least-one-frame": 60000, "header.cases": 150000, "header.accepted": 4000, "header.rejected": 40000,
                          "service.message:subscribe@connected-inbound": 1500, "service.message:announcement@connected-inbound": 5000, "service.message:announcement@unknown": 1500, "service.message:announcement@attempted": 150, "service.message:ping@connected-outbound": 200,
                          "streams.cases": 30000, "streams.local-opens": 200000, "streams.remote-open:next-id-of-our-own-space": 100000},
                   thorough={"bytes.cases": 1200000, "header.cases": 1200000}),
        runs=dict(quick=[native("h-node", "C13")],
                  thorough=[native("h-node", "C13"), dict(crate="h-node", prop="C13", wrapper="asan", cases=40000, shards=16, label="h-node:C13:asan", timeout=3600)]),
    )

    PROPS["C12"] = dict(
        title="Repository data is served only to peers allowed to see it",
        level="exploration",
        technique="runtime end-to-end monitor: real in-process nodes (runtime, wire, workers, git upload-pack) serving generated repository/policy/visibility configurations; oracle is the harness's own seeded-and-visible predicate over what it installed",
        rule=("Per case one serving node (default seeding policy block, 1/4 permissive) with 4-6 repositories: public or private with a "
              "random allow list over the requesters; explicit seed policy allow / explicit block / none; 2-3 requester nodes (allow-listed "
              "or strangers) connected over real loopback connections. Every requester seeds and fetches every repository in random order "
              "through Handle::fetch (real worker, real `git upload-pack`); the server's policy is flipped (seed/unseed) at run time before "
              "1/8 of the requests. Oracle: a request that succeeded, or after which the requester's storage newly contains the "
              "repository, must be for a repository that is seeded on the server (explicit allow, or none + permissive default) AND "
              "visible to the requester (public or allow-listed). One-directional: refusing an authorized request is not a violation. "
              "Non-trivial/distinct = case seed."),
        assumptions=[TB, "radicle_node::test::environment (heartwood's own e2e scaffolding) spawns the real Runtime per node", "the `git` executable", "loopback networking in the sandbox"],
        gates=dict(quick={"unauthorized-refused": 200, "authorized-served": 30, "refused.private-not-allowed": 100, "refused.not-seeded": 60},
                   thorough={"unauthorized-refused": 1000, "authorized-served": 150}),
        runs=dict(quick=[native("h-node", "C12")], thorough=[native("h-node", "C12")]),
    )
