def register(PROPS, h):
    native, valgrind, TB = h["native"], h["valgrind"], h["TRUST_BASE"]
    SVC_TB = [TB, "the real radicle_node::Service is driven through its public event API (connected/received_message/fetched/tick/wake/command); the harness plays all peers, the wire layer and the workers; time is logical",
              "MockStorage (radicle's own test double) holds the identity documents the harness installed"]
    PROPS["C11"] = dict(
        title="Private repositories never leak through gossip",
        level="exploration",
        technique="runtime offline checker over every Io::Write the real Service emits, against the harness's own visibility predicate, under generated interleavings",
        rule=("Per case: 3-5 remote peers, 2-4 repositories (2/3 private with random allow lists and delegate sets), relay on (4/5) or off, "
              "seeding policy allow/block; 20-44 (thorough: 20-79) steps drawn from connect/disconnect, subscribe (since 0 or recent; "
              "before and after announcements), own refs announcements (Command::AnnounceRefs), refs announcements of other nodes "
              "relayed by a connected peer, clock advance + wake (gossip relay tick), restart (initialize), visibility flips "
              "public<->private and allow-list changes, AddInventory of public repositories. After every step everything in the "
              "outbox is checked: a refs announcement about a repository that is private NOW goes only to delegates/allow-listed "
              "peers (own predicate over the installed document); no inventory announcement signed by the local node lists a private repository. "
              "Non-trivial/distinct = case seed."),
        assumptions=SVC_TB,
        gates=dict(quick={"private-refs-announcement-written": 2000, "private-refs-announcement-to-allowed-peer": 1000, "steps.private-announcement-known-and-disallowed-peer-subscribed": 2000, "subscribe-after-private-announcement": 400, "restarts": 1500, "own-inventory-announcement-written": 5000},
                   thorough={"private-refs-announcement-written": 50000, "subscribe-after-private-announcement": 10000}),
        runs=dict(quick=[native("h-node", "C11")], thorough=[native("h-node", "C11"), native("h-node", "C11", profile="release")]),
    )
