//! C13 — No input from a remote peer can crash the node.
//!
//! (i) service level: every message variant with boundary values, in every session state, in random
//! orders, each call under catch_unwind; (ii) bytes level: random / mutated-valid / boundary frame
//! bytes, chunked arbitrarily, into the real frame Deserializer, every decoded gossip frame handed
//! to a live Service — run in child processes so that an abort (failed allocation, stack overflow)
//! is observed as the child's death; (iii) git request headers into the real pkt-line parser.
use std::io::Read;

use radicle::identity::doc::Visibility;
use radicle::identity::Did;
use radicle::test::storage::MockStorage;
use radicle_node::deserializer::Deserializer;
use radicle_node::prelude::{BoundedVec, LocalDuration, Message, Timestamp};
use radicle_node::service::filter::Filter;
use radicle_node::service::message::{Info, Ping, Subscribe, ZeroBytes};
use radicle_node::service::policy::{Scope, SeedingPolicy};
use radicle_node::service::{Command, DisconnectReason, ServiceState};
use radicle_node::wire::verif::{Frame, FrameData};
use radicle_node::worker::verif::git_request;
use radicle_node::Link;
use vcommon::{guarded, hex, json, unhex, Args, Reporter, Rng, Value};

use crate::svc::{self, Node, Remote};

const INBOX: usize = 1024 * 1024 * 2;

fn boundary_ts(rng: &mut Rng, now: u64) -> (u64, &'static str) {
    match rng.below(9) {
        0 => (0, "ts=0"),
        1 => (1, "ts=1"),
        2 => (*Timestamp::MAX, "ts=MAX"),
        3 => (now + 3_600_000, "ts=now+1h"),
        4 => (now + 3_600_001, "ts=now+1h+1"),
        5 => (now.saturating_sub(10_000_000), "ts=old"),
        _ => (now + rng.below(1000), "ts=now"),
    }
}

fn gen_message(rng: &mut Rng, remotes: &[Remote], local: &svc::Dev, rids: &[radicle::identity::RepoId], now: u64) -> (Message, String) {
    match rng.below(12) {
        0 | 1 => {
            let (a, b) = match rng.below(6) {
                0 => (*Timestamp::MAX, 0),
                1 => (now, now.saturating_sub(1)),
                2 => (0, 0),
                3 => (0, *Timestamp::MAX),
                4 => (*Timestamp::MAX, *Timestamp::MAX),
                _ => (now.saturating_sub(1000), *Timestamp::MAX),
            };
            let filter = if rng.bool() { Filter::default() } else { Filter::new(rids.iter().cloned()) };
            (Message::Subscribe(Subscribe { filter, since: svc::tsv(a), until: svc::tsv(b) }), format!("subscribe since={a} until={b}"))
        }
        2..=7 => {
            let (ts, tc) = boundary_ts(rng, now);
            // announcer: a remote, the relayer itself, or the local node (we own its key too)
            let who = rng.below(remotes.len() as u64 + 1) as usize;
            let dev_owner: Option<&Remote> = remotes.get(who);
            let kind = rng.below(3);
            let ann = match (kind, dev_owner) {
                (0, Some(r)) => r.node_announcement(ts),
                (1, Some(r)) => {
                    let n = *rng.pick(&[0usize, 1, 3, 2973]);
                    let inv: Vec<_> = (0..n).map(|i| if i < rids.len() { rids[i] } else { svc::mk_doc(&format!("x{i}"), &[Did::from(r.nid)], Visibility::Public).0 }).collect();
                    let inv = if n > 10 { let base = inv[0]; vec![base; n] } else { inv };
                    r.inventory_announcement(ts, &inv)
                }
                (_, Some(r)) => {
                    let n = *rng.pick(&[0usize, 1, 2, 1024]);
                    let refs: Vec<_> = (0..n).map(|i| radicle::storage::refs::RefsAt { remote: remotes[i % remotes.len()].nid, at: svc::oid(rng) }).collect();
                    r.refs_announcement(ts, *rng.pick(rids), refs)
                }
                (_, None) => {
                    // signed by the local node's own key
                    let m: radicle_node::service::message::AnnouncementMessage = radicle_node::service::message::InventoryAnnouncement { inventory: BoundedVec::new(), timestamp: svc::tsv(ts) }.into();
                    m.signed(local)
                }
            };
            let mut ann = ann;
            let sig = if rng.chance(1, 8) {
                ann.signature = remotes[0].node_announcement(5).signature;
                "bad-signature"
            } else {
                "valid-signature"
            };
            (ann.into(), format!("announcement kind={kind} announcer={who} {tc} {sig}"))
        }
        8 => (Message::Info(Info::RefsAlreadySynced { rid: *rng.pick(rids), at: svc::oid(rng) }), "info".into()),
        9 | 10 => {
            let ponglen = *rng.pick(&[0u16, 1, Ping::MAX_PONG_ZEROES, Ping::MAX_PONG_ZEROES.saturating_add(1), u16::MAX]);
            let zeroes = *rng.pick(&[0u16, 1, 100, Ping::MAX_PING_ZEROES]);
            (Message::Ping(Ping { ponglen, zeroes: ZeroBytes::new(zeroes) }), format!("ping ponglen={ponglen} zeroes={zeroes}"))
        }
        _ => {
            let z = *rng.pick(&[0u16, 1, 64, Ping::MAX_PONG_ZEROES]);
            (Message::Pong { zeroes: ZeroBytes::new(z) }, format!("pong zeroes={z}"))
        }
    }
}

fn mk(seed: u64, persistent: Option<&Remote>) -> (Node, Vec<radicle::identity::RepoId>) {
    let local = svc::device(20, 0);
    let mut inv = vec![];
    let mut rids = vec![];
    for i in 0..2 {
        let (rid, doc) = svc::mk_doc(&format!("c13-{i}"), &[Did::from(*local.public_key())], if i == 0 { Visibility::Public } else { Visibility::private([]) });
        inv.push((rid, doc));
        rids.push(rid);
    }
    rids.push(svc::mk_doc("c13-absent", &[Did::from(*local.public_key())], Visibility::Public).0);
    let storage = MockStorage::new(inv);
    let opts = svc::NodeOpts { relay: true, policy: SeedingPolicy::Allow { scope: Scope::All }, seed, fetch_concurrency: 1 };
    let _ = persistent;
    (svc::mk_node(storage, &opts), rids)
}

/// (i) service-level schedule.
fn service_case(rep: &mut Reporter, seed: u64) {
    let mut rng = Rng::new(seed);
    let remotes: Vec<Remote> = (0..4u8).map(Remote::new).collect();
    let local = svc::device(20, 0);
    let Ok((mut node, rids)) = guarded(|| mk(seed, None)) else {
        rep.inconclusive("node construction panicked", json!({}));
        return;
    };
    let mut log: Vec<Value> = vec![];
    // The session state is read from the service itself, so that the environment only makes calls
    // the real wire layer can make in that state.
    use radicle_node::service::session::State;
    let sess_state = |node: &Node, p: usize| -> (&'static str, Link) {
        match node.service.sessions().get(&remotes[p].nid) {
            None => ("unknown", Link::Inbound),
            Some(s) => (
                match s.state {
                    State::Initial => "initial",
                    State::Attempted => "attempted",
                    State::Connected { .. } => if s.link == Link::Inbound { "connected-inbound" } else { "connected-outbound" },
                    State::Disconnected { .. } => "disconnected",
                },
                s.link,
            ),
        }
    };
    let nsteps = 20 + rng.usize(40);
    for step in 0..nsteps {
        let p = rng.usize(4);
        let now = node.service.clock().as_millis() as u64;
        let choice = rng.below(100);
        let (st, link) = sess_state(&node, p);
        let mut desc = String::new();
        let r = guarded(|| match choice {
            0..=13 => match st {
                "unknown" => {
                    if rng.bool() {
                        node.service.connected(remotes[p].nid, remotes[p].addr.clone(), Link::Inbound);
                        desc = format!("connected inbound {p}");
                    } else {
                        node.service.command(Command::Connect(remotes[p].nid, remotes[p].addr.clone(), radicle::node::ConnectOptions::default()));
                        desc = format!("command connect {p}");
                    }
                }
                "initial" => {
                    node.service.attempted(remotes[p].nid, remotes[p].addr.clone());
                    desc = format!("attempted {p}");
                }
                "attempted" => {
                    if rng.chance(3, 4) {
                        node.service.connected(remotes[p].nid, remotes[p].addr.clone(), Link::Outbound);
                        desc = format!("connected outbound {p}");
                    } else {
                        node.service.disconnected(remotes[p].nid, Link::Outbound, &DisconnectReason::Dial(std::sync::Arc::new(std::io::Error::from(std::io::ErrorKind::ConnectionRefused))));
                        desc = format!("dial failed {p}");
                    }
                }
                "connected-inbound" | "connected-outbound" => {
                    if rng.chance(1, 2) {
                        node.service.disconnected(remotes[p].nid, link, &DisconnectReason::Command);
                        desc = format!("disconnected {p}");
                    }
                }
                _ => {}
            },
            14..=19 => {
                svc::elapse(&mut node, LocalDuration::from_secs(1 + rng.below(100)));
                desc = "elapse+wake".into();
            }
            _ => {
                let (m, d) = gen_message(&mut rng, &remotes, &local, &rids, now);
                desc = format!("message from {p} (session-state {st}): {d}");
                node.service.received_message(remotes[p].nid, m);
            }
        });
        rep.eval();
        log.push(json!({"step": step, "event": desc}));
        if let Err(pm) = r {
            let what = desc.split(": ").nth(1).unwrap_or(&desc).split(' ').next().unwrap_or("?").to_string();
            let detail = if desc.contains("ts=0") { "/timestamp-zero" } else if desc.contains("subscribe") { "/subscribe" } else { "" };
            rep.violation(&format!("C13/panic/service/{}/{what}{detail}", vcommon::panic_site(&pm)), json!({"panic": pm, "log": log}));
            return;
        }
        if choice >= 20 {
            let kind = desc.split(": ").nth(1).unwrap_or("").split(' ').next().unwrap_or("?").to_string();
            rep.count(&format!("service.message:{kind}@{st}"));
        }
        // honour disconnect requests
        for io in svc::drain(&mut node) {
            if let radicle_node::service::io::Io::Disconnect(nid, _) = io {
                if let Some(q) = remotes.iter().position(|r| r.nid == nid) {
                    let (qs, ql) = sess_state(&node, q);
                    if qs.starts_with("connected") {
                        if let Err(pm) = guarded(|| node.service.disconnected(nid, ql, &DisconnectReason::Command)) {
                            rep.violation(&format!("C13/panic/service/{}/disconnected", vcommon::panic_site(&pm)), json!({"panic": pm, "log": log}));
                            return;
                        }
                    }
                }
            }
        }
    }
    rep.nontrivial(seed);
    if rep.wants_sample() {
        rep.sample(json!({"service_schedule": log.iter().take(15).collect::<Vec<_>>()}));
    }
}

fn gen_frame_bytes(rng: &mut Rng, remotes: &[Remote], local: &svc::Dev, rids: &[radicle::identity::RepoId]) -> Vec<u8> {
    let valid = |rng: &mut Rng| -> Vec<u8> {
        let link = if rng.bool() { Link::Inbound } else { Link::Outbound };
        let (m, _) = gen_message(rng, remotes, local, rids, svc::T0);
        match guarded(|| Frame::gossip(link, m).to_bytes()) {
            Ok(b) => b,
            Err(_) => vec![b'r', b'a', b'd', 1, 2, 0],
        }
    };
    match rng.below(10) {
        0 => { let n = rng.usize(64); rng.bytes(n) }
        1 => {
            // header + boundary varint length + few bytes
            let mut v = vec![b'r', b'a', b'd', 1, *rng.pick(&[0u8, 1, 2, 3, 4, 5, 6, 7, 0x40, 0xff])];
            let l = *rng.pick(&[0u64, 1, 63, 64, 16383, 16384, (1 << 30) - 1, 1 << 30, 1 << 40, (1 << 62) - 1]);
            v.extend(((0b11u64 << 62) | l).to_be_bytes());
            let n = rng.usize(20);
            v.extend(rng.bytes(n));
            v
        }
        2..=5 => {
            // mutated valid
            let mut v = valid(rng);
            for _ in 0..1 + rng.usize(3) {
                if v.is_empty() { break; }
                match rng.below(4) {
                    0 => { let i = rng.usize(v.len()); v[i] ^= 1 << rng.below(8); }
                    1 => { let i = rng.usize(v.len()); v.truncate(i); }
                    2 => { let i = rng.usize(v.len()); v[i] = *rng.pick(&[0u8, 0xff, 0x7f, 0x80]); }
                    _ => { let n = rng.usize(8); v.extend(rng.bytes(n)); }
                }
            }
            v
        }
        _ => valid(rng),
    }
}

/// (ii) one bytes-level case, executed inside a child process.
fn bytes_case(node: &mut Node, remotes: &[Remote], rids: &[radicle::identity::RepoId], seed: u64) -> (Vec<u8>, usize, Option<String>) {
    let mut rng = Rng::new(seed);
    let local = svc::device(20, 0);
    let mut bytes = vec![];
    for _ in 0..1 + rng.usize(3) {
        bytes.extend(gen_frame_bytes(&mut rng, remotes, &local, rids));
    }
    let p = rng.usize(remotes.len());
    let mut decoded = 0;
    let r = guarded(|| {
        let mut d = Deserializer::<INBOX, Frame>::new(65536);
        let mut i = 0;
        while i < bytes.len() {
            let n = 1 + rng.usize(64);
            let j = (i + n).min(bytes.len());
            if d.input(&bytes[i..j]).is_err() {
                break;
            }
            i = j;
            loop {
                match d.deserialize_next() {
                    Ok(Some(f)) => {
                        decoded += 1;
                        if let FrameData::Gossip(m) = f.data {
                            node.service.received_message(remotes[p].nid, m);
                            while node.service.next().is_some() {}
                        }
                    }
                    Ok(None) => break,
                    Err(_) => return, // peer would be disconnected
                }
            }
        }
    });
    (bytes, decoded, r.err())
}

fn child_bytes(args: &Args) {
    // args.rest = [first_index, count, seed]
    let first: u64 = args.rest[0].parse().unwrap();
    let count: u64 = args.rest[1].parse().unwrap();
    let remotes: Vec<Remote> = (0..3u8).map(Remote::new).collect();
    let (mut node, rids) = mk(args.seed, None);
    for r in &remotes {
        node.service.connected(r.nid, r.addr.clone(), Link::Inbound);
        node.service.received_message(r.nid, r.node_announcement(svc::T0).into());
    }
    svc::drain(&mut node);
    let mut decoded_cases = 0u64;
    let mut frames = 0u64;
    for k in first..first + count {
        let (bytes, decoded, panic) = bytes_case(&mut node, &remotes, &rids, vcommon::mix(args.seed, "C13-bytes", k));
        if decoded > 0 {
            decoded_cases += 1;
        }
        frames += decoded as u64;
        if let Some(p) = panic {
            println!("{}", json!({"t": "panic", "index": k, "bytes_hex": hex(&bytes), "panic": p}));
            // the service may be in an inconsistent state now: start over
            let (n2, _) = mk(args.seed, None);
            node = n2;
            for r in &remotes {
                node.service.connected(r.nid, r.addr.clone(), Link::Inbound);
            }
            svc::drain(&mut node);
        }
    }
    println!("{}", json!({"t": "done", "cases": count, "decoded_cases": decoded_cases, "frames": frames}));
}

fn run_child(args: &Args, first: u64, count: u64) -> std::io::Result<std::process::Output> {
    std::process::Command::new(std::env::current_exe()?)
        .args(["C13", "--mode", "child-bytes", "--seed", &args.seed.to_string(), &first.to_string(), &count.to_string()])
        .output()
}

fn bytes_level(rep: &mut Reporter, args: &Args, total: u64) {
    let batch = 2_000u64;
    let mut first = args.shard * 1_000_000_000;
    let end = first + total;
    while first < end {
        let count = batch.min(end - first);
        match run_child(args, first, count) {
            Err(e) => {
                rep.inconclusive("could not spawn child", json!({"e": e.to_string()}));
                return;
            }
            Ok(o) => {
                let out = String::from_utf8_lossy(&o.stdout).to_string();
                let mut done = false;
                for line in out.split('\n') {
                    let Ok(v) = serde_json::from_str::<Value>(line) else { continue };
                    if v["t"] == "panic" {
                        let p = v["panic"].as_str().unwrap_or("");
                        rep.violation(&format!("C13/panic/bytes/{}", vcommon::panic_site(p)), json!({"bytes_hex": v["bytes_hex"], "panic": p, "index": v["index"]}));
                    } else if v["t"] == "done" {
                        done = true;
                        rep.evals(v["cases"].as_u64().unwrap_or(0));
                        rep.add("bytes.cases", v["cases"].as_u64().unwrap_or(0));
                        rep.add("bytes.cases-decoding-at-least-one-frame", v["decoded_cases"].as_u64().unwrap_or(0));
                        rep.add("bytes.frames-decoded", v["frames"].as_u64().unwrap_or(0));
                    }
                }
                if !done {
                    // the child died: find the culprit case by running the batch one case per process
                    rep.count("bytes.child-died-batches");
                    let mut found = false;
                    for k in first..first + count {
                        if let Ok(o1) = run_child(args, k, 1) {
                            if !String::from_utf8_lossy(&o1.stdout).contains("\"done\"") {
                                let err = String::from_utf8_lossy(&o1.stderr).chars().take(300).collect::<String>();
                                rep.violation("C13/process-died/bytes", json!({"index": k, "status": format!("{:?}", o1.status), "stderr": err, "replay_hint": "h-node C13 --mode child-bytes --seed <seed> <index> 1"}));
                                found = true;
                                break;
                            }
                        }
                    }
                    if !found {
                        rep.inconclusive("child died but no single case reproduces it", json!({"first": first, "status": format!("{:?}", o.status)}));
                    }
                }
            }
        }
        first += count;
    }
}

/// (iii) git request headers.
fn header_case(rep: &mut Reporter, seed: u64) {
    let mut rng = Rng::new(seed);
    let rid = "rad:z3gqcJUoA1n9HaHKufZs5FCSGazv5";
    let valid = format!("git-upload-pack /{rid}\0host=seed.example:8776\0\0version=2\0");
    let body: Vec<u8> = match rng.below(6) {
        0 => valid.clone().into_bytes(),
        1 => { let n = rng.usize(60); rng.bytes(n) }
        2 => format!("git-upload-pack /{}\0host=h:{}\0", rid, rng.below(100000)).into_bytes(),
        3 => { let mut v = valid.clone().into_bytes(); let i = rng.usize(v.len()); v[i] = rng.u8(); v }
        4 => { let mut v = valid.clone().into_bytes(); let n = 1 + rng.usize(1100); v.extend(std::iter::repeat(b'a').take(n)); v }
        _ => format!("git-upload-pack {}", ["", "/", "/rad:", "/rad:z", "rad:z3gqcJUoA1n9HaHKufZs5FCSGazv5", "/z3gqcJUoA1n9HaHKufZs5FCSGazv5.git"][rng.usize(6)]).into_bytes(),
    };
    let len_field: String = match rng.below(10) {
        0 => "0000".into(),
        1 => "0001".into(),
        2 => "0003".into(),
        3 => "0004".into(),
        4 => "0400".into(),
        5 => "0401".into(),
        6 => "ffff".into(),
        7 => (*rng.pick(&["+fff", "zzzz", "-001", "00 4", "\u{0}\u{0}\u{0}\u{0}", "0x10"])).into(),
        8 => format!("{:04x}", rng.below(70000) & 0xffff),
        _ => format!("{:04x}", body.len() + 4),
    };
    let mut all = len_field.clone().into_bytes();
    all.extend(&body);
    if rng.chance(1, 6) {
        all.truncate(rng.usize(all.len() + 1));
    }
    rep.eval();
    rep.count("header.cases");
    let a2 = all.clone();
    let r = guarded(move || {
        let mut rd: &[u8] = &a2;
        let res = git_request(&mut rd);
        let mut rest = vec![];
        let _ = rd.read_to_end(&mut rest);
        res.map(|h| h.repo.to_string()).map_err(|e| e.to_string())
    });
    match r {
        Err(p) => {
            let cls = match usize::from_str_radix(&len_field, 16) {
                Ok(n) if n < 4 => "declared-length-below-4",
                Ok(n) if n > 1024 => "declared-length-above-1024",
                _ => "other",
            };
            rep.violation(&format!("C13/panic/git-request-header/{cls}"), json!({"bytes_hex": hex(&all), "length_field": len_field, "panic": p}));
        }
        Ok(Ok(repo)) => {
            rep.count("header.accepted");
            if repo != rid {
                rep.count("header.accepted-other-rid");
            }
            rep.nontrivial(vcommon::fnv(&all));
        }
        Ok(Err(_)) => {
            rep.count("header.rejected");
            rep.nontrivial(vcommon::fnv(&all));
        }
    }
}


/// (iv) the per-connection stream table of the wire (hook `StreamsProbe`): the remote peer opens streams
/// with identifiers of its choosing (`open` control frames), the local side opens streams for its own
/// fetches and streams get closed, in random interleavings. Nothing the remote chooses may make a local
/// `open` panic, and a locally opened stream gets a fresh identifier from our own identifier space.
fn streams_case(rep: &mut Reporter, seed: u64) {
    use radicle_node::wire::verif::{StreamId, StreamKind, StreamsProbe, VarInt};
    use radicle_node::wire::{Decode as _, Encode as _};
    let mut rng = Rng::new(seed);
    let link = if rng.bool() { Link::Inbound } else { Link::Outbound };
    let other = if link == Link::Inbound { Link::Outbound } else { Link::Inbound };
    let raw = |v: u64| -> Option<StreamId> {
        let vi = VarInt::new(v).ok()?;
        let mut b = vec![];
        vi.encode(&mut b).ok()?;
        StreamId::decode(&mut &b[..]).ok()
    };
    let mut probe = StreamsProbe::new(link);
    let mut open: std::collections::BTreeSet<u64> = Default::default();
    let mut local_opens = 0u64; // = the table's sequence number
    let mut log: Vec<String> = vec![];
    let mut hostile_pending = false;
    rep.eval();
    for _ in 0..(20 + rng.usize(60)) {
        match rng.below(10) {
            0..=4 => {
                // remote `open`
                let (sid, what) = match rng.below(8) {
                    0 | 1 => (StreamId::git(link).nth(local_opens + 1).ok(), "next-id-of-our-own-space"),
                    2 => (StreamId::git(link).nth(local_opens + 1 + rng.below(4)).ok(), "upcoming-id-of-our-own-space"),
                    3 => (StreamId::git(other).nth(rng.below(8)).ok(), "id-of-the-remote-space"),
                    4 => (Some(if rng.bool() { StreamId::control(link) } else { StreamId::gossip(other) }), "control-or-gossip-id"),
                    5 => (raw(rng.u64() >> 2), "random-62-bit"),
                    6 => (open.iter().next().and_then(|v| raw(*v)), "already-open-id"),
                    _ => (raw(rng.below(64)), "small"),
                };
                let Some(sid) = sid else { continue };
                let v: u64 = sid.into();
                let r = guarded(|| probe.remote_open(sid));
                match r {
                    Ok(accepted) => {
                        log.push(format!("remote_open({v}: {what}) -> {accepted}"));
                        rep.count(&format!("streams.remote-open:{what}"));
                        if accepted {
                            if !open.insert(v) {
                                rep.violation("C13/wire-streams/remote-open-accepted-for-an-open-stream", json!({"case_seed": seed, "link": format!("{link:?}"), "log": log}));
                                return;
                            }
                            if sid.link() == link && sid.kind() == Ok(StreamKind::Git) {
                                hostile_pending = true;
                            }
                        }
                    }
                    Err(p) => {
                        rep.violation(&format!("C13/panic/wire-streams/remote-open/{}", vcommon::panic_site(&p)), json!({"case_seed": seed, "link": format!("{link:?}"), "panic": p, "log": log}));
                        return;
                    }
                }
            }
            5..=7 => {
                let r = guarded(|| probe.local_open());
                local_opens += 1;
                rep.count("streams.local-opens");
                if hostile_pending {
                    rep.count("streams.local-opens-while-remote-holds-an-id-of-our-space");
                }
                match r {
                    Ok(sid) => {
                        let v: u64 = sid.into();
                        log.push(format!("local_open() -> {v}"));
                        if sid.link() != link || sid.kind() != Ok(StreamKind::Git) || !open.insert(v) {
                            rep.violation("C13/wire-streams/local-open-returned-foreign-or-open-id", json!({"case_seed": seed, "link": format!("{link:?}"), "log": log}));
                            return;
                        }
                    }
                    Err(p) => {
                        log.push("local_open() -> PANIC".into());
                        rep.violation(&format!("C13/panic/wire-streams/local-open/{}", vcommon::panic_site(&p)), json!({"case_seed": seed, "link": format!("{link:?}"), "panic": p, "log": log}));
                        return;
                    }
                }
            }
            _ => {
                if let Some(v) = open.iter().nth(rng.usize(open.len().max(1))).copied() {
                    if let Some(sid) = raw(v) {
                        let closed = guarded(|| probe.close(&sid)).unwrap_or(false);
                        log.push(format!("close({v}) -> {closed}"));
                        open.remove(&v);
                        if !closed {
                            rep.violation("C13/wire-streams/open-stream-not-in-table", json!({"case_seed": seed, "log": log}));
                            return;
                        }
                    }
                }
            }
        }
    }
    rep.count("streams.cases");
}

pub fn run(args: &Args) {
    if args.mode.as_deref() == Some("child-bytes") {
        child_bytes(args);
        return;
    }
    let mut rep = Reporter::new("C13");
    if let Some(path) = &args.replay {
        let w = vcommon::load_replay(path);
        if w["log"].is_array() && w["link"].is_string() {
            streams_case(&mut rep, w["case_seed"].as_u64().unwrap_or(0));
        }
        if let Some(h) = w["bytes_hex"].as_str() {
            if w.get("length_field").is_some() {
                let b = unhex(h).unwrap();
                rep.eval();
                if let Err(p) = guarded(move || { let mut rd: &[u8] = &b; let _ = git_request(&mut rd); }) {
                    rep.violation("C13/panic/git-request-header/replay", json!({"panic": p}));
                }
            }
        }
        rep.finish();
        return;
    }
    for k in 0..args.budget(3_200, 32_000) {
        service_case(&mut rep, args.case_seed(k));
    }
    for k in 0..args.budget(40_000, 800_000) {
        streams_case(&mut rep, args.case_seed(5_000_000_000 + k));
    }
    bytes_level(&mut rep, args, args.budget(160_000, 1_600_000));
    for k in 0..args.budget(160_000, 1_600_000) {
        header_case(&mut rep, args.case_seed(3_000_000_000 + k));
    }
    rep.finish();
}
