//! C14 — Frame decoding is memory-bounded and chunking-independent.
//!
//! (a) allocation accounting around `Deserializer<_, Frame>::deserialize_next` with the counting
//! global allocator: largest single request and peak live bytes must stay below
//! 256 KiB + 4 x (bytes received); declared lengths >= 1 MiB run in a child process whose allocator
//! refuses requests above 64 MiB (an abort of the child is the observation).
//! (b) the encoding of frame sequences split at arbitrary points decodes to exactly those frames.
//! (c) a frame whose declared payload is fully present but does not decode is an error, never
//! "need more data".
use radicle_node::deserializer::Deserializer;
use radicle_node::prelude::{Message, Timestamp};
use radicle_node::service::filter::Filter;
use radicle_node::service::message::{Ping, Subscribe, ZeroBytes};
use radicle_node::wire::verif::{Control, Frame, StreamId};
use radicle_node::{wire, Link};
use vcommon::{alloc, guarded, hex, json, unhex, Args, Reporter, Rng};

const C0: u64 = 256 * 1024;
const K: u64 = 4;
const INBOX: usize = 1024 * 1024 * 2;

fn varint(x: u64, width: u8) -> Vec<u8> {
    match width {
        1 => vec![x as u8 & 0x3f],
        2 => ((0b01u16 << 14) | (x as u16 & 0x3fff)).to_be_bytes().to_vec(),
        4 => ((0b10u32 << 30) | (x as u32 & 0x3fff_ffff)).to_be_bytes().to_vec(),
        _ => ((0b11u64 << 62) | (x & ((1 << 62) - 1))).to_be_bytes().to_vec(),
    }
}

fn min_width(x: u64) -> u8 {
    if x < 1 << 6 { 1 } else if x < 1 << 14 { 2 } else if x < 1 << 30 { 4 } else { 8 }
}

fn header(stream: u64) -> Vec<u8> {
    let mut v = vec![b'r', b'a', b'd', 1];
    v.extend(varint(stream, min_width(stream)));
    v
}

/// Decode everything currently decodable; returns frames and the terminal condition.
fn drain(d: &mut Deserializer<INBOX, Frame>) -> (Vec<Frame>, Result<(), String>) {
    let mut out = vec![];
    loop {
        match d.deserialize_next() {
            Ok(Some(f)) => out.push(f),
            Ok(None) => return (out, Ok(())),
            Err(e) => return (out, Err(e.to_string())),
        }
    }
}

fn measure(bytes: &[u8]) -> (alloc::Stats, String) {
    let mut d = Deserializer::<INBOX, Frame>::new(INBOX.min(65536));
    let _ = d.input(bytes);
    alloc::reset();
    let r = d.deserialize_next();
    let st = alloc::stop();
    let outcome = match r {
        Ok(Some(_)) => "frame".to_string(),
        Ok(None) => "incomplete".to_string(),
        Err(e) => format!("error: {e}"),
    };
    (st, outcome)
}

fn memory_case(rep: &mut Reporter, bytes: Vec<u8>, declared: u64, supplied: usize, what: &str) {
    rep.eval();
    let received = bytes.len() as u64;
    let bound = C0 + K * received;
    let w = |extra: vcommon::Value| json!({"bytes_hex": hex(&bytes), "declared_payload_length": declared, "payload_bytes_supplied": supplied, "bytes_received": received, "bound": bound, "what": what, "detail": extra});
    if declared >= 1 << 20 {
        rep.count("memory.child-process-cases");
        // child process: allocator refuses > 64 MiB
        let exe = std::env::current_exe().unwrap();
        let out = std::process::Command::new(exe).args(["C14", "--mode", "child", &hex(&bytes)]).output();
        match out {
            Err(e) => rep.inconclusive("could not spawn child", json!({"e": e.to_string()})),
            Ok(o) => {
                let stderr = String::from_utf8_lossy(&o.stderr).to_string();
                let stdout = String::from_utf8_lossy(&o.stdout).to_string();
                if let Some(line) = stderr.lines().find(|l| l.starts_with("VERIF-ALLOC-REFUSED")) {
                    let n: u64 = line.split_whitespace().nth(1).and_then(|x| x.parse().ok()).unwrap_or(0);
                    rep.violation("C14/allocation-sized-by-declared-length-before-data-arrives", w(json!({"requested_bytes": n, "child_status": format!("{:?}", o.status)})));
                } else if !o.status.success() {
                    rep.violation("C14/decoder-process-died", w(json!({"child_status": format!("{:?}", o.status), "stderr": stderr.chars().take(400).collect::<String>()})));
                } else if let Ok(v) = serde_json::from_str::<vcommon::Value>(stdout.trim()) {
                    let largest = v["largest"].as_u64().unwrap_or(0);
                    let peak = v["peak"].as_u64().unwrap_or(0);
                    if largest > bound || peak > bound {
                        rep.violation("C14/allocation-sized-by-declared-length-before-data-arrives", w(json!({"largest_request": largest, "peak_live": peak, "outcome": v["outcome"]})));
                    }
                } else {
                    rep.inconclusive("child output unreadable", json!({"stdout": stdout}));
                }
            }
        }
    } else {
        let (st, outcome) = measure(&bytes);
        rep.max("observed-largest-request", st.largest);
        if st.largest > bound || st.peak > bound {
            rep.violation("C14/allocation-sized-by-declared-length-before-data-arrives", w(json!({"largest_request": st.largest, "peak_live": st.peak, "outcome": outcome})));
        }
    }
    if (supplied as u64) < declared {
        rep.count("memory.cases-with-declared-length-larger-than-supplied");
        rep.nontrivial(vcommon::fnv(&bytes));
    }
}

fn sample_messages(rng: &mut Rng) -> Message {
    match rng.below(4) {
        0 => Message::Ping(Ping { ponglen: rng.below(100) as u16, zeroes: ZeroBytes::new(rng.below(40) as u16) }),
        1 => Message::Pong { zeroes: ZeroBytes::new(rng.below(300) as u16) },
        2 => Message::Subscribe(Subscribe { filter: Filter::default(), since: Timestamp::try_from(rng.below(1 << 40)).unwrap(), until: Timestamp::MAX }),
        _ => {
            let r = crate::svc::Remote::new(rng.below(6) as u8);
            match rng.below(2) {
                0 => r.node_announcement(1_700_000_000_000 + rng.below(1000)).into(),
                _ => r.inventory_announcement(1_700_000_000_000 + rng.below(1000), &[]).into(),
            }
        }
    }
}

fn gen_frame(rng: &mut Rng) -> Frame {
    let link = if rng.bool() { Link::Inbound } else { Link::Outbound };
    match rng.below(6) {
        0 => Frame::control(link, Control::Open { stream: StreamId::git(link).nth(rng.below(1000)).unwrap() }),
        1 => Frame::control(link, if rng.bool() { Control::Close { stream: StreamId::git(link) } } else { Control::Eof { stream: StreamId::git(link).nth(rng.below(1 << 30)).unwrap() } }),
        2 | 3 => {
            let n = *rng.pick(&[0usize, 1, 2, 63, 64, 65, 300, 16383, 16384, 20000]);
            let n = if n > 300 && rng.chance(2, 3) { rng.usize(300) } else { n };
            Frame::git(StreamId::git(link).nth(rng.below(100)).unwrap(), rng.bytes(n))
        }
        _ => Frame::gossip(link, sample_messages(rng)),
    }
}

fn chunk_case(rep: &mut Reporter, rng: &mut Rng, exhaustive_splits: bool) {
    let n = 1 + rng.usize(4);
    let frames: Vec<Frame> = (0..n).map(|_| gen_frame(rng)).collect();
    let mut bytes = vec![];
    for f in &frames {
        bytes.extend(f.to_bytes());
    }
    let splits: Vec<Vec<usize>> = if exhaustive_splits && bytes.len() <= 600 {
        (1..bytes.len()).map(|i| vec![i]).collect()
    } else {
        (0..12)
            .map(|_| {
                let k = 1 + rng.usize(6);
                let mut v: Vec<usize> = (0..k).map(|_| 1 + rng.usize(bytes.len().max(2) - 1)).collect();
                v.sort();
                v.dedup();
                v
            })
            .chain(std::iter::once((1..bytes.len()).collect())) // byte by byte
            .collect()
    };
    for cut in splits {
        rep.eval();
        rep.count("chunking.split-variants");
        let mut d = Deserializer::<INBOX, Frame>::new(65536);
        let mut got: Vec<Frame> = vec![];
        let mut prev = 0;
        let mut err = None;
        for c in cut.iter().copied().chain(std::iter::once(bytes.len())) {
            if c <= prev {
                continue;
            }
            let _ = d.input(&bytes[prev..c]);
            prev = c;
            let (fs, r) = drain(&mut d);
            got.extend(fs);
            if let Err(e) = r {
                err = Some(e);
                break;
            }
        }
        let w = || json!({"frames": frames.iter().map(|f| format!("{f:?}").chars().take(200).collect::<String>()).collect::<Vec<_>>(), "bytes_hex": hex(&bytes[..bytes.len().min(800)]), "split_points": cut, "decoded": got.len()});
        if let Some(e) = err {
            rep.violation("C14/chunking/valid-frames-rejected", json!({"error": e, "case": w()}));
            return;
        }
        if got != frames {
            rep.violation("C14/chunking/decoded-frames-differ-from-sent-frames", w());
            return;
        }
        if !d.is_empty() {
            rep.violation("C14/chunking/bytes-left-over-after-all-frames", w());
            return;
        }
    }
    rep.nontrivial(vcommon::fnv(&bytes));
    if rep.wants_sample() && n >= 3 {
        rep.sample(json!({"frames": frames.iter().map(|f| format!("{f:?}").chars().take(120).collect::<String>()).collect::<Vec<_>>(), "total_bytes": bytes.len()}));
    }
}

fn invalid_inner_case(rep: &mut Reporter, rng: &mut Rng) {
    // a complete gossip frame around a truncated / damaged message
    let msg = sample_messages(rng);
    let full = wire::serialize(&msg);
    let link = if rng.bool() { Link::Inbound } else { Link::Outbound };
    let stream: u64 = StreamId::gossip(link).into();
    for cut in 0..full.len() {
        if full.len() > 64 && !rng.chance(1, 4) && cut > 8 && cut + 8 < full.len() {
            continue;
        }
        rep.eval();
        let inner = &full[..cut];
        let mut bytes = header(stream);
        bytes.extend(varint(inner.len() as u64, min_width(inner.len() as u64)));
        bytes.extend(inner);
        // followed by a valid frame
        let next = Frame::<Message>::git(StreamId::git(link), vec![1, 2, 3]);
        let mut all = bytes.clone();
        all.extend(next.to_bytes());
        let mut d = Deserializer::<INBOX, Frame>::new(65536);
        let _ = d.input(&all);
        let r = guarded(|| d.deserialize_next());
        rep.count("invalid-inner.complete-frame-with-truncated-message");
        match r {
            Err(p) => {
                rep.violation(&format!("C14/panic/{}", vcommon::panic_site(&p)), json!({"bytes_hex": hex(&all), "panic": p}));
                return;
            }
            Ok(Ok(None)) => {
                rep.violation("C14/complete-frame-with-truncated-message-reported-as-incomplete", json!({"bytes_hex": hex(&all), "message": format!("{msg:?}").chars().take(200).collect::<String>(), "inner_truncated_to": cut, "inner_full_length": full.len()}));
                return;
            }
            Ok(Ok(Some(_))) => rep.count("invalid-inner.truncation-still-decodes"),
            Ok(Err(_)) => rep.count("invalid-inner.reported-as-error"),
        }
    }
}

pub fn run(args: &Args) {
    if args.mode.as_deref() == Some("child") {
        // child: decode the given bytes under an allocator that refuses > 64 MiB
        let bytes = unhex(&args.rest.first().cloned().unwrap_or_default()).unwrap_or_default();
        alloc::set_limit(64 << 20);
        let (st, outcome) = measure(&bytes);
        println!("{}", json!({"largest": st.largest, "peak": st.peak, "outcome": outcome}));
        return;
    }
    let mut rep = Reporter::new("C14");
    if let Some(path) = &args.replay {
        let w = vcommon::load_replay(path);
        if let Some(h) = w["bytes_hex"].as_str() {
            let b = unhex(h).unwrap();
            let declared = w["declared_payload_length"].as_u64().unwrap_or(0);
            if w.get("declared_payload_length").is_some() {
                memory_case(&mut rep, b, declared, w["payload_bytes_supplied"].as_u64().unwrap_or(0) as usize, "replay");
            } else {
                rep.eval();
                let mut d = Deserializer::<INBOX, Frame>::new(65536);
                let _ = d.input(&b);
                if let Ok(None) = d.deserialize_next() {
                    rep.violation("C14/complete-frame-with-truncated-message-reported-as-incomplete", json!({"bytes_hex": h}));
                }
            }
        }
        rep.finish();
        return;
    }
    // (a) memory: all widths x declared lengths x supplied bytes (deterministic; sharded)
    let lengths: [u64; 14] = [0, 1, 63, 64, 16383, 16384, 65535, 300_000, (1 << 20) - 1, 1 << 20, (1 << 30) - 1, 1 << 30, 1 << 40, (1 << 62) - 1];
    let mut idx = 0u64;
    let mut rng = Rng::new(vcommon::mix(args.seed, "C14", args.shard));
    for kind in [0b010u64, 0b011, 0b100, 0b101, 0b100 | (5 << 3)] {
        for &l in &lengths {
            for width in [1u8, 2, 4, 8] {
                if width < min_width(l) {
                    continue;
                }
                let supplies: Vec<usize> = if l >= 1 << 20 { vec![0, 1, 7, 40] } else { vec![0, 1, 2, 5, 17, 40] };
                for s in supplies {
                    idx += 1;
                    if idx % args.shards != args.shard {
                        continue;
                    }
                    let mut b = header(kind);
                    b.extend(varint(l, width));
                    let s = s.min(l as usize);
                    b.extend(rng.bytes(s));
                    memory_case(&mut rep, b, l, s, "header + declared length + partial payload");
                }
            }
        }
    }
    // random length prefixes
    for k in 0..args.budget(2_000, 60_000) {
        let mut r = Rng::new(args.case_seed(k));
        let l = match r.below(4) { 0 => r.below(1 << 20), 1 => r.below(1 << 14), 2 => r.below(64), _ => (1 << 19) + r.below(1 << 19) };
        let mut b = header(*r.pick(&[0b010u64, 0b011, 0b100, 0b101]));
        b.extend(varint(l, *r.pick(&[min_width(l), 8])));
        let s = r.usize(41).min(l as usize);
        b.extend(r.bytes(s));
        memory_case(&mut rep, b, l, s, "random declared length");
    }
    // (b) chunking
    for k in 0..args.budget(1_600, 60_000) {
        let mut r = Rng::new(args.case_seed(1_000_000 + k));
        chunk_case(&mut rep, &mut r, k % 4 == 0);
    }
    // (c) invalid inner message inside a complete frame
    for k in 0..args.budget(800, 20_000) {
        let mut r = Rng::new(args.case_seed(2_000_000 + k));
        invalid_inner_case(&mut rep, &mut r);
    }
    rep.finish();
}
