//! C12 — Repository data is served only to peers allowed to see it.
//!
//! End to end with real in-process nodes (`radicle_node::test::environment`): one serving node
//! holding public / private / allow-listed / blocked / unseeded repositories, requesters with
//! different roles fetch every repository over real connections and real workers. Oracle (own
//! predicate over the configuration the harness installed): served => seeded and visible.
use std::collections::BTreeMap;

use radicle::identity::doc::Visibility;
use radicle::identity::{Did, RepoId};
use radicle::node::policy::{Policy, Scope};
use radicle::node::{Alias, Handle as _};
use radicle::storage::ReadStorage;
use radicle_node::test::environment::Node;
use vcommon::{guarded, json, Args, Reporter, Rng, Value};

struct RepoSpec {
    rid: RepoId,
    name: String,
    /// None = public, Some(allow) = private with these requester indices allowed
    private: Option<Vec<usize>>,
    /// 0 = explicit allow, 1 = explicit block, 2 = no policy (default applies)
    policy: u8,
}

fn one(rep: &mut Reporter, seed: u64) {
    rep.case(seed);
    let mut rng = Rng::new(seed);
    let tmp = vcommon::scratch_dir();
    let default_allow = rng.chance(1, 4);
    let mk_cfg = |alias: &str, default_allow: bool| {
        let mut c = radicle::node::Config::test(Alias::new(alias));
        c.relay = radicle::node::config::Relay::Always;
        if default_allow {
            c.seeding_policy = radicle::node::config::DefaultSeedingPolicy::permissive();
        }
        c
    };
    let r = guarded(|| -> Result<Vec<Value>, String> {
        let mut server = Node::init(tmp.path(), mk_cfg("server", default_allow));
        let nreq = 2 + rng.usize(2);
        let requesters: Vec<_> = (0..nreq).map(|i| Node::init(tmp.path(), mk_cfg(&format!("req{i}"), false))).collect();
        let mut repos: Vec<RepoSpec> = vec![];
        let nrepos = 4 + rng.usize(3);
        for i in 0..nrepos {
            let private = if rng.chance(3, 5) { Some((0..nreq).filter(|_| rng.chance(1, 3)).collect::<Vec<_>>()) } else { None };
            let vis = match &private {
                None => Visibility::Public,
                Some(allow) => Visibility::private(allow.iter().map(|a| Did::from(requesters[*a].id))),
            };
            let wd = tempfile::tempdir_in(tmp.path()).map_err(|e| e.to_string())?;
            let (working, _) = radicle::test::fixtures::repository(wd.path());
            let name = format!("r{i}x{}", seed % 100_000);
            radicle::storage::git::transport::local::register(server.storage.clone());
            let (rid, _, _) = radicle::rad::init(&working, name.clone().try_into().unwrap(), "verif", radicle::git::refname!("master"), vis, &server.signer, &server.storage).map_err(|e| e.to_string())?;
            let policy = *rng.pick(&[0u8, 0, 0, 1, 2]);
            match policy {
                0 => { server.policies.seed(&rid, Scope::All).map_err(|e| e.to_string())?; }
                1 => { server.policies.set_seed_policy(&rid, Policy::Block).map_err(|e| e.to_string())?; }
                _ => {}
            }
            repos.push(RepoSpec { rid, name, private, policy });
        }
        let mut server = server.spawn();
        let mut handles: Vec<_> = requesters.into_iter().map(|n| n.spawn()).collect();
        for h in handles.iter_mut() {
            h.connect(&server);
        }
        let mut outcomes = vec![];
        // every requester fetches every repository; the server's policy is changed now and then
        let mut order: Vec<(usize, usize)> = (0..handles.len()).flat_map(|q| (0..repos.len()).map(move |k| (q, k))).collect();
        rng.shuffle(&mut order);
        for (q, k) in order {
            if rng.chance(1, 8) {
                // runtime policy change on the server
                let j = rng.usize(repos.len());
                if repos[j].policy == 0 {
                    let _ = server.handle.unseed(repos[j].rid);
                    repos[j].policy = 2;
                } else {
                    let _ = server.handle.seed(repos[j].rid, Scope::All);
                    repos[j].policy = 0;
                }
            }
            let rid = repos[k].rid;
            let had_before = handles[q].storage.contains(&rid).unwrap_or(false);
            let _ = handles[q].handle.seed(rid, Scope::All);
            let result = handles[q].handle.fetch(rid, server.id, std::time::Duration::from_secs(12));
            let success = matches!(&result, Ok(r) if r.is_success());
            let has_after = handles[q].storage.contains(&rid).unwrap_or(false);
            let seeded = match repos[k].policy { 0 => true, 1 => false, _ => default_allow };
            let visible = match &repos[k].private { None => true, Some(allow) => allow.contains(&q) };
            outcomes.push(json!({"requester": q, "repo": repos[k].name, "private_allow": repos[k].private, "server_policy": (["allow", "block", "none(default)"][repos[k].policy as usize]),
                "server_default_allow": default_allow, "seeded": seeded, "visible": visible, "fetch_success": success, "had_before": had_before, "has_after": has_after,
                "result": format!("{result:?}").chars().take(160).collect::<String>()}));
        }
        drop(handles);
        drop(server);
        Ok(outcomes)
    });
    match r {
        Err(p) => rep.inconclusive("environment panicked", json!({"panic": p})),
        Ok(Err(e)) => rep.inconclusive("environment error", json!({"e": e})),
        Ok(Ok(outcomes)) => {
            let mut by_kind: BTreeMap<&str, u64> = BTreeMap::new();
            for o in &outcomes {
                rep.eval();
                let allowed = o["seeded"] == true && o["visible"] == true;
                let served = o["fetch_success"] == true || (o["has_after"] == true && o["had_before"] == false);
                if served && !allowed {
                    let why = if o["visible"] == false && o["seeded"] == false { "not-seeded-and-not-visible" } else if o["visible"] == false { "private-repository-requester-not-allowed" } else { "repository-not-seeded" };
                    rep.violation(&format!("C12/served-although/{why}"), json!({"request": o, "all_requests": outcomes}));
                    return;
                }
                let key = match (allowed, served) { (true, true) => "authorized-served", (true, false) => "authorized-not-served(not-a-violation)", (false, false) => "unauthorized-refused", _ => "" };
                *by_kind.entry(key).or_insert(0) += 1;
                if o["visible"] == false && !served {
                    rep.count("refused.private-not-allowed");
                }
                if o["seeded"] == false && !served {
                    rep.count("refused.not-seeded");
                }
            }
            for (k, n) in by_kind {
                rep.add(k, n);
            }
            rep.nontrivial(seed);
            if rep.wants_sample() {
                rep.sample(json!({"requests": outcomes.iter().take(8).collect::<Vec<_>>()}));
            }
        }
    }
}

pub fn run(args: &Args) {
    let mut rep = Reporter::new("C12");
    if let Some(path) = &args.replay {
        let w = vcommon::load_replay(path);
        one(&mut rep, w["case_seed"].as_u64().unwrap_or(args.seed));
        rep.finish();
        return;
    }
    for k in 0..args.budget(64, 320) {
        one(&mut rep, args.case_seed(k));
    }
    rep.finish();
}
