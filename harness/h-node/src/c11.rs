//! C11 — Private repositories never leak through gossip.
//!
//! Offline checker over everything the service writes: a refs announcement about a repository that
//! is private at send time must only go to delegates / allow-listed peers (own predicate over the
//! document the harness installed), and no inventory announcement signed by the local node may
//! contain a private repository.
use std::collections::BTreeMap;

use radicle::identity::doc::Visibility;
use radicle::identity::{Did, RepoId};
use radicle::test::storage::MockStorage;
use radicle_node::prelude::{LocalDuration, Message, NodeId};
use radicle_node::service::io::Io;
use radicle_node::service::message::AnnouncementMessage;
use radicle_node::service::policy::{Scope, SeedingPolicy};
use radicle_node::service::{Command, DisconnectReason, ServiceState};
use radicle_node::Link;
use vcommon::{guarded, json, Args, Reporter, Rng, Value};

use crate::svc::{self, Remote};

#[derive(Clone)]
struct Repo {
    rid: RepoId,
    /// None = public; Some(list of remote indices allowed)
    private: Option<Vec<usize>>,
    delegates: Vec<usize>, // remote indices that are delegates (besides local)
}

fn visible(repo: &Repo, peer: usize) -> bool {
    match &repo.private {
        None => true,
        Some(allow) => allow.contains(&peer) || repo.delegates.contains(&peer),
    }
}

fn one(rep: &mut Reporter, seed: u64, thorough: bool) {
    rep.case(seed);
    let mut rng = Rng::new(seed);
    let nrem = 3 + rng.usize(3);
    let remotes: Vec<Remote> = (0..nrem as u8).map(Remote::new).collect();
    let local = svc::device(20, 0);
    let local_did = Did::from(*local.public_key());
    // repositories
    let nrepos = 2 + rng.usize(3);
    let mut repos: Vec<Repo> = vec![];
    let mut inventory = vec![];
    for i in 0..nrepos {
        let delegates: Vec<usize> = (0..nrem).filter(|_| rng.chance(1, 5)).collect();
        let private = if rng.chance(2, 3) { Some((0..nrem).filter(|_| rng.chance(1, 4)).collect::<Vec<_>>()) } else { None };
        let mut dids = vec![local_did];
        dids.extend(delegates.iter().map(|d| Did::from(remotes[*d].nid)));
        let vis = match &private {
            None => Visibility::Public,
            Some(allow) => Visibility::private(allow.iter().map(|a| Did::from(remotes[*a].nid))),
        };
        let (rid, doc) = svc::mk_doc(&format!("r{i}-{seed}"), &dids, vis);
        inventory.push((rid, doc));
        repos.push(Repo { rid, private, delegates });
    }
    let storage = MockStorage::new(inventory);
    let opts = svc::NodeOpts { relay: rng.chance(4, 5), policy: if rng.bool() { SeedingPolicy::Allow { scope: Scope::All } } else { SeedingPolicy::Block }, seed, fetch_concurrency: 1 };
    let mut node = match guarded(|| svc::mk_node(storage, &opts)) {
        Ok(n) => n,
        Err(p) => {
            rep.inconclusive("node construction panicked", json!({"panic": p}));
            return;
        }
    };
    for r in &repos {
        svc::install_refs(&mut node, &r.rid, &local, &mut rng);
        for d in &r.delegates {
            svc::install_refs(&mut node, &r.rid, &remotes[*d].dev, &mut rng);
        }
    }
    let mut log: Vec<Value> = vec![];
    let mut connected = vec![false; nrem];
    let mut subscribed = vec![false; nrem];
    let mut ts = svc::T0 + 1000;
    let nsteps = 20 + rng.usize(if thorough { 60 } else { 25 });
    let local_nid = *local.public_key();
    let nid_index: BTreeMap<NodeId, usize> = remotes.iter().enumerate().map(|(i, r)| (r.nid, i)).collect();
    let mut private_refs_stored = false;
    let mut inventory_reported = false;
    // repositories that entered the node's inventory while they were public
    let mut was_public_in_inventory: Vec<bool> = repos.iter().map(|r| r.private.is_none()).collect();
    // the same, but counted from the last (re)start only: `initialize` drops the private repositories from
    // the routing table, so an inventory announcement *created* after a restart may only leak what was
    // public at or after that restart
    let mut public_since_restart: Vec<bool> = was_public_in_inventory.clone();
    let mut restart_ms: u64 = 0;
    svc::drain(&mut node);

    for step in 0..nsteps {
        ts += 1 + rng.below(2000);
        let choice = rng.below(100);
        let desc: Value;
        let r = guarded(|| -> Value {
            match choice {
                0..=14 => {
                    let p = rng.usize(nrem);
                    if !connected[p] {
                        svc::connect_inbound(&mut node, &remotes[p]);
                        node.service.received_message(remotes[p].nid, remotes[p].node_announcement(ts).into());
                        connected[p] = true;
                        json!({"connect": p})
                    } else {
                        node.service.disconnected(remotes[p].nid, Link::Inbound, &DisconnectReason::Command);
                        connected[p] = false;
                        subscribed[p] = false;
                        json!({"disconnect": p})
                    }
                }
                15..=34 => {
                    let p = rng.usize(nrem);
                    if connected[p] {
                        let since = if rng.bool() { 0 } else { ts.saturating_sub(rng.below(100_000)) };
                        node.service.received_message(remotes[p].nid, svc::subscribe_all(since));
                        subscribed[p] = true;
                        json!({"subscribe": p, "since": since})
                    } else {
                        json!({"noop": "subscribe-of-disconnected"})
                    }
                }
                35..=54 => {
                    // own refs announcement
                    let k = rng.usize(repos.len());
                    let (tx, _rx) = crossbeam_channel::bounded(1);
                    node.service.command(Command::AnnounceRefs(repos[k].rid, tx));
                    json!({"announce_own_refs": k})
                }
                55..=69 => {
                    // a delegate's (or anybody's) refs announcement relayed to us by some connected peer
                    let k = rng.usize(repos.len());
                    let announcer = rng.usize(nrem);
                    let relayer = rng.usize(nrem);
                    if connected[relayer] {
                        // make sure the announcer is known
                        node.service.received_message(remotes[relayer].nid, remotes[announcer].node_announcement(ts).into());
                        let refs_at = radicle::storage::refs::RefsAt { remote: remotes[announcer].nid, at: svc::oid(&mut rng) };
                        let ann = remotes[announcer].refs_announcement(ts + 1, repos[k].rid, vec![refs_at]);
                        node.service.received_message(remotes[relayer].nid, ann.into());
                        json!({"relayed_refs_announcement": {"repo": k, "announcer": announcer, "relayer": relayer}})
                    } else {
                        json!({"noop": "relayer-not-connected"})
                    }
                }
                70..=79 => {
                    svc::elapse(&mut node, LocalDuration::from_secs(1 + rng.below(120)));
                    json!({"elapse+wake": true})
                }
                80..=84 => {
                    // the clock moves before a restart, so that announcements created by this start have
                    // strictly later timestamps than anything created before it
                    node.service.clock_mut().elapse(LocalDuration::from_secs(2));
                    let now = *node.service.clock();
                    node.service.initialize(now).ok();
                    for (k, r) in repos.iter().enumerate() {
                        was_public_in_inventory[k] |= r.private.is_none();
                        public_since_restart[k] = r.private.is_none();
                    }
                    restart_ms = now.as_millis() as u64;
                    json!({"restart(initialize)": true})
                }
                85..=92 => {
                    // visibility flip
                    let k = rng.usize(repos.len());
                    let newp = if repos[k].private.is_some() && rng.bool() { None } else { Some((0..nrem).filter(|_| rng.chance(1, 4)).collect::<Vec<_>>()) };
                    let vis = match &newp {
                        None => Visibility::Public,
                        Some(allow) => Visibility::private(allow.iter().map(|a| Did::from(remotes[*a].nid))),
                    };
                    let rid = repos[k].rid;
                    let repo = node.service.storage_mut().repo_mut(&rid);
                    repo.doc.doc = repo.doc.doc.clone().with_edits(|raw| raw.visibility = vis).unwrap();
                    repos[k].private = newp.clone();
                    json!({"visibility_change": {"repo": k, "private_allow": newp}})
                }
                _ => {
                    // add inventory: the CLI (init / seed / publish) only ever does this for a
                    // repository that is public at that moment
                    let k = rng.usize(repos.len());
                    if repos[k].private.is_none() {
                        let (tx, _rx) = crossbeam_channel::bounded(1);
                        node.service.command(Command::AddInventory(repos[k].rid, tx));
                        was_public_in_inventory[k] = true;
                        public_since_restart[k] = true;
                        json!({"add_inventory": k})
                    } else {
                        json!({"noop": "add_inventory-of-private-repo-not-generated"})
                    }
                }
            }
        });
        match r {
            Ok(d) => desc = d,
            Err(p) => {
                // a panic is C13's business; stop this case without a C11 verdict
                rep.count("case-aborted-by-panic(not-a-C11-verdict)");
                rep.inconclusive("service panicked", json!({"panic": p, "log": log}));
                return;
            }
        }
        log.push(json!({"step": step, "input": desc}));
        rep.eval();
        // ---- the monitor: everything written in this step
        for io in svc::drain(&mut node) {
            if let Io::Write(to, msgs) = io {
                let Some(pi) = nid_index.get(&to).copied() else { continue };
                for m in msgs {
                    let Message::Announcement(a) = &m else { continue };
                    match &a.message {
                        AnnouncementMessage::Refs(r) => {
                            if let Some(repo) = repos.iter().find(|x| x.rid == r.rid) {
                                if repo.private.is_some() {
                                    rep.count("private-refs-announcement-written");
                                    private_refs_stored = true;
                                    if !visible(repo, pi) {
                                        let how = if desc.get("subscribe").is_some() {
                                            "replayed-on-subscribe"
                                        } else if a.node == local_nid {
                                            "own-announcement"
                                        } else {
                                            "relayed"
                                        };
                                        rep.violation(&format!("C11/private-refs-announcement-sent-to-disallowed-peer/{how}"),
                                            json!({"to_peer": pi, "repo": r.rid.to_string(), "announcer_is_local": a.node == local_nid, "log": log,
                                                   "repos": repos.iter().map(|x| json!({"rid": x.rid.to_string(), "private_allow": x.private, "delegates": x.delegates})).collect::<Vec<_>>()}));
                                        return;
                                    } else {
                                        rep.count("private-refs-announcement-to-allowed-peer");
                                    }
                                }
                            }
                        }
                        AnnouncementMessage::Inventory(inv) if a.node == local_nid => {
                            rep.count("own-inventory-announcement-written");
                            for rid in inv.inventory.iter() {
                                if let Some(repo) = repos.iter().find(|x| x.rid == *rid) {
                                    if repo.private.is_some() {
                                        let k = repos.iter().position(|x| x.rid == *rid).unwrap();
                                        let created_after_restart = *inv.timestamp >= restart_ms && restart_ms > 0;
                                        let sig = if created_after_restart && !public_since_restart[k] {
                                            "C11/private-repository-in-own-inventory-announcement/created-after-a-restart-at-which-it-was-private"
                                        } else if was_public_in_inventory[k] {
                                            "C11/private-repository-in-own-inventory-announcement/made-private-after-it-was-announced-as-public"
                                        } else {
                                            "C11/private-repository-in-own-inventory-announcement"
                                        };
                                        if !inventory_reported {
                                            rep.violation(sig, json!({"to_peer": pi, "repo": rid.to_string(), "log": log}));
                                        }
                                        inventory_reported = true;
                                        if !was_public_in_inventory[k] {
                                            return;
                                        }
                                    }
                                }
                            }
                        }
                        _ => {}
                    }
                }
            }
        }
        if private_refs_stored && (0..nrem).any(|p| connected[p] && subscribed[p] && repos.iter().any(|r| r.private.is_some() && !visible(r, p))) {
            rep.count("steps.private-announcement-known-and-disallowed-peer-subscribed");
        }
        if desc.get("subscribe").is_some() && private_refs_stored {
            rep.count("subscribe-after-private-announcement");
        }
        if desc.get("restart(initialize)").is_some() {
            rep.count("restarts");
        }
    }
    rep.nontrivial(seed);
    if rep.wants_sample() && private_refs_stored {
        rep.sample(json!({"log": log.iter().take(30).collect::<Vec<_>>()}));
    }
}

pub fn run(args: &Args) {
    let mut rep = Reporter::new("C11");
    if let Some(path) = &args.replay {
        let w = vcommon::load_replay(path);
        one(&mut rep, w["case_seed"].as_u64().unwrap_or(args.seed), args.thorough);
        rep.finish();
        return;
    }
    for k in 0..args.budget(1_600, 40_000) {
        one(&mut rep, args.case_seed(k), args.thorough);
    }
    rep.finish();
}
