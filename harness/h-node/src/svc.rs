//! The harness is the environment of one real `Service`: it plays every remote peer (it owns their
//! keys), the wire layer and the workers. Time is logical: the harness owns the clock.
use std::net;
use std::str::FromStr;

use radicle::crypto::test::signer::MockSigner;
use radicle::identity::doc::{DocAt, RawDoc, Visibility};
use radicle::identity::{Did, Project, RepoId};
use radicle::node::device::Device;
use radicle::node::{Address, Alias, UserAgent};
use radicle::storage::refs::{Refs, SignedRefsAt};
use radicle::test::storage::{MockRepository, MockStorage};
use radicle_node::prelude::{BoundedVec, LocalDuration, LocalTime, Message, NodeId, Timestamp};
use radicle_node::service::io::Io;
use radicle_node::service::message::{Announcement, AnnouncementMessage, InventoryAnnouncement, NodeAnnouncement, RefsAnnouncement, Subscribe};
use radicle_node::service::policy::SeedingPolicy;
use radicle_node::service::{self, ServiceState};
use radicle_node::test::peer::{self, Peer};
use radicle_node::{Link, PROTOCOL_VERSION};
use vcommon::Rng;

pub type Dev = Device<MockSigner>;
pub type Node = Peer<MockStorage, MockSigner>;

pub fn device(tag: u8, i: u8) -> Dev {
    let mut seed = [tag; 32];
    seed[0] = i;
    seed[31] = i.wrapping_mul(41).wrapping_add(tag);
    Device::mock_from_seed(seed)
}

pub const T0: u64 = 1_700_000_000_000; // ms

/// A repository document for MockStorage.
pub fn mk_doc(name: &str, delegates: &[Did], visibility: Visibility) -> (RepoId, DocAt) {
    let project = Project::new(name.to_string().try_into().unwrap(), "verif".into(), radicle::git::refname!("master")).unwrap();
    let doc = RawDoc::new(project, delegates.to_vec(), 1, visibility).verified().unwrap();
    let (blob, _) = doc.encode().unwrap();
    let rid = RepoId::from(blob);
    (rid, DocAt { commit: blob, blob, doc })
}

pub fn oid(rng: &mut Rng) -> radicle::git::Oid {
    let b = rng.bytes(20);
    radicle::git::Oid::try_from(&b[..]).unwrap()
}

pub struct Remote {
    pub dev: Dev,
    pub nid: NodeId,
    pub addr: Address,
    pub name: String,
}

impl Remote {
    pub fn new(i: u8) -> Remote {
        let dev = device(21, i);
        let nid = *dev.public_key();
        // routable, distinct addresses
        let addr = Address::from(net::SocketAddr::from(([45, 33, 10 + i, 7], 8776)));
        Remote { dev, nid, addr, name: format!("remote{i}") }
    }
    pub fn node_announcement(&self, ts: u64) -> Announcement {
        let m: AnnouncementMessage = NodeAnnouncement {
            version: PROTOCOL_VERSION,
            features: radicle::node::Features::SEED,
            timestamp: tsv(ts),
            alias: Alias::from_str(&self.name).unwrap(),
            addresses: Some(self.addr.clone()).into(),
            nonce: 0,
            agent: UserAgent::from_str("/radicle:test/").unwrap(),
        }
        .solve(0)
        .unwrap()
        .into();
        m.signed(&self.dev)
    }
    pub fn inventory_announcement(&self, ts: u64, rids: &[RepoId]) -> Announcement {
        let m: AnnouncementMessage = InventoryAnnouncement { inventory: rids.to_vec().try_into().unwrap(), timestamp: tsv(ts) }.into();
        m.signed(&self.dev)
    }
    pub fn refs_announcement(&self, ts: u64, rid: RepoId, refs: Vec<radicle::storage::refs::RefsAt>) -> Announcement {
        let mut b = BoundedVec::new();
        for r in refs {
            let _ = b.push(r);
        }
        let m: AnnouncementMessage = RefsAnnouncement { rid, refs: b, timestamp: tsv(ts) }.into();
        m.signed(&self.dev)
    }
}

pub struct NodeOpts {
    pub relay: bool,
    pub policy: SeedingPolicy,
    pub seed: u64,
    pub fetch_concurrency: usize,
}

pub fn mk_node(storage: MockStorage, opts: &NodeOpts) -> Node {
    let mut config = service::Config::test(Alias::from_str("local").unwrap());
    config.relay = if opts.relay { radicle::node::config::Relay::Always } else { radicle::node::config::Relay::Never };
    config.limits.fetch_concurrency = opts.fetch_concurrency;
    // no rate limiting of the harness' peers unless a check wants it
    config.limits.rate.inbound = radicle::node::config::RateLimit { fill_rate: 1e9, capacity: 1 << 40 };
    config.limits.rate.outbound = radicle::node::config::RateLimit { fill_rate: 1e9, capacity: 1 << 40 };
    let c = peer::Config {
        config,
        local_time: LocalTime::from_millis(T0 as u128),
        policy: opts.policy,
        signer: device(20, 0),
        rng: fastrand::Rng::with_seed(opts.seed),
        tmp: vcommon_tmp(),
    };
    Peer::config("local", [8, 8, 8, 8], storage, c).initialized()
}

fn vcommon_tmp() -> tempfile::TempDir {
    vcommon::scratch_dir()
}

/// Drain the outbox.
pub fn drain(n: &mut Node) -> Vec<Io> {
    let mut v = vec![];
    while let Some(io) = n.service.next() {
        v.push(io);
    }
    v
}

pub fn connect_inbound(n: &mut Node, r: &Remote) {
    n.service.connected(r.nid, r.addr.clone(), Link::Inbound);
}

pub fn elapse(n: &mut Node, d: LocalDuration) {
    n.service.clock_mut().elapse(d);
    n.service.wake();
}

/// Install signed refs for `signer` in a mock repository (so refs announcements can be built).
pub fn install_refs(n: &mut Node, rid: &RepoId, who: &Dev, rng: &mut Rng) -> radicle::git::Oid {
    let at = oid(rng);
    let mut refs = Refs::default();
    refs.insert(radicle::git::refname!("refs/heads/master").into(), oid(rng));
    let repo: MockRepository = n.service.storage().repos.get(rid).unwrap().clone();
    let root = radicle::storage::ReadRepository::identity_root(&repo).unwrap();
    refs.insert(radicle::storage::refs::IDENTITY_ROOT.to_ref_string(), root);
    let signed = refs.signed(who).unwrap().verified(&repo).unwrap();
    n.service.storage_mut().repo_mut(rid).remotes.insert(*who.public_key(), SignedRefsAt { sigrefs: signed, at });
    at
}

pub fn subscribe_all(since: u64) -> Message {
    Message::Subscribe(Subscribe { filter: Default::default(), since: tsv(since), until: Timestamp::MAX })
}

pub fn msg_kind(m: &Message) -> &'static str {
    match m {
        Message::Subscribe(_) => "subscribe",
        Message::Announcement(a) => match a.message {
            AnnouncementMessage::Node(_) => "node-announcement",
            AnnouncementMessage::Inventory(_) => "inventory-announcement",
            AnnouncementMessage::Refs(_) => "refs-announcement",
        },
        Message::Info(_) => "info",
        Message::Ping(_) => "ping",
        Message::Pong { .. } => "pong",
    }
}

#[allow(dead_code)]
pub fn state_line(n: &Node) -> String {
    format!("sessions={} fetching={}", n.service.sessions().len(), n.service.fetching().len())
}

/// Timestamp from milliseconds (values above the representable maximum saturate).
pub fn tsv(u: u64) -> Timestamp {
    Timestamp::try_from(u).unwrap_or(Timestamp::MAX)
}
