pub fn run(_a: &vcommon::Args) {}
