//! C10 — Gossip is authenticated, fresh and never echoed back.
//!
//! Checker over the recorded inputs (what each peer delivered, at what local time), everything the
//! service writes, and the contents of the gossip store read after every step.
use std::collections::{BTreeMap, BTreeSet};

use radicle::identity::doc::Visibility;
use radicle::identity::{Did, RepoId};
use radicle::test::storage::MockStorage;
use radicle_node::prelude::{Filter, LocalDuration, Message, NodeId, Timestamp};
use radicle_node::service::gossip::Store as _;
use radicle_node::service::io::Io;
use radicle_node::service::message::{Announcement, AnnouncementMessage};
use radicle_node::service::policy::{Scope, SeedingPolicy};
use radicle_node::service::{DisconnectReason, ServiceState};
use radicle_node::{wire, Link};
use vcommon::{guarded, json, Args, Reporter, Rng, Value};

use crate::svc::{self, Remote};

fn bytes_of(a: &Announcement) -> Vec<u8> {
    wire::serialize(&Message::Announcement(a.clone()))
}

/// Own signature check: the announcer's key over the encoding of the announcement message.
fn authentic(a: &Announcement) -> bool {
    let msg = wire::serialize(&a.message);
    a.node.verify(&msg, &a.signature).is_ok()
}

fn key_of(a: &Announcement) -> (NodeId, u8, Option<RepoId>) {
    match &a.message {
        AnnouncementMessage::Node(_) => (a.node, 0, None),
        AnnouncementMessage::Inventory(_) => (a.node, 1, None),
        AnnouncementMessage::Refs(r) => (a.node, 2, Some(r.rid)),
    }
}

struct Received {
    step: usize,
    from: usize,
    now_ms: u64,
}

fn one(rep: &mut Reporter, seed: u64, thorough: bool) {
    rep.case(seed);
    let mut rng = Rng::new(seed);
    let nrem = 3 + rng.usize(3);
    // remotes[0..nrem] can connect; two more nodes only ever announce through others
    let remotes: Vec<Remote> = (0..(nrem + 2) as u8).map(Remote::new).collect();
    let local = svc::device(20, 0);
    let local_nid = *local.public_key();
    let mut inventory = vec![];
    let mut rids = vec![];
    for i in 0..2 {
        let (rid, doc) = svc::mk_doc(&format!("c10-{i}-{seed}"), &[Did::from(local_nid)], Visibility::Public);
        inventory.push((rid, doc));
        rids.push(rid);
    }
    // a repository the node does not have
    rids.push(svc::mk_doc("absent", &[Did::from(remotes[0].nid)], Visibility::Public).0);
    let storage = MockStorage::new(inventory);
    let opts = svc::NodeOpts { relay: rng.chance(9, 10), policy: SeedingPolicy::Allow { scope: Scope::All }, seed, fetch_concurrency: 1 };
    let Ok(mut node) = guarded(|| svc::mk_node(storage, &opts)) else {
        rep.inconclusive("node construction panicked", json!({}));
        return;
    };
    svc::drain(&mut node);
    let nid_index: BTreeMap<NodeId, usize> = remotes.iter().enumerate().map(|(i, r)| (r.nid, i)).collect();
    let mut connected = vec![false; nrem];
    let mut log: Vec<Value> = vec![];
    // everything ever delivered: bytes -> deliveries
    let mut delivered: BTreeMap<Vec<u8>, Vec<Received>> = BTreeMap::new();
    let mut all_anns: Vec<Announcement> = vec![];
    // valid node announcements fed so far (announcer known)
    let mut node_known: BTreeSet<NodeId> = BTreeSet::new();
    // per key: last timestamp observed in the store
    let mut store_ts: BTreeMap<(NodeId, u8, Option<RepoId>), (u64, Vec<u8>)> = BTreeMap::new();
    let mut ever_stored: BTreeSet<Vec<u8>> = BTreeSet::new();
    let mut stored_at: BTreeMap<Vec<u8>, usize> = BTreeMap::new();
    let mut last_ts: BTreeMap<(usize, u8, usize), u64> = BTreeMap::new();
    let nsteps = 25 + rng.usize(if thorough { 70 } else { 30 });
    let mut relays_seen = 0u64;
    // planned bursts: several versions of one announcer's inventory, one delivery per step, no clock
    // movement in between (so they all fall into one gossip interval)
    let mut plan: std::collections::VecDeque<(usize, usize)> = Default::default(); // (announcer, inventory size)
    // most cases start with every peer connected and known
    if rng.chance(3, 4) {
        for p in 0..nrem {
            svc::connect_inbound(&mut node, &remotes[p]);
            connected[p] = true;
            let a = remotes[p].node_announcement(svc::T0 - 10_000 + p as u64);
            delivered.entry(bytes_of(&a)).or_default().push(Received { step: 0, from: p, now_ms: svc::T0 });
            node_known.insert(a.node);
            all_anns.push(a.clone());
            node.service.received_message(remotes[p].nid, a.into());
        }
        svc::drain(&mut node);
    }

    for step in 0..nsteps {
        let now_ms = node.service.clock().as_millis() as u64;
        let forced = plan.pop_front();
        let choice = if forced.is_some() { 99 } else { rng.below(100) };
        if forced.is_none() && rng.chance(1, 12) {
            // schedule a burst for the following steps
            let x = rng.usize(remotes.len());
            let pat: &[usize] = match rng.below(5) {
                0 => &[1, 0, 0],
                1 => &[0, 0],
                2 => &[2, 0, 0, 0],
                3 => &[1, 1, 0, 0],
                _ => &[0, 1, 0, 0],
            };
            for n in pat {
                plan.push_back((x, (*n).min(rids.len())));
            }
            rep.count("fed.inventory-burst");
        }
        let mut subscriber: Option<usize> = None;
        let desc: Value;
        let res = guarded(|| -> Value {
            match choice {
                0..=5 => {
                    let p = rng.usize(nrem);
                    if !connected[p] {
                        svc::connect_inbound(&mut node, &remotes[p]);
                        connected[p] = true;
                        json!({"connect": p})
                    } else if rng.chance(1, 3) {
                        node.service.disconnected(remotes[p].nid, Link::Inbound, &DisconnectReason::Command);
                        connected[p] = false;
                        json!({"disconnect": p})
                    } else {
                        json!({"noop": 1})
                    }
                }
                6..=13 => {
                    let p = rng.usize(nrem);
                    if connected[p] {
                        subscriber = Some(p);
                        node.service.received_message(remotes[p].nid, svc::subscribe_all(if rng.bool() { 1 } else { now_ms.saturating_sub(100_000) }));
                        json!({"subscribe": p})
                    } else {
                        json!({"noop": 1})
                    }
                }
                14..=29 => {
                    svc::elapse(&mut node, LocalDuration::from_secs(1 + rng.below(20)));
                    json!({"elapse+wake": true})
                }
                _ => {
                    // deliver an announcement through a connected peer
                    let conn: Vec<usize> = (0..nrem).filter(|p| connected[*p]).collect();
                    if conn.is_empty() {
                        return json!({"noop": 1});
                    }
                    let from = *rng.pick(&conn);
                    // replay an earlier announcement (same or other deliverer)? Half of the time the most
                    // recent one, so that several peers deliver it before the next gossip tick.
                    if forced.is_none() && !all_anns.is_empty() && rng.chance(1, 3) {
                        let a = if rng.bool() { all_anns.last().unwrap().clone() } else { rng.pick(&all_anns).clone() };
                        delivered.entry(bytes_of(&a)).or_default().push(Received { step, from, now_ms });
                        if authentic(&a) && key_of(&a).1 == 0 && *a.timestamp() <= now_ms + 3_600_000 {
                            node_known.insert(a.node);
                        }
                        node.service.received_message(remotes[from].nid, a.clone().into());
                        return json!({"redeliver": {"from": from, "announcer": nid_index.get(&a.node), "ts": *a.timestamp()}});
                    }
                    let announcer = if let Some((x, _)) = forced { x } else if rng.chance(1, 2) { from } else { rng.usize(remotes.len()) };
                    let kind = if forced.is_some() { 1 } else { rng.below(3) as u8 };
                    let ridx = rng.usize(rids.len());
                    let prev = last_ts.get(&(announcer, kind, if kind == 2 { ridx } else { 0 })).copied().unwrap_or(now_ms.saturating_sub(5_000));
                    let (ts, tclass) = match if forced.is_some() { 11 } else { rng.below(12) } {
                        0 => (prev.saturating_sub(1 + rng.below(10_000)).max(1), "older"),
                        1 => (prev.max(1), "equal"),
                        2 => (now_ms + 59 * 60_000, "+59min"),
                        3 => (now_ms + 61 * 60_000, "+61min"),
                        4 => (now_ms + 3_600_000, "+60min-exactly"),
                        5 => (now_ms + 3_600_001, "+60min+1ms"),
                        6 => (now_ms.saturating_sub(2 * 3_600_000).max(1), "2h-old"),
                        _ => (prev + 1 + rng.below(3_000), "newer"),
                    };
                    let mut empty_inv = false;
                    let mut a = match kind {
                        0 => remotes[announcer].node_announcement(ts),
                        1 => {
                            // a third of the inventories are empty: a newer empty inventory of a node whose
                            // inventory is already empty is stored but changes no route (not relayed at once,
                            // only with the next gossip tick)
                            let n = if let Some((_, n)) = forced { n } else if rng.chance(1, 3) { 0 } else { 1 + rng.usize(rids.len()) };
                            if n == 0 {
                                empty_inv = true;
                            }
                            remotes[announcer].inventory_announcement(ts, &rids[..n])
                        }
                        _ => remotes[announcer].refs_announcement(ts, rids[ridx], vec![radicle::storage::refs::RefsAt { remote: remotes[announcer].nid, at: svc::oid(&mut rng) }]),
                    };
                    let sclass = match if forced.is_some() { 15 } else { rng.below(16) } {
                        0 => {
                            // forged: signed by somebody else
                            let other = (announcer + 1) % remotes.len();
                            let m = a.message.clone().signed(&remotes[other].dev);
                            a.signature = m.signature;
                            "forged-other-key"
                        }
                        1 if !all_anns.is_empty() => {
                            // valid signature of the same announcer, but over another message
                            if let Some(o) = all_anns.iter().find(|o| o.node == a.node) {
                                a.signature = o.signature;
                                "valid-for-other-message"
                            } else {
                                "valid"
                            }
                        }
                        _ => "valid",
                    };
                    if sclass == "valid" && ts > *last_ts.get(&(announcer, kind, if kind == 2 { ridx } else { 0 })).unwrap_or(&0) {
                        last_ts.insert((announcer, kind, if kind == 2 { ridx } else { 0 }), ts);
                    }
                    if sclass == "valid" && kind == 0 && ts <= now_ms + 3_600_000 {
                        node_known.insert(a.node);
                    }
                    all_anns.push(a.clone());
                    delivered.entry(bytes_of(&a)).or_default().push(Received { step, from, now_ms });
                    node.service.received_message(remotes[from].nid, a.into());
                    json!({"deliver": {"from": from, "announcer": announcer, "kind": (["node", "inventory", "refs"][kind as usize]), "empty_inventory": empty_inv, "ts": ts, "ts_class": tclass, "signature": sclass}})
                }
            }
        });
        match res {
            Ok(d) => desc = d,
            Err(p) => {
                rep.inconclusive("service panicked (C13's business)", json!({"panic": p, "log": log}));
                return;
            }
        }
        rep.eval();
        if let Some(d) = desc.get("deliver") {
            rep.count(&format!("fed.ts:{}", d["ts_class"].as_str().unwrap()));
            rep.count(&format!("fed.sig:{}", d["signature"].as_str().unwrap()));
            if d["empty_inventory"] == json!(true) {
                rep.count("fed.empty-inventory");
            }
        }
        if desc.get("redeliver").is_some() {
            rep.count("fed.redelivery");
        }
        log.push(json!({"step": step, "now_ms": now_ms, "input": desc}));
        // ---- outputs
        let outs = svc::drain(&mut node);
        for io in &outs {
            match io {
                Io::Disconnect(nid, _) => {
                    if let Some(p) = nid_index.get(nid) {
                        if *p < nrem && connected[*p] {
                            node.service.disconnected(*nid, Link::Inbound, &DisconnectReason::Command);
                            connected[*p] = false;
                        }
                    }
                }
                Io::Write(to, msgs) => {
                    let Some(pi) = nid_index.get(to).copied() else { continue };
                    for m in msgs {
                        let Message::Announcement(a) = m else { continue };
                        if a.node == local_nid {
                            continue;
                        }
                        let b = bytes_of(a);
                        let w = |extra: Value| json!({"to_peer": pi, "announcer": nid_index.get(&a.node), "kind": svc::msg_kind(m), "ts": *a.timestamp(), "detail": extra, "log": log});
                        rep.count("foreign-announcement-written");
                        // authenticity
                        let Some(recv) = delivered.get(&b) else {
                            rep.violation("C10/written-announcement-was-never-received", w(json!({})));
                            return;
                        };
                        if !authentic(a) {
                            rep.violation("C10/written-announcement-has-invalid-signature", w(json!({})));
                            return;
                        }
                        if !ever_stored.contains(&b) && subscriber != Some(pi) {
                            // relays come out of the store; (replays too, but they are read before our snapshot may see them)
                            rep.count("written-before-observed-in-store");
                        }
                        // to the announcer?
                        if a.node == *to {
                            rep.violation("C10/announcement-sent-to-its-announcer", w(json!({})));
                            return;
                        }
                        // echo: to a peer that delivered exactly this announcement earlier (replays
                        // answering the peer's own Subscribe in this very step are not relays)
                        if subscriber != Some(pi) {
                            relays_seen += 1;
                            rep.count("relays-observed");
                            if recv.len() >= 2 {
                                rep.count("relays-observed.of-multi-deliverer-announcement");
                            }
                            if recv.iter().any(|r| r.from == pi && r.step < step) {
                                // the node remembers as relayers only the peers whose delivery made it
                                // store the announcement; was this peer's delivery such a one?
                                let stored_step = stored_at.get(&b).copied();
                                let storing_delivery = recv.iter().any(|r| r.from == pi && Some(r.step) == stored_step);
                                let sig = if storing_delivery {
                                    "C10/relayed-back-to-the-peer-whose-delivery-stored-it"
                                } else {
                                    "C10/relayed-back-to-a-peer-that-delivered-it/delivery-was-not-the-one-that-stored-it"
                                };
                                rep.violation(sig, w(json!({"deliveries": recv.iter().map(|r| json!({"step": r.step, "from": r.from})).collect::<Vec<_>>(), "stored_at_step": stored_step})));
                                return;
                            }
                        } else {
                            rep.count("replays-on-subscribe-observed");
                        }
                    }
                }
                _ => {}
            }
        }
        // ---- store contents
        let stored: Vec<Announcement> = match node.service.database().gossip().filtered(&Filter::default(), Timestamp::MIN, Timestamp::MAX) {
            Ok(it) => it.filter_map(|r| r.ok()).collect(),
            Err(_) => vec![],
        };
        let mut seen_keys = BTreeSet::new();
        for a in &stored {
            if a.node == local_nid {
                continue;
            }
            let b = bytes_of(a);
            let k = key_of(a);
            let w = |extra: Value| json!({"announcer": nid_index.get(&a.node), "ts": *a.timestamp(), "detail": extra, "log": log});
            if !seen_keys.insert(k) {
                rep.violation("C10/store-holds-two-announcements-of-same-kind-and-node", w(json!({})));
                return;
            }
            let newly = ever_stored.insert(b.clone());
            if newly {
                stored_at.insert(b.clone(), step);
                rep.count("stored-announcements-observed");
                let Some(recv) = delivered.get(&b) else {
                    rep.violation("C10/stored-announcement-was-never-received", w(json!({})));
                    return;
                };
                if !authentic(a) {
                    rep.violation("C10/stored-announcement-has-invalid-signature", w(json!({})));
                    return;
                }
                // not too far in the future at (every) receipt that can have stored it
                if recv.iter().all(|r| *a.timestamp() > r.now_ms + 3_600_000) {
                    rep.violation("C10/stored-announcement-more-than-1h-in-the-future", w(json!({"receipts": recv.iter().map(|r| r.now_ms).collect::<Vec<_>>()})));
                    return;
                }
                if k.1 != 0 && !node_known.contains(&a.node) {
                    use radicle::node::address::Store as _;
                    let entry = node.service.database().addresses().get(&a.node).ok().flatten().map(|n| format!("{:?}", (n.alias, n.timestamp, n.addrs.len())));
                    rep.violation("C10/stored-inventory-or-refs-of-node-without-known-node-announcement", w(json!({"address_book_entry": entry})));
                    return;
                }
            }
            // strictly newer than what the store held before for this key
            match store_ts.get(&k) {
                Some((old_ts, old_b)) if *old_b != b => {
                    if *a.timestamp() <= *old_ts {
                        rep.violation("C10/stored-announcement-replaced-by-not-strictly-newer-one", w(json!({"previous_ts": old_ts})));
                        return;
                    }
                    rep.count("store-replacements-observed");
                }
                _ => {}
            }
            store_ts.insert(k, (*a.timestamp(), b));
        }
    }
    if relays_seen > 0 {
        rep.nontrivial(seed);
    }
    if rep.wants_sample() && relays_seen > 3 {
        rep.sample(json!({"log": log.iter().take(25).collect::<Vec<_>>(), "relays": relays_seen}));
    }
}

pub fn run(args: &Args) {
    let mut rep = Reporter::new("C10");
    if let Some(path) = &args.replay {
        let w = vcommon::load_replay(path);
        one(&mut rep, w["case_seed"].as_u64().unwrap_or(args.seed), args.thorough);
        rep.finish();
        return;
    }
    for k in 0..args.budget(6_400, 32_000) {
        one(&mut rep, args.case_seed(k), args.thorough);
    }
    rep.finish();
}
