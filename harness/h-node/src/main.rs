//! Monitors over the real node `Service` state machine and wire layer: C10 C11 C12 C13 C14 C16 C29.
mod c10;
mod c11;
mod c12;
mod c13;
mod c14;
mod c16;
mod c29;
mod svc;

#[global_allocator]
static ALLOC: vcommon::alloc::Counting = vcommon::alloc::Counting;

fn main() {
    vcommon::install_panic_hook();
    let args = vcommon::Args::parse();
    match args.prop.as_str() {
        "C10" => c10::run(&args),
        "C11" => c11::run(&args),
        "C12" => c12::run(&args),
        "C13" => c13::run(&args),
        "C14" => c14::run(&args),
        "C16" => c16::run(&args),
        "C29" => c29::run(&args),
        p => {
            eprintln!("h-node: unknown property {p}");
            std::process::exit(2);
        }
    }
}
