//! C16 — At most one fetch per repository, attributed to the right peer.
//!
//! The harness plays the wire layer and the worker pool, mirroring `Wire::worker_result`: every
//! `Io::Fetch` becomes a task tagged with the connection epoch of its peer; a task's result may be
//! delivered at any later step and is forwarded to `Service::fetched` iff a connection to that
//! peer exists at that moment (possibly a newer one). Results carry a marker unique to their task.
use std::collections::BTreeMap;

use radicle::identity::doc::{DocAt, Visibility};
use radicle::identity::{Did, RepoId};
use radicle::node::FetchResult as UserFetchResult;
use radicle::storage::RefUpdate;
use radicle::test::storage::MockStorage;
use radicle_node::prelude::{LocalDuration, NodeId};
use radicle_node::service::io::Io;
use radicle_node::service::policy::{Scope, SeedingPolicy};
use radicle_node::service::{Command, DisconnectReason, ServiceState};
use radicle_node::worker::fetch::FetchResult;
use radicle_node::worker::FetchError;
use radicle_node::Link;
use vcommon::{guarded, json, Args, Reporter, Rng, Value};

use crate::svc::{self, Node, Remote};

#[derive(Clone, Copy, Debug, PartialEq, Eq)]
enum Ev {
    Connect(usize),       // inbound
    ConnectOut(usize),    // outbound (command + attempted + connected)
    Disconnect(usize),
    /// the wire reports the end of the *other* connection of a connection crossing (link != the session's
    /// link, reason `Conflict`): the session stays connected
    DisconnectOtherLink(usize),
    FetchCmd(usize, usize), // (repo, peer)
    RefsAnn(usize, usize),  // (repo, announcer = deliverer)
    InvAnn(usize),
    Deliver(usize, u8),     // (k-th pending task, 0 ok / 1 err / 2 timeout)
    Wake,
}

#[derive(Clone, Debug)]
struct Task {
    id: usize,
    rid: usize,
    peer: usize,
    epoch: u32,
    answered: bool,
    created_step: usize,
}

struct Sub {
    rid: usize,
    peer: usize,
    epoch: u32,
    step: usize,
    rx: crossbeam_channel::Receiver<UserFetchResult>,
}

struct Env {
    node: Node,
    remotes: Vec<Remote>,
    rids: Vec<RepoId>,
    docs: Vec<DocAt>,
    connected: Vec<bool>,
    link: Vec<Link>,
    epoch: Vec<u32>,
    tasks: Vec<Task>,
    subs: Vec<Sub>,
    ts: u64,
    step: usize,
    late_result_delivered: bool,
    late_rids: std::collections::BTreeSet<usize>,
    late_peers: std::collections::BTreeSet<usize>,
    delivering_late: bool,
    log: Vec<Value>,
    concurrency: usize,
}

fn mk_env(seed: u64, npeers: usize, nrepos: usize, concurrency: usize) -> Env {
    let remotes: Vec<Remote> = (0..npeers as u8).map(Remote::new).collect();
    let mut rids = vec![];
    let mut docs = vec![];
    for i in 0..nrepos {
        let (rid, doc) = svc::mk_doc(&format!("c16-{i}"), &[Did::from(remotes[0].nid)], Visibility::Public);
        rids.push(rid);
        docs.push(doc);
    }
    let storage = MockStorage::empty();
    let opts = svc::NodeOpts { relay: true, policy: SeedingPolicy::Allow { scope: Scope::All }, seed, fetch_concurrency: concurrency };
    let node = svc::mk_node(storage, &opts);
    Env {
        node, remotes, rids, docs, connected: vec![false; npeers], link: vec![Link::Inbound; npeers], epoch: vec![0; npeers],
        tasks: vec![], subs: vec![], ts: svc::T0 + 10, step: 0, late_result_delivered: false, late_rids: Default::default(), late_peers: Default::default(), delivering_late: false, log: vec![], concurrency,
    }
}

impl Env {
    fn pending(&self) -> Vec<usize> {
        self.tasks.iter().filter(|t| !t.answered).map(|t| t.id).collect()
    }
    fn live(&self, t: &Task) -> bool {
        !t.answered && self.connected[t.peer] && self.epoch[t.peer] == t.epoch
    }
    fn enabled(&self, ev: &Ev) -> bool {
        match ev {
            Ev::Connect(p) | Ev::ConnectOut(p) => !self.connected[*p],
            Ev::Disconnect(p) | Ev::DisconnectOtherLink(p) => self.connected[*p],
            Ev::FetchCmd(_, _) => true,
            Ev::RefsAnn(_, p) | Ev::InvAnn(p) => self.connected[*p],
            Ev::Deliver(k, _) => *k < self.pending().len(),
            Ev::Wake => true,
        }
    }

    /// Apply one event to the real service. Returns Err(panic message) if the service panicked.
    fn apply(&mut self, ev: &Ev, rng: &mut Rng) -> Result<(), String> {
        self.step += 1;
        self.delivering_late = false;
        self.ts += 1000;
        let ts = self.ts;
        let desc = format!("{ev:?}");
        let r = guarded(|| match *ev {
            Ev::Connect(p) => {
                self.node.service.connected(self.remotes[p].nid, self.remotes[p].addr.clone(), Link::Inbound);
                self.connected[p] = true;
                self.link[p] = Link::Inbound;
                self.epoch[p] += 1;
                self.node.service.received_message(self.remotes[p].nid, self.remotes[p].node_announcement(ts).into());
            }
            Ev::ConnectOut(p) => {
                self.node.service.command(Command::Connect(self.remotes[p].nid, self.remotes[p].addr.clone(), radicle::node::ConnectOptions::default()));
                // the wire only reports an attempt/connection for a dial the service asked for
                let dialed = svc::drain(&mut self.node).iter().any(|io| matches!(io, Io::Connect(n, _) if *n == self.remotes[p].nid));
                if dialed {
                    self.node.service.attempted(self.remotes[p].nid, self.remotes[p].addr.clone());
                    self.node.service.connected(self.remotes[p].nid, self.remotes[p].addr.clone(), Link::Outbound);
                    self.connected[p] = true;
                    self.link[p] = Link::Outbound;
                    self.epoch[p] += 1;
                    self.node.service.received_message(self.remotes[p].nid, self.remotes[p].node_announcement(ts).into());
                }
            }
            Ev::Disconnect(p) => {
                self.node.service.disconnected(self.remotes[p].nid, self.link[p], &DisconnectReason::Command);
                self.connected[p] = false;
            }
            Ev::DisconnectOtherLink(p) => {
                let other = if self.link[p] == Link::Inbound { Link::Outbound } else { Link::Inbound };
                self.node.service.disconnected(self.remotes[p].nid, other, &DisconnectReason::Conflict);
            }
            Ev::FetchCmd(r, p) => {
                let (tx, rx) = crossbeam_channel::unbounded();
                self.subs.push(Sub { rid: r, peer: p, epoch: self.epoch[p], step: self.step, rx });
                self.node.service.command(Command::Fetch(self.rids[r], self.remotes[p].nid, std::time::Duration::from_secs(3), tx));
            }
            Ev::RefsAnn(r, p) => {
                let refs_at = radicle::storage::refs::RefsAt { remote: self.remotes[p].nid, at: svc::oid(rng) };
                let ann = self.remotes[p].refs_announcement(ts, self.rids[r], vec![refs_at]);
                self.node.service.received_message(self.remotes[p].nid, ann.into());
            }
            Ev::InvAnn(p) => {
                let ann = self.remotes[p].inventory_announcement(ts, &self.rids);
                self.node.service.received_message(self.remotes[p].nid, ann.into());
            }
            Ev::Deliver(k, how) => {
                let id = self.pending()[k];
                let t = self.tasks[id].clone();
                self.tasks[id].answered = true;
                // Wire::worker_result: looked up by node id only; forwarded iff connected now
                if self.connected[t.peer] {
                    if self.epoch[t.peer] != t.epoch {
                        self.late_result_delivered = true;
                        self.late_rids.insert(t.rid);
                        self.late_peers.insert(t.peer);
                        self.delivering_late = true;
                    }
                    let result = match how {
                        0 => Ok(FetchResult {
                            updated: vec![RefUpdate::Created { name: radicle::git::RefString::try_from(format!("refs/heads/task-{}", t.id)).unwrap(), oid: svc::oid(rng) }],
                            namespaces: [self.remotes[t.peer].nid].into_iter().collect(),
                            clone: false,
                            doc: self.docs[t.rid].clone(),
                        }),
                        1 => Err(FetchError::Io(std::io::Error::new(std::io::ErrorKind::Other, format!("task-{}", t.id)))),
                        _ => Err(FetchError::Io(std::io::Error::new(std::io::ErrorKind::TimedOut, format!("task-{}", t.id)))),
                    };
                    self.node.service.fetched(self.rids[t.rid], self.remotes[t.peer].nid, result);
                }
            }
            Ev::Wake => {
                svc::elapse(&mut self.node, LocalDuration::from_secs(31));
            }
        });
        self.log.push(json!({"step": self.step, "event": desc}));
        r
    }

    /// Drain outputs into tasks; returns Io::Disconnect requests.
    fn absorb_outputs(&mut self) -> Vec<usize> {
        let mut disc = vec![];
        for io in svc::drain(&mut self.node) {
            match io {
                Io::Fetch { rid, remote, .. } => {
                    let r = self.rids.iter().position(|x| *x == rid);
                    let p = self.remotes.iter().position(|x| x.nid == remote);
                    if let (Some(r), Some(p)) = (r, p) {
                        if self.connected[p] {
                            let id = self.tasks.len();
                            self.tasks.push(Task { id, rid: r, peer: p, epoch: self.epoch[p], answered: false, created_step: self.step });
                            self.log.push(json!({"step": self.step, "output": format!("Io::Fetch repo {r} from peer {p} -> task {id} (epoch {})", self.epoch[p])}));
                        }
                    }
                }
                Io::Disconnect(nid, _) => {
                    if let Some(p) = self.remotes.iter().position(|x| x.nid == nid) {
                        disc.push(p);
                    }
                }
                _ => {}
            }
        }
        disc
    }

    fn witness(&self, extra: Value) -> Value {
        json!({"detail": extra, "log": self.log, "fetch_concurrency": self.concurrency,
               "tasks": self.tasks.iter().map(|t| json!({"id": t.id, "repo": t.rid, "peer": t.peer, "epoch": t.epoch, "answered": t.answered, "created_step": t.created_step})).collect::<Vec<_>>()})
    }

    /// The monitors. Returns false when a violation was reported.
    fn check(&mut self, rep: &mut Reporter) -> bool {
        const LATE: &str = "/after-late-result-of-previous-connection";
        // M1: at most one live task per repository
        for r in 0..self.rids.len() {
            let live: Vec<usize> = self.tasks.iter().filter(|t| t.rid == r && self.live(t)).map(|t| t.id).collect();
            if live.len() > 1 {
                let suffix = if self.late_rids.contains(&r) { LATE } else { "" };
                rep.violation(&format!("C16/two-fetches-of-one-repository-in-flight{suffix}"), self.witness(json!({"repo": r, "live_tasks": live})));
                return false;
            }
        }
        // M2: per-peer concurrency
        for p in 0..self.remotes.len() {
            let live = self.tasks.iter().filter(|t| t.peer == p && self.live(t)).count();
            if live > self.concurrency {
                let suffix = if self.late_peers.contains(&p) { LATE } else { "" };
                rep.violation(&format!("C16/per-peer-fetch-concurrency-exceeded{suffix}"), self.witness(json!({"peer": p, "live": live})));
                return false;
            }
            if let Some(s) = self.node.service.sessions().get(&self.remotes[p].nid) {
                rep.max("queue-length", s.queue.len() as u64);
                if s.queue.len() > 128 {
                    rep.violation("C16/fetch-queue-capacity-exceeded", self.witness(json!({"peer": p, "queue": s.queue.len()})));
                    return false;
                }
            }
        }
        // M6: a live task keeps its fetch-state entry
        for t in self.tasks.iter().filter(|t| self.live(t)) {
            match self.node.service.fetching().get(&self.rids[t.rid]) {
                Some(f) if f.from == self.remotes[t.peer].nid => {}
                other => {
                    let suffix = if self.late_rids.contains(&t.rid) { LATE } else { "" };
                    rep.violation(&format!("C16/fetch-state-of-running-fetch-lost-or-attributed-to-other-peer{suffix}"), self.witness(json!({"task": t.id, "state_from": other.map(|f| f.from.to_string())})));
                    return false;
                }
            }
        }
        // M5: results on subscriber channels belong to a task of this peer/repo from the command's
        // own connection epoch or later
        for s in &self.subs {
            while let Ok(res) = s.rx.try_recv() {
                let marker: Option<usize> = match &res {
                    UserFetchResult::Success { updated, .. } => updated.iter().find_map(|u| match u {
                        RefUpdate::Created { name, .. } => name.as_str().strip_prefix("refs/heads/task-").and_then(|n| n.parse().ok()),
                        _ => None,
                    }),
                    UserFetchResult::Failed { reason } => reason.rsplit("task-").next().filter(|_| reason.contains("task-")).and_then(|n| n.trim().parse().ok()),
                };
                rep.count("subscriber-results-observed");
                if let Some(id) = marker {
                    let t = &self.tasks[id];
                    if t.rid != s.rid || t.peer != s.peer {
                        rep.violation("C16/subscriber-received-result-of-fetch-for-other-repo-or-peer", self.witness(json!({"command_step": s.step, "task": id})));
                        return false;
                    }
                    if t.epoch < s.epoch {
                        rep.violation("C16/subscriber-received-result-of-task-from-previous-connection", self.witness(json!({"command_step": s.step, "command_epoch": s.epoch, "task": id, "task_epoch": t.epoch})));
                        return false;
                    }
                }
            }
        }
        true
    }
}

fn alphabet(npeers: usize, nrepos: usize, reduced: bool) -> Vec<Ev> {
    let mut a = vec![];
    for p in 0..npeers {
        a.push(Ev::Connect(p));
        a.push(Ev::Disconnect(p));
        if !reduced {
            a.push(Ev::ConnectOut(p));
            a.push(Ev::InvAnn(p));
            a.push(Ev::DisconnectOtherLink(p));
        }
        for r in 0..nrepos {
            a.push(Ev::FetchCmd(r, p));
            if !reduced || p == 0 {
                a.push(Ev::RefsAnn(r, p));
            }
        }
    }
    a.push(Ev::Deliver(0, 0));
    a.push(Ev::Deliver(1, 1));
    if !reduced {
        a.push(Ev::Deliver(0, 2));
        a.push(Ev::Deliver(2, 0));
        a.push(Ev::Wake);
    }
    a
}

/// Run one schedule on a fresh service.
fn run_schedule(rep: &mut Reporter, seed: u64, npeers: usize, nrepos: usize, concurrency: usize, sched: &[Ev], rng: &mut Rng) {
    let Ok(mut env) = guarded(|| mk_env(seed, npeers, nrepos, concurrency)) else {
        rep.inconclusive("node construction panicked", json!({}));
        return;
    };
    svc::drain(&mut env.node);
    rep.eval();
    let mut applied = 0;
    let mut reconnect_between_fetch_and_result = false;
    for ev in sched {
        if !env.enabled(ev) {
            continue;
        }
        applied += 1;
        if let Ev::Deliver(k, _) = ev {
            let id = env.pending()[*k];
            let t = &env.tasks[id];
            if env.connected[t.peer] && env.epoch[t.peer] != t.epoch {
                reconnect_between_fetch_and_result = true;
            }
        }
        if let Err(p) = env.apply(ev, rng) {
            let shape = if env.delivering_late { "/while-applying-late-result-of-previous-connection" } else { "" };
            rep.violation(&format!("C16/panic/{}{shape}", vcommon::panic_site(&p)), env.witness(json!({"panic": p})));
            return;
        }
        // honour Io::Disconnect requests right away
        let disc = env.absorb_outputs();
        for p in disc {
            if env.connected[p] {
                let link = env.link[p];
                if guarded(|| env.node.service.disconnected(env.remotes[p].nid, link, &DisconnectReason::Command)).is_err() {
                    rep.violation("C16/panic/in-disconnected", env.witness(json!({})));
                    return;
                }
                env.connected[p] = false;
                env.log.push(json!({"step": env.step, "event": format!("(Io::Disconnect honoured for peer {p})")}));
                env.absorb_outputs();
            }
        }
        if !env.check(rep) {
            return;
        }
    }
    rep.add("events-applied", applied);
    if reconnect_between_fetch_and_result {
        rep.count("schedules.result-delivered-after-disconnect-and-reconnect");
    }
    if env.tasks.len() >= 2 {
        rep.count("schedules.with-two-or-more-fetch-tasks");
    }
    let h = vcommon::fnv(format!("{:?}", env.log).as_bytes());
    if env.tasks.len() >= 1 {
        rep.nontrivial(h);
    }
    if rep.wants_sample() && reconnect_between_fetch_and_result {
        rep.sample(env.witness(json!({})));
    }
}

pub fn run(args: &Args) {
    let mut rep = Reporter::new("C16");
    let mut rng = Rng::new(vcommon::mix(args.seed, "C16", args.shard));
    if let Some(path) = &args.replay {
        let w = vcommon::load_replay(path);
        // replay the logged events by name
        let evs: Vec<Ev> = w["log"].as_array().unwrap().iter().filter_map(|l| l["event"].as_str()).filter_map(parse_ev).collect();
        let conc = w["fetch_concurrency"].as_u64().unwrap_or(1) as usize;
        run_schedule(&mut rep, args.seed, 3, 2, conc, &evs, &mut rng);
        rep.finish();
        return;
    }
    // systematic: all sequences over the reduced alphabet up to depth D (enabled-ness filters at run time)
    let depth = if args.thorough { 6 } else { 5 };
    let alpha = alphabet(2, 1, true);
    let total = (alpha.len() as u64).pow(depth as u32);
    let mut idx = 0u64;
    let mut sys = 0u64;
    while idx < total {
        if idx % args.shards == args.shard {
            let mut code = idx;
            let mut sched = vec![];
            for _ in 0..depth {
                sched.push(alpha[(code % alpha.len() as u64) as usize]);
                code /= alpha.len() as u64;
            }
            // prune: sequences whose first event is not enabled in the initial state are duplicates
            if matches!(sched[0], Ev::Connect(_) | Ev::FetchCmd(_, _)) {
                run_schedule(&mut rep, args.seed, 2, 1, 1, &sched, &mut rng);
                sys += 1;
            }
        }
        idx += 1;
    }
    rep.add("systematic.schedules", sys);
    rep.max("systematic.depth", depth as u64);
    // random schedules
    let n = args.budget(24_000, 120_000);
    for k in 0..n {
        let mut r = Rng::new(args.case_seed(k));
        let npeers = 2 + r.usize(2);
        let nrepos = 1 + r.usize(2);
        let conc = 1 + r.usize(2);
        let alpha = alphabet(npeers, nrepos, false);
        let len = 10 + r.usize(21);
        let mut sched: Vec<Ev> = vec![];
        if r.chance(1, 3) {
            // aim at the dangerous region: a fetch, then disconnect and reconnect of its peer
            let p = r.usize(npeers);
            let q = r.usize(npeers);
            let rr = r.usize(nrepos);
            sched.extend([Ev::Connect(p), Ev::Connect(q), Ev::FetchCmd(rr, p), Ev::Disconnect(p), Ev::Connect(p)]);
            sched.push(if r.bool() { Ev::FetchCmd(rr, if r.bool() { p } else { q }) } else { Ev::RefsAnn(rr, p) });
        }
        sched.extend((0..len).map(|_| *r.pick(&alpha)));
        run_schedule(&mut rep, args.case_seed(k), npeers, nrepos, conc, &sched, &mut r);
        rep.count("random.schedules");
    }
    rep.finish();
}

fn parse_ev(s: &str) -> Option<Ev> {
    let s = s.trim();
    let nums: Vec<usize> = s.split(|c: char| !c.is_ascii_digit()).filter(|x| !x.is_empty()).filter_map(|x| x.parse().ok()).collect();
    if s.starts_with("ConnectOut") { Some(Ev::ConnectOut(nums[0])) }
    else if s.starts_with("Connect") { Some(Ev::Connect(nums[0])) }
    else if s.starts_with("DisconnectOtherLink") { Some(Ev::DisconnectOtherLink(nums[0])) }
    else if s.starts_with("Disconnect") { Some(Ev::Disconnect(nums[0])) }
    else if s.starts_with("FetchCmd") { Some(Ev::FetchCmd(nums[0], nums[1])) }
    else if s.starts_with("RefsAnn") { Some(Ev::RefsAnn(nums[0], nums[1])) }
    else if s.starts_with("InvAnn") { Some(Ev::InvAnn(nums[0])) }
    else if s.starts_with("Deliver") { Some(Ev::Deliver(nums[0], nums[1] as u8)) }
    else if s.starts_with("Wake") { Some(Ev::Wake) }
    else { None }
}

#[allow(dead_code)]
fn _unused(_: BTreeMap<u8, u8>, _: NodeId) {}
