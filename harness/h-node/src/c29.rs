//! C29 — Node-signed announcement timestamps strictly increase.
//!
//! Every distinct announcement signed by the local key is collected from the outbox and from the
//! gossip store after each step. Creation order is bounded soundly: an announcement was created no
//! later than the step it first surfaced; refs announcements are created in the step they surface;
//! the cached inventory announcement may have been created at the last `initialize()`; the node
//! announcement handed to `Service::new` is created by the environment and exempt.
use std::collections::{BTreeMap, BTreeSet};

use radicle::identity::doc::Visibility;
use radicle::identity::{Did, RepoId};
use radicle::storage::RefUpdate;
use radicle::test::storage::MockStorage;
use radicle_node::prelude::{Filter, LocalDuration, LocalTime, Message, NodeId, Timestamp};
use radicle_node::service::gossip::Store as _;
use radicle_node::service::io::Io;
use radicle_node::service::message::{Announcement, AnnouncementMessage};
use radicle_node::service::policy::{Scope, SeedingPolicy};
use radicle_node::service::{Command, DisconnectReason, Metrics, ServiceState};
use radicle_node::worker::fetch::FetchResult;
use radicle_node::{wire, Link};
use vcommon::{guarded, json, Args, Reporter, Rng, Value};

use crate::svc::{self, Remote};

#[derive(Clone)]
struct Seen {
    first_step: usize,
    created_not_before: usize,
    ts: u64,
    kind: &'static str,
    rid: Option<RepoId>,
}

fn one(rep: &mut Reporter, seed: u64, thorough: bool) {
    rep.case(seed);
    let mut rng = Rng::new(seed);
    let nrem = 2 + rng.usize(3);
    let remotes: Vec<Remote> = (0..nrem as u8).map(Remote::new).collect();
    let local = svc::device(20, 0);
    let local_nid: NodeId = *local.public_key();
    let nrepos = 2 + rng.usize(3);
    let mut inventory = vec![];
    let mut rids = vec![];
    let mut docs = vec![];
    for i in 0..nrepos {
        let (rid, doc) = svc::mk_doc(&format!("c29-{i}-{seed}"), &[Did::from(local_nid)], Visibility::Public);
        inventory.push((rid, doc.clone()));
        rids.push(rid);
        docs.push(doc);
    }
    let storage = MockStorage::new(inventory);
    let opts = svc::NodeOpts { relay: true, policy: SeedingPolicy::Allow { scope: Scope::All }, seed, fetch_concurrency: 2 };
    let Ok(mut node) = guarded(|| svc::mk_node(storage, &opts)) else {
        rep.inconclusive("node construction panicked", json!({}));
        return;
    };
    for rid in &rids {
        svc::install_refs(&mut node, rid, &local, &mut rng);
        for r in &remotes {
            svc::install_refs(&mut node, rid, &r.dev, &mut rng);
        }
    }
    let mut seen: BTreeMap<Vec<u8>, Seen> = BTreeMap::new();
    let mut order: Vec<Vec<u8>> = vec![];
    let mut log: Vec<Value> = vec![];
    let mut connected = vec![false; nrem];
    let mut last_init_step = 0usize;
    let mut clock_ms = svc::T0;
    let mut stalled_or_backwards_since_last = false;
    let mut fetching: Vec<(RepoId, usize)> = vec![];
    let nsteps = 30 + rng.usize(if thorough { 70 } else { 30 });
    let mut produced_while_stalled = 0u64;
    let metrics = Metrics::default();

    for step in 0..=nsteps {
        let desc: Value = if step == 0 {
            json!({"initial": true})
        } else {
            let choice = rng.below(100);
            let r = guarded(|| -> Value {
                match choice {
                    0..=19 => {
                        // clock: forward / equal / backward
                        let (t, class) = match rng.below(4) {
                            0 => (clock_ms, "equal"),
                            1 => (clock_ms.saturating_sub(1 + rng.below(100_000)), "backward"),
                            _ => (clock_ms + 1 + rng.below(20_000), "forward"),
                        };
                        node.service.tick(LocalTime::from_millis(t as u128), &metrics);
                        node.service.wake();
                        if class != "forward" {
                            stalled_or_backwards_since_last = true;
                        } else {
                            clock_ms = t;
                        }
                        json!({"tick+wake": t, "class": class})
                    }
                    20..=27 => {
                        // restart: initialize with a time that may be earlier than the clock
                        // (the same Service object is only ever re-initialised at its current clock or
                        // later; a real restart with an earlier wall clock creates a fresh Service)
                        let (t, class) = match rng.below(2) {
                            0 => (clock_ms, "equal"),
                            _ => (clock_ms + 1 + rng.below(10_000), "forward"),
                        };
                        let _ = node.service.initialize(LocalTime::from_millis(t as u128));
                        clock_ms = t;
                        if class != "forward" {
                            stalled_or_backwards_since_last = true;
                        }
                        json!({"restart(initialize)": t, "class": class})
                    }
                    28..=39 => {
                        let p = rng.usize(nrem);
                        if !connected[p] {
                            svc::connect_inbound(&mut node, &remotes[p]);
                            node.service.received_message(remotes[p].nid, remotes[p].node_announcement(clock_ms).into());
                            node.service.received_message(remotes[p].nid, svc::subscribe_all(1));
                            connected[p] = true;
                            json!({"connect+subscribe": p})
                        } else {
                            node.service.disconnected(remotes[p].nid, Link::Inbound, &DisconnectReason::Command);
                            connected[p] = false;
                            fetching.retain(|(_, q)| *q != p);
                            json!({"disconnect": p})
                        }
                    }
                    40..=59 => {
                        let k = rng.usize(rids.len());
                        let (tx, _rx) = crossbeam_channel::bounded(1);
                        node.service.command(Command::AnnounceRefs(rids[k], tx));
                        json!({"announce_refs": k})
                    }
                    60..=69 => {
                        let k = rng.usize(rids.len());
                        let (tx, _rx) = crossbeam_channel::bounded(1);
                        if rng.bool() {
                            node.service.command(Command::AddInventory(rids[k], tx));
                            json!({"add_inventory": k})
                        } else {
                            node.service.command(Command::Unseed(rids[k], tx));
                            json!({"unseed": k})
                        }
                    }
                    70..=77 => {
                        let k = rng.usize(rids.len());
                        let (tx, _rx) = crossbeam_channel::bounded(1);
                        node.service.command(Command::Seed(rids[k], Scope::All, tx));
                        json!({"seed": k})
                    }
                    78..=89 => {
                        // start a fetch from a connected peer
                        let conn: Vec<usize> = (0..nrem).filter(|p| connected[*p]).collect();
                        if conn.is_empty() {
                            return json!({"noop": 1});
                        }
                        let p = *rng.pick(&conn);
                        let k = rng.usize(rids.len());
                        let (tx, _rx) = crossbeam_channel::bounded(4);
                        node.service.command(Command::Fetch(rids[k], remotes[p].nid, std::time::Duration::from_secs(3), tx));
                        json!({"fetch_command": {"repo": k, "from": p}})
                    }
                    _ => {
                        // deliver a successful result for a fetch the service started
                        if fetching.is_empty() {
                            return json!({"noop": 1});
                        }
                        let (rid, p) = fetching.remove(rng.usize(fetching.len()));
                        let k = rids.iter().position(|r| *r == rid).unwrap();
                        let name = radicle::git::refname!("refs/heads/master");
                        let res = FetchResult {
                            updated: vec![RefUpdate::Updated { name, old: svc::oid(&mut rng), new: svc::oid(&mut rng) }],
                            namespaces: [remotes[p].nid].into_iter().collect(),
                            clone: rng.bool(),
                            doc: docs[k].clone(),
                        };
                        node.service.fetched(rid, remotes[p].nid, Ok(res));
                        json!({"fetched_ok": {"repo": k, "from": p}})
                    }
                }
            });
            match r {
                Ok(d) => d,
                Err(p) => {
                    rep.inconclusive("service panicked (not a C29 verdict)", json!({"panic": p, "log": log}));
                    return;
                }
            }
        };
        if desc.get("restart(initialize)").is_some() {
            last_init_step = step;
        }
        log.push(json!({"step": step, "input": desc}));
        rep.eval();
        // ---- observe own announcements: outbox, then store
        let mut own: Vec<Announcement> = vec![];
        for io in svc::drain(&mut node) {
            match io {
                Io::Write(_, msgs) => {
                    for m in msgs {
                        if let Message::Announcement(a) = m {
                            if a.node == local_nid {
                                own.push(a);
                            }
                        }
                    }
                }
                Io::Fetch { rid, remote, .. } => {
                    if let Some(p) = remotes.iter().position(|r| r.nid == remote) {
                        fetching.push((rid, p));
                    }
                }
                _ => {}
            }
        }
        if let Ok(it) = node.service.database().gossip().filtered(&Filter::default(), Timestamp::MIN, Timestamp::MAX) {
            own.extend(it.filter_map(|r| r.ok()).filter(|a| a.node == local_nid));
        }
        for a in own {
            let b = wire::serialize(&a.message);
            if seen.contains_key(&b) {
                continue;
            }
            let (kind, rid) = match &a.message {
                AnnouncementMessage::Node(_) => ("node", None),
                AnnouncementMessage::Inventory(_) => ("inventory", None),
                AnnouncementMessage::Refs(r) => ("refs", Some(r.rid)),
            };
            let ts = *a.timestamp();
            let created_not_before = if kind == "inventory" { last_init_step.min(step) } else { step };
            let me = Seen { first_step: step, created_not_before, ts, kind, rid };
            if kind != "node" {
                rep.count("own-announcements-observed");
                if stalled_or_backwards_since_last {
                    rep.count("own-announcements-observed.after-clock-stalled-or-went-back");
                    produced_while_stalled += 1;
                }
                for prev_b in &order {
                    let p = &seen[prev_b];
                    if p.kind == "node" {
                        continue;
                    }
                    let w = || json!({"new": {"kind": kind, "ts": ts, "first_seen_step": step}, "earlier": {"kind": p.kind, "ts": p.ts, "first_seen_step": p.first_step}, "log": log});
                    // strong clause: p certainly created before `me`
                    if p.first_step < me.created_not_before && ts <= p.ts {
                        rep.violation("C29/later-created-announcement-has-timestamp-not-greater", w());
                        return;
                    }
                    // attribution-free clauses
                    if ts == p.ts {
                        rep.violation("C29/two-distinct-own-announcements-share-a-timestamp", w());
                        return;
                    }
                    if p.kind == kind && p.rid == rid && ts < p.ts {
                        rep.violation("C29/timestamp-of-same-kind-and-repo-went-backwards", w());
                        return;
                    }
                }
            }
            seen.insert(b.clone(), me);
            order.push(b);
        }
        if desc.get("tick+wake").map(|_| desc["class"] == "forward").unwrap_or(false) {
            stalled_or_backwards_since_last = false;
        }
    }
    let _ = BTreeSet::<u8>::new();
    if order.len() >= 4 {
        rep.nontrivial(seed);
    }
    if rep.wants_sample() && produced_while_stalled > 2 {
        rep.sample(json!({"log": log.iter().take(30).collect::<Vec<_>>(), "own_announcement_timestamps_in_observation_order": order.iter().map(|b| json!([seen[b].kind, seen[b].ts])).collect::<Vec<_>>()}));
    }
}

pub fn run(args: &Args) {
    let mut rep = Reporter::new("C29");
    if let Some(path) = &args.replay {
        let w = vcommon::load_replay(path);
        one(&mut rep, w["case_seed"].as_u64().unwrap_or(args.seed), args.thorough);
        rep.finish();
        return;
    }
    for k in 0..args.budget(3_200, 9_600) {
        one(&mut rep, args.case_seed(k), args.thorough);
    }
    rep.finish();
}
