//! C30 — Unified diffs round-trip through their text encoding.
//!
//! Statement: for any diff git computes between two trees of text files that end with a newline,
//! encoding it as unified-diff text (`radicle_cli::git::unified_diff::Encode`) and decoding that
//! text (`Decode for Diff`) yields the same files, change kinds and hunks (headers and lines).
//!
//! Workload: a pair of small trees is generated (ground truth = the file contents), written into a
//! scratch bare repository with git2, diffed tree-to-tree with exactly the options the CLI uses
//! (`rad diff`: patience+minimal+context U, find_similar{exact_match_only, all}; `rad patch
//! review`: the same plus copies(false)), converted with `radicle_surf::diff::Diff::try_from`,
//! encoded, decoded, and compared structurally by this file's own comparison (not `PartialEq` of
//! `Diff`: blob ids are abbreviated by the encoder and are not part of the statement).
//!
//! Reading of the statement (rule 1):
//! * compared: number and order of files, change kind, path(s), per file the hunk list, per hunk
//!   the header bytes (including the optional text after the second `@@`), the old/new ranges, and
//!   per line its kind, its bytes (including trailing blanks and the newline) and its line numbers;
//! * NOT compared: blob ids, file modes, stats, `DiffContent::Plain{hunks:[]}` vs `Empty`;
//! * excluded, never handed to the encoder: diffs containing a binary file, a file without trailing
//!   newline (the generator never makes one; seeing one is a harness error => inconclusive), a
//!   `Copied` entry (`FileHeader::Copied => todo!()`, same "marked unimplemented" class as binary;
//!   only reachable with `rad diff`'s find options) — such cases are counted as `excluded:*`;
//! * never generated: empty files (they do not "end with a newline"), symlinks,
//!   submodules, path names that git would quote (the encoder documents them as TODO), non-UTF-8
//!   contents.
//!
//! Secondary clauses (own signatures): `encode(decode(text)) == text`; and per file the content
//! level `DiffContent::parse(content.to_unified_string())` (heartwood's own hunk/line decoder) keeps
//! hunk count, header numbers + text and every line's kind, bytes and numbers, and re-encodes to the
//! same text. When (and only when) the real decoder rejects the text, an own reader of the git file
//! headers in the text still checks kinds, paths and hunk counts (`C30/undecodable-text/*`), so that
//! a decode failure does not hide a wrong header.
use std::collections::{BTreeMap, BTreeSet};

use radicle::git::raw as git2;
use radicle_cli::git::unified_diff::{Decode, Encode};
use radicle_surf::diff::{Diff, DiffContent, FileDiff, Hunk, Modification};
use vcommon::{fnv, guarded, json, Args, Reporter, Rng, Value};

// ---------------------------------------------------------------------------------------------
// Case

#[derive(Clone, Debug, PartialEq)]
struct FileSpec {
    content: String,
    exec: bool,
}

type Tree = BTreeMap<String, FileSpec>;

#[derive(Clone, Copy, Debug, PartialEq)]
enum Find {
    /// `rad diff`: exact_match_only(true).all(true)
    RadDiff,
    /// `rad patch review`: exact_match_only(true).all(true).copies(false)
    Review,
}

#[derive(Clone, Debug)]
struct Case {
    old: Tree,
    new: Tree,
    context: u32,
    find: Find,
}

fn tree_json(t: &Tree) -> Value {
    Value::Array(
        t.iter()
            .map(|(p, f)| json!({"path": p, "content": f.content, "exec": f.exec}))
            .collect(),
    )
}

fn tree_from_json(v: &Value) -> Tree {
    v.as_array()
        .expect("tree array")
        .iter()
        .map(|e| {
            (
                e["path"].as_str().expect("path").to_string(),
                FileSpec { content: e["content"].as_str().expect("content").to_string(), exec: e["exec"].as_bool().unwrap_or(false) },
            )
        })
        .collect()
}

impl Case {
    fn json(&self) -> Value {
        json!({
            "old": tree_json(&self.old),
            "new": tree_json(&self.new),
            "context": self.context,
            "find": match self.find { Find::RadDiff => "rad-diff", Find::Review => "review" },
        })
    }
    fn from_json(v: &Value) -> Case {
        Case {
            old: tree_from_json(&v["old"]),
            new: tree_from_json(&v["new"]),
            context: v["context"].as_u64().unwrap_or(3) as u32,
            find: if v["find"].as_str() == Some("rad-diff") { Find::RadDiff } else { Find::Review },
        }
    }
}

// ---------------------------------------------------------------------------------------------
// Generator

// directory names and file names are disjoint, so a path component is never both
const DIRS: &[&str] = &["", "", "", "src/", "src/bin/", "docs/", "a/b/c/", "src/git/"];
const NAMES: &[&str] = &[
    "main.rs", "lib.rs", "README.md", "Makefile", "notes.txt", "x", "file-1.c", "a_b.py", "CHANGELOG", "mod.rs", "data.csv", "z.9", "Cargo.toml", "unified_diff.rs", "LICENSE", "t.sh",
];

const WORDS: &[&str] = &[
    "fn", "let", "mut", "x", "y", "foo", "bar", "return", "if", "else", "match", "self", "Ok(())", "=>", "{", "}", "(", ")", ";", "=", "+", "-", "0", "1", "42", "\"str\"", "// note", "impl",
    "struct", "pub", "use", "mod", "value", "diff", "hunk", "@@", "a/b", "*", "&mut", "<T>",
];
const UNI: &[&str] = &["日本語", "한국어", "é", "ñ", "ß", "🍍", "👨‍👩‍👧", "🇯🇵", "e\u{0301}", "…", "→", "Ω", "ü", "\u{200B}", "ﬁ", "\u{FEFF}", "Ж", "ا"];
// characters for which `char::is_whitespace` holds but which are not ASCII blanks
const UNI_SPACE: &[&str] = &["\u{00A0}", "\u{3000}", "\u{2003}", "\u{2028}", "\u{0085}", "\u{1680}", "\u{205F}", "\u{000C}"];
const BLANKS: &[&str] = &[" ", "\t", "  ", " \t", "\t ", "    ", "\t\t"];
const SPECIAL: &[&str] = &[
    "+", "-", "++", "--", "+++", "---", "+++ b/x", "--- a/x", "--- /dev/null", "+++ /dev/null", "@@", "@@ -1,2 +3,4 @@", "@@ -1 +1 @@ fn f()", "@@ -0,0 +1 @@", "diff --git a/x b/x", "diff --git",
    "\\", "\\ No newline at end of file", "index 0000000..1111111 100644", "new file mode 100644", "deleted file mode 100644", "old mode 100644", "rename from x", "rename to y",
    "similarity index 100%", "Binary files a/x and b/x differ", "GIT binary patch", "literal 0", "From 0123456789abcdef0123456789abcdef01234567 Mon Sep 17 00:00:00 2001", "-- ", "+ ", "- ",
];

/// Per-case workload partition. Half of the cases carry no line that ends in whitespace and half
/// carry no exact rename, so that a quarter of the cases exercises everything else with none of the
/// two shapes that are known to fail; the other cases aim at exactly those shapes.
#[derive(Clone, Copy, Debug)]
struct Style {
    /// no generated line ends in a character for which `char::is_whitespace` holds (no CR either)
    ws_free: bool,
    /// no file is renamed with identical content
    no_moves: bool,
}

impl Style {
    fn fin(&self, l: String) -> String {
        if self.ws_free {
            l.trim_end().to_string()
        } else {
            l
        }
    }
}

fn pk(rng: &mut Rng, xs: &[&'static str]) -> &'static str {
    xs[rng.usize(xs.len())]
}

fn plain(rng: &mut Rng) -> String {
    let n = 1 + rng.usize(6);
    let mut s = String::new();
    for i in 0..n {
        if i > 0 {
            s.push(' ');
        }
        s.push_str(pk(rng, WORDS));
    }
    // a number keeps most lines distinct, so that diffs have structure
    if rng.chance(2, 3) {
        s.push_str(&format!(" {}", rng.below(1000)));
    }
    s
}

/// A line that git would pick as function context (starts with a letter).
fn alpha_line(rng: &mut Rng) -> String {
    let mut s = format!("{} {}", rng.pick(&["fn", "impl", "struct", "pub fn", "class", "def", "mod"]), plain(rng));
    match rng.below(12) {
        // long multi-byte tail: libgit2 cuts the function-context text after 80 bytes
        0 | 1 => {
            for _ in 0..20 + rng.usize(40) {
                s.push_str(pk(rng, UNI));
            }
        }
        // non-ASCII space at the end (libgit2 only trims ASCII blanks from the context text)
        2 => s.push_str(pk(rng, UNI_SPACE)),
        _ => {}
    }
    s
}

/// One line, without its terminating "\n". Never contains '\n' or NUL or control characters other
/// than TAB / CR / FF (so that libgit2's binary heuristic does not fire).
fn gen_line(rng: &mut Rng, st: Style) -> String {
    let l = gen_line_raw(rng);
    st.fin(l)
}

fn gen_line_raw(rng: &mut Rng) -> String {
    match rng.weighted(&[26, 10, 8, 5, 8, 12, 8, 2, 4, 1, 3, 2, 3, 4]) {
        0 => plain(rng),
        1 => format!("{}{}", pk(rng, BLANKS), plain(rng)),
        2 => format!("{}{}", plain(rng), pk(rng, BLANKS)),
        3 => pk(rng, BLANKS).to_string(),
        4 => String::new(),
        5 => {
            let p = pk(rng, SPECIAL).to_string();
            match rng.below(4) {
                0 => p,
                1 => format!("{p}{}", plain(rng)),
                2 => format!("{p} {}", plain(rng)),
                _ => format!("{p}{}", pk(rng, BLANKS)),
            }
        }
        6 => {
            let n = 1 + rng.usize(6);
            let mut s = String::new();
            for _ in 0..n {
                if rng.bool() {
                    s.push_str(pk(rng, UNI));
                } else {
                    s.push_str(pk(rng, WORDS));
                }
                if rng.bool() {
                    s.push(' ');
                }
            }
            s
        }
        7 => {
            let target = if rng.chance(1, 5) { 5_000 + rng.usize(20_000) } else { 300 + rng.usize(3_000) };
            let mut s = String::new();
            while s.len() < target {
                s.push_str(pk(rng, WORDS));
                s.push(' ');
                if rng.chance(1, 20) {
                    s.push_str(pk(rng, UNI));
                }
            }
            if rng.bool() {
                s.truncate(s.trim_end().len());
            }
            s
        }
        8 => format!("{}\r", plain(rng)),
        9 => format!("{}\r{}", plain(rng), plain(rng)),
        10 => format!("{}{}", plain(rng), pk(rng, UNI_SPACE)),
        11 => format!("{}{}", pk(rng, UNI_SPACE), plain(rng)),
        12 => format!("{}{}{}", pk(rng, BLANKS), plain(rng), pk(rng, BLANKS)),
        // function-context candidate (sometimes with a long multi-byte tail or a non-ASCII space)
        _ => alpha_line(rng),
    }
}

fn gen_lines(rng: &mut Rng, st: Style) -> Vec<String> {
    let n = match rng.weighted(&[2, 2, 6, 8, 3]) {
        0 => 1,
        1 => 2,
        2 => 3 + rng.usize(10),
        3 => 15 + rng.usize(50),
        _ => 60 + rng.usize(120),
    };
    let crlf_file = rng.chance(1, 12) && !st.ws_free;
    let tame = rng.chance(1, 4); // mostly plain lines: realistic source file with few oddities
    (0..n)
        .map(|_| {
            let mut l = if tame && rng.chance(5, 6) {
                if rng.chance(1, 5) { st.fin(alpha_line(rng)) } else { format!("    {}", plain(rng)) }
            } else {
                gen_line(rng, st)
            };
            if crlf_file && !l.ends_with('\r') {
                l.push('\r');
            }
            l
        })
        .collect()
}

fn join(lines: &[String]) -> String {
    let mut s = String::new();
    for l in lines {
        s.push_str(l);
        s.push('\n');
    }
    s
}

fn split(content: &str) -> Vec<String> {
    content.strip_suffix('\n').unwrap_or(content).split('\n').map(|s| s.to_string()).collect()
}

/// Edit a non-empty line list at 1..=4 sites; the result is non-empty and different.
fn edit_lines(rng: &mut Rng, st: Style, old: &[String]) -> Vec<String> {
    let mut new = old.to_vec();
    let sites = 1 + rng.usize(4);
    for _ in 0..sites {
        let len = new.len();
        match rng.weighted(&[4, 3, 4, 4, 1]) {
            0 => {
                let at = rng.usize(len + 1);
                for _ in 0..1 + rng.usize(3) {
                    let l = gen_line(rng, st);
                    new.insert(at, l);
                }
            }
            1 if len > 1 => {
                let at = rng.usize(len);
                let k = (1 + rng.usize(3)).min(len - 1).min(len - at);
                new.drain(at..at + k);
            }
            2 => {
                let at = rng.usize(len);
                new[at] = gen_line(rng, st);
            }
            3 => {
                // whitespace-only tweak of an existing line: the region the encoder is suspected in
                let at = rng.usize(len);
                let l = new[at].clone();
                let t = match rng.below(7) {
                    0 => format!("{l} "),
                    1 => format!("{l}\t"),
                    2 => l.trim_end().to_string(),
                    3 => format!(" {l}"),
                    4 => {
                        if let Some(s) = l.strip_suffix('\r') {
                            s.to_string()
                        } else {
                            format!("{l}\r")
                        }
                    }
                    5 => format!("{l}{}", pk(rng, UNI_SPACE)),
                    _ => l.trim_start().to_string(),
                };
                new[at] = st.fin(t);
            }
            4 if len > 1 => {
                let at = rng.usize(len - 1);
                new.swap(at, at + 1);
            }
            _ => {}
        }
    }
    if new == old {
        let at = rng.usize(new.len() + 1);
        new.insert(at, format!("{} changed", plain(rng)));
    }
    new
}

fn fresh_path(rng: &mut Rng, taken: &BTreeSet<String>) -> String {
    loop {
        let p = format!("{}{}", pk(rng, DIRS), pk(rng, NAMES));
        if !taken.contains(&p) {
            return p;
        }
        // pools are much larger than any tree; add a suffix if unlucky
        let p = format!("{p}.{}", rng.below(100));
        if !taken.contains(&p) {
            return p;
        }
    }
}

fn gen_case(seed: u64) -> Case {
    let mut rng = Rng::new(seed);
    let st = Style { ws_free: rng.bool(), no_moves: rng.bool() };
    let mut old = Tree::new();
    let mut taken: BTreeSet<String> = BTreeSet::new();
    let nold = if rng.chance(1, 20) { 0 } else { 1 + rng.usize(6) };
    for _ in 0..nold {
        let p = fresh_path(&mut rng, &taken);
        taken.insert(p.clone());
        let lines = gen_lines(&mut rng, st);
        old.insert(p, FileSpec { content: join(&lines), exec: rng.chance(1, 8) });
    }
    let mut new = Tree::new();
    let wipe = nold > 0 && rng.chance(1, 40); // everything deleted
    let olds: Vec<(String, FileSpec)> = old.iter().map(|(p, f)| (p.clone(), f.clone())).collect();
    for (p, f) in &olds {
        if wipe {
            break;
        }
        let mut op = rng.weighted(&[8, 20, 4, 6, 4, 1, 2, 1]);
        if op == 3 && st.no_moves {
            op = 4;
        }
        match op {
            0 => {
                new.insert(p.clone(), f.clone());
            }
            1 => {
                let lines = edit_lines(&mut rng, st, &split(&f.content));
                new.insert(p.clone(), FileSpec { content: join(&lines), exec: f.exec });
            }
            2 => {} // deleted
            3 => {
                // exact rename / move to another directory
                let q = fresh_path(&mut rng, &taken);
                taken.insert(q.clone());
                new.insert(q, f.clone());
            }
            4 => {
                // rename with content change (delete + add under exact-match rename detection)
                let q = fresh_path(&mut rng, &taken);
                taken.insert(q.clone());
                let lines = edit_lines(&mut rng, st, &split(&f.content));
                new.insert(q, FileSpec { content: join(&lines), exec: f.exec });
            }
            5 => {
                // copy bait: the old file is modified and a second file carries its old content
                // (`rad diff` options report a copy => excluded; review options report an addition)
                let q = fresh_path(&mut rng, &taken);
                taken.insert(q.clone());
                let lines = edit_lines(&mut rng, st, &split(&f.content));
                new.insert(p.clone(), FileSpec { content: join(&lines), exec: f.exec });
                new.insert(q, f.clone());
            }
            6 => {
                // content change together with a flipped executable bit
                let lines = edit_lines(&mut rng, st, &split(&f.content));
                new.insert(p.clone(), FileSpec { content: join(&lines), exec: !f.exec });
            }
            _ => {
                // only the executable bit flips: a Modified entry without hunks
                new.insert(p.clone(), FileSpec { content: f.content.clone(), exec: !f.exec });
            }
        }
    }
    let nadd = if wipe { 0 } else { rng.weighted(&[5, 3, 1]) };
    for _ in 0..nadd {
        let p = fresh_path(&mut rng, &taken);
        taken.insert(p.clone());
        let lines = gen_lines(&mut rng, st);
        new.insert(p, FileSpec { content: join(&lines), exec: rng.chance(1, 8) });
    }
    if new == old {
        let p = fresh_path(&mut rng, &taken);
        let lines = gen_lines(&mut rng, st);
        new.insert(p, FileSpec { content: join(&lines), exec: false });
    }
    // `rad diff` default is 5, `git` default 3, `rad patch review -U`
    let context = *rng.pick(&[0u32, 1, 2, 3, 3, 5, 5, 5, 8]);
    let find = if rng.chance(2, 5) { Find::RadDiff } else { Find::Review };
    Case { old, new, context, find }
}

// ---------------------------------------------------------------------------------------------
// Fixture: trees in a scratch repository, diffed the way the CLI does it

fn write_tree(repo: &git2::Repository, files: &[(&str, &FileSpec)]) -> Result<git2::Oid, git2::Error> {
    let mut tb = repo.treebuilder(None)?;
    let mut sub: BTreeMap<&str, Vec<(&str, &FileSpec)>> = BTreeMap::new();
    for (p, f) in files {
        match p.split_once('/') {
            None => {
                let oid = repo.blob(f.content.as_bytes())?;
                tb.insert(p, oid, if f.exec { 0o100755 } else { 0o100644 })?;
            }
            Some((d, rest)) => sub.entry(d).or_default().push((rest, f)),
        }
    }
    for (d, es) in sub {
        let oid = write_tree(repo, &es)?;
        tb.insert(d, oid, 0o040000)?;
    }
    tb.write()
}

fn surf_diff(repo: &git2::Repository, c: &Case) -> Result<Diff, String> {
    let e = |e: git2::Error| e.to_string();
    let old: Vec<(&str, &FileSpec)> = c.old.iter().map(|(p, f)| (p.as_str(), f)).collect();
    let new: Vec<(&str, &FileSpec)> = c.new.iter().map(|(p, f)| (p.as_str(), f)).collect();
    let old = repo.find_tree(write_tree(repo, &old).map_err(e)?).map_err(e)?;
    let new = repo.find_tree(write_tree(repo, &new).map_err(e)?).map_err(e)?;

    // crates/radicle-cli/src/commands/diff.rs and commands/patch/review.rs
    let mut opts = git2::DiffOptions::new();
    opts.patience(true).minimal(true).context_lines(c.context);
    let mut find_opts = git2::DiffFindOptions::new();
    find_opts.exact_match_only(true);
    find_opts.all(true);
    if c.find == Find::Review {
        // crates/radicle-cli/src/commands/patch/review/builder.rs
        find_opts.copies(false);
    }
    let mut diff = repo.diff_tree_to_tree(Some(&old), Some(&new), Some(&mut opts)).map_err(e)?;
    diff.find_similar(Some(&mut find_opts)).map_err(e)?;
    Diff::try_from(diff).map_err(|e| e.to_string())
}

// ---------------------------------------------------------------------------------------------
// Oracle: own structural comparison

fn kind(f: &FileDiff) -> &'static str {
    match f {
        FileDiff::Added(_) => "added",
        FileDiff::Deleted(_) => "deleted",
        FileDiff::Modified(_) => "modified",
        FileDiff::Moved(_) => "moved",
        FileDiff::Copied(_) => "copied",
    }
}

fn paths(f: &FileDiff) -> (String, String) {
    let s = |p: &std::path::Path| p.to_string_lossy().to_string();
    match f {
        FileDiff::Added(x) => (String::new(), s(&x.path)),
        FileDiff::Deleted(x) => (s(&x.path), String::new()),
        FileDiff::Modified(x) => (s(&x.path), s(&x.path)),
        FileDiff::Moved(x) => (s(&x.old_path), s(&x.new_path)),
        FileDiff::Copied(x) => (s(&x.old_path), s(&x.new_path)),
    }
}

fn content(f: &FileDiff) -> &DiffContent {
    match f {
        FileDiff::Added(x) => &x.diff,
        FileDiff::Deleted(x) => &x.diff,
        FileDiff::Modified(x) => &x.diff,
        FileDiff::Moved(x) => &x.diff,
        FileDiff::Copied(x) => &x.diff,
    }
}

fn hunks(c: &DiffContent) -> &[Hunk<Modification>] {
    match c {
        DiffContent::Plain { hunks, .. } => &hunks.0,
        _ => &[],
    }
}

fn line_parts(m: &Modification) -> (&'static str, &[u8], Option<u32>, Option<u32>) {
    match m {
        Modification::Addition(a) => ("+", a.line.as_bytes(), None, Some(a.line_no)),
        Modification::Deletion(d) => ("-", d.line.as_bytes(), Some(d.line_no), None),
        Modification::Context { line, line_no_old, line_no_new } => (" ", line.as_bytes(), Some(*line_no_old), Some(*line_no_new)),
    }
}

fn lossy(b: &[u8]) -> String {
    String::from_utf8_lossy(b).to_string()
}

fn clip(s: &str) -> String {
    if s.len() <= 400 {
        s.to_string()
    } else {
        let mut i = 200;
        while !s.is_char_boundary(i) {
            i -= 1;
        }
        let mut j = s.len() - 100;
        while !s.is_char_boundary(j) {
            j += 1;
        }
        format!("{}…[{} bytes]…{}", &s[..i], s.len(), &s[j..])
    }
}

/// Does `got` equal `want` with the blanks (any `char::is_whitespace`) before the final newline
/// removed? This is the precise shape of the suspected encoder defect.
fn only_trailing_ws_lost(want: &[u8], got: &[u8]) -> bool {
    let (Ok(w), Ok(g)) = (std::str::from_utf8(want), std::str::from_utf8(got)) else {
        return false;
    };
    let Some(wbody) = w.strip_suffix('\n') else {
        return false;
    };
    wbody.trim_end() != wbody && g.strip_suffix('\n') == Some(wbody.trim_end())
}

struct Findings(Vec<(String, Value)>);

impl Findings {
    fn add(&mut self, sig: &str, detail: Value) {
        if !self.0.iter().any(|(s, _)| s == sig) {
            self.0.push((sig.to_string(), detail));
        }
    }
}

fn compare_lines(out: &mut Findings, prefix: &str, loc: &Value, want: &[Modification], got: &[Modification], numbers: bool) {
    if want.len() != got.len() {
        out.add(&format!("{prefix}lines/count-differs"), json!({"at": loc, "want": want.len(), "got": got.len()}));
        return;
    }
    for (li, (a, b)) in want.iter().zip(got).enumerate() {
        let (ka, ca, oa, na) = line_parts(a);
        let (kb, cb, ob, nb) = line_parts(b);
        if ka != kb {
            out.add(&format!("{prefix}line-kind/differs"), json!({"at": loc, "line": li, "want": ka, "got": kb, "content": clip(&lossy(ca))}));
            continue;
        }
        if ca != cb {
            let sig = if only_trailing_ws_lost(ca, cb) { "line-content/trailing-whitespace-lost" } else { "line-content/differs" };
            out.add(&format!("{prefix}{sig}"), json!({"at": loc, "line": li, "kind": ka, "want": clip(&lossy(ca)), "got": clip(&lossy(cb))}));
        }
        if numbers && (oa, na) != (ob, nb) {
            out.add(&format!("{prefix}line-number/differs"), json!({"at": loc, "line": li, "want": [oa, na], "got": [ob, nb]}));
        }
    }
}

/// Own parser of a hunk header: `@@ -a[,b] +c[,d] @@[ text]` with trailing newlines removed.
fn parse_header(h: &[u8]) -> Option<(u32, u32, u32, u32, Vec<u8>)> {
    let mut end = h.len();
    while end > 0 && h[end - 1] == b'\n' {
        end -= 1;
    }
    let h = &h[..end];
    let rest = h.strip_prefix(b"@@ -")?;
    let sp = rest.iter().position(|b| *b == b' ')?;
    let (old, rest) = (&rest[..sp], &rest[sp + 1..]);
    let rest = rest.strip_prefix(b"+")?;
    let sp = rest.iter().position(|b| *b == b' ')?;
    let (new, rest) = (&rest[..sp], &rest[sp + 1..]);
    let rest = rest.strip_prefix(b"@@")?;
    let text = rest.strip_prefix(b" ").unwrap_or(rest).to_vec();
    let pair = |b: &[u8]| -> Option<(u32, u32)> {
        let s = std::str::from_utf8(b).ok()?;
        match s.split_once(',') {
            Some((a, b)) => Some((a.parse().ok()?, b.parse().ok()?)),
            None => Some((s.parse().ok()?, 1)),
        }
    };
    let (a, b) = pair(old)?;
    let (c, d) = pair(new)?;
    Some((a, b, c, d, text))
}

fn header_sig(want: &[u8], got: &[u8]) -> &'static str {
    if std::str::from_utf8(want).is_err() && lossy(want).as_bytes() == got {
        // libgit2 cuts the function-context text at a byte limit; the encoder's lossy conversion
        // then replaces the split character
        "hunk-header/non-utf8-context-text-replaced"
    } else if only_trailing_ws_lost(want, got) {
        "hunk-header/trailing-whitespace-lost"
    } else {
        "hunk-header/differs"
    }
}

fn compare_diffs(want: &Diff, got: &Diff) -> Findings {
    let mut out = Findings(vec![]);
    let w: Vec<&FileDiff> = want.files().collect();
    let g: Vec<&FileDiff> = got.files().collect();
    if w.len() != g.len() {
        out.add("C30/files/count-differs", json!({"want": w.iter().map(|f| (kind(f), paths(f))).collect::<Vec<_>>(), "got": g.iter().map(|f| (kind(f), paths(f))).collect::<Vec<_>>()}));
        return out;
    }
    for (fi, (a, b)) in w.iter().zip(&g).enumerate() {
        if kind(a) != kind(b) {
            out.add(&format!("C30/file-kind/{}-decoded-as-{}", kind(a), kind(b)), json!({"file": fi, "paths": paths(a)}));
            continue;
        }
        if paths(a) != paths(b) {
            out.add("C30/file-path/differs", json!({"file": fi, "kind": kind(a), "want": paths(a), "got": paths(b)}));
        }
        let (ha, hb) = (hunks(content(a)), hunks(content(b)));
        if ha.len() != hb.len() {
            out.add("C30/hunks/count-differs", json!({"file": fi, "kind": kind(a), "paths": paths(a), "want": ha.len(), "got": hb.len()}));
            continue;
        }
        for (hi, (x, y)) in ha.iter().zip(hb).enumerate() {
            let loc = json!({"file": fi, "path": paths(a).1, "hunk": hi});
            if x.header.as_bytes() != y.header.as_bytes() {
                out.add(
                    &format!("C30/{}", header_sig(x.header.as_bytes(), y.header.as_bytes())),
                    json!({"at": loc, "want": lossy(x.header.as_bytes()), "want_hex": vcommon::hex(x.header.as_bytes()), "got": lossy(y.header.as_bytes())}),
                );
            }
            if x.old != y.old || x.new != y.new {
                out.add("C30/hunk-range/differs", json!({"at": loc, "want": [[x.old.start, x.old.end], [x.new.start, x.new.end]], "got": [[y.old.start, y.old.end], [y.new.start, y.new.end]]}));
            }
            compare_lines(&mut out, "C30/", &loc, &x.lines, &y.lines, true);
        }
    }
    out
}

/// Secondary clause: heartwood's own `DiffContent`/`Hunk`/`Modification` decoder on one file body.
fn content_level(out: &mut Findings, fi: usize, f: &FileDiff) {
    let c = content(f);
    let hs = hunks(c);
    if hs.is_empty() {
        return;
    }
    let loc = json!({"file": fi, "path": paths(f).1});
    let text = match guarded(|| c.to_unified_string()) {
        Ok(Ok(t)) => t,
        Ok(Err(e)) => {
            out.add("C30/content-level/encode-error", json!({"at": loc, "error": e.to_string()}));
            return;
        }
        Err(p) => {
            out.add(&format!("C30/content-level/encode-panic/{}", vcommon::panic_site(&p)), json!({"at": loc, "panic": p}));
            return;
        }
    };
    let dec = match guarded(|| DiffContent::parse(&text)) {
        Ok(Ok(d)) => d,
        Ok(Err(e)) => {
            out.add("C30/content-level/decode-error", json!({"at": loc, "error": e.to_string(), "text": clip(&text)}));
            return;
        }
        Err(p) => {
            out.add(&format!("C30/content-level/decode-panic/{}", vcommon::panic_site(&p)), json!({"at": loc, "panic": p, "text": clip(&text)}));
            return;
        }
    };
    // encode(decode(text)) == text on the body level (what the crate's own unit test asserts for
    // one fixture)
    match guarded(|| dec.to_unified_string()) {
        Ok(Ok(t2)) if t2 == text => {}
        Ok(Ok(t2)) => {
            let (a, b) = first_diff_line(&text, &t2);
            out.add("C30/content-level/reencode/text-differs", json!({"at": loc, "first_differing_line": {"encode(content)": clip(&a), "encode(decode(text))": clip(&b)}}));
        }
        Ok(Err(e)) => out.add("C30/content-level/reencode/encode-error", json!({"at": loc, "error": e.to_string()})),
        Err(p) => out.add(&format!("C30/content-level/reencode/encode-panic/{}", vcommon::panic_site(&p)), json!({"at": loc, "panic": p})),
    }
    let hd = hunks(&dec);
    if hd.len() != hs.len() {
        out.add("C30/content-level/hunks/count-differs", json!({"at": loc, "want": hs.len(), "got": hd.len()}));
        return;
    }
    for (hi, (x, y)) in hs.iter().zip(hd).enumerate() {
        let loc = json!({"file": fi, "path": paths(f).1, "hunk": hi});
        // heartwood's hunk decoder re-renders the header; compare its meaning, not its bytes
        match (parse_header(x.header.as_bytes()), parse_header(y.header.as_bytes())) {
            (Some(a), Some(b)) if a == b => {}
            (Some(a), Some(b)) if (a.0, a.1, a.2, a.3) == (b.0, b.1, b.2, b.3) => {
                let sig = if std::str::from_utf8(&a.4).is_err() && lossy(&a.4).as_bytes() == &b.4[..] {
                    "non-utf8-context-text-replaced"
                } else if lossy(&a.4).trim_end() == lossy(&b.4) {
                    "trailing-whitespace-lost"
                } else {
                    "text-differs"
                };
                out.add(&format!("C30/content-level/hunk-header/{sig}"), json!({"at": loc, "want": lossy(x.header.as_bytes()), "got": lossy(y.header.as_bytes())}));
            }
            (Some(_), _) => {
                out.add("C30/content-level/hunk-header/differs", json!({"at": loc, "want": lossy(x.header.as_bytes()), "got": lossy(y.header.as_bytes())}));
            }
            (None, _) => {} // not a header this harness understands: no verdict on it
        }
        compare_lines(out, "C30/content-level/", &loc, &x.lines, &y.lines, true);
    }
}

fn stable(msg: &str) -> String {
    // error text without numbers / quoted material, usable inside a signature
    let mut s = String::new();
    let mut quoted = false;
    let msg = msg.split(';').next().unwrap_or(msg);
    for ch in msg.chars() {
        match ch {
            '\'' | '`' | '"' => quoted = !quoted,
            _ if quoted => {}
            '0'..='9' => {
                if !s.ends_with('N') {
                    s.push('N')
                }
            }
            ' ' | '/' | ':' => {
                if !s.ends_with('-') {
                    s.push('-')
                }
            }
            c => s.push(c),
        }
    }
    s.truncate(80);
    s.trim_matches('-').to_string()
}

// ---------------------------------------------------------------------------------------------
// Counters describing what the diff actually contained

fn observe(rep: &mut Reporter, d: &Diff, c: &Case) {
    rep.count(match c.find {
        Find::RadDiff => "opts:rad-diff",
        Find::Review => "opts:review",
    });
    rep.count(&format!("context:{}", c.context));
    let mut seen: BTreeSet<&'static str> = BTreeSet::new();
    for f in d.files() {
        rep.count(&format!("kind:{}", kind(f)));
        let hs = hunks(content(f));
        rep.add("hunks", hs.len() as u64);
        rep.max("hunks-per-file", hs.len() as u64);
        if hs.len() >= 2 {
            rep.count("file:several-hunks");
        }
        if let FileDiff::Modified(m) = f {
            if m.old.mode != m.new.mode {
                rep.count(if hs.is_empty() { "file:mode-change-only" } else { "file:mode-and-content-change" });
            }
        }
        for h in hs {
            if parse_header(h.header.as_bytes()).map(|p| !p.4.is_empty()).unwrap_or(false) {
                rep.count("header:with-context-text");
                if std::str::from_utf8(h.header.as_bytes()).is_err() {
                    rep.count("header:context-text-cut-inside-character");
                }
            }
            for l in &h.lines {
                let (k, bytes, _, _) = line_parts(l);
                rep.count(match k {
                    "+" => "lines:addition",
                    "-" => "lines:deletion",
                    _ => "lines:context",
                });
                let s = lossy(bytes);
                let body = s.strip_suffix('\n').unwrap_or(&s);
                let mut cls: Vec<&'static str> = vec![];
                if body.is_empty() {
                    cls.push("line:empty");
                } else if body.trim().is_empty() {
                    cls.push("line:whitespace-only");
                } else {
                    if body.ends_with(' ') || body.ends_with('\t') {
                        cls.push("line:trailing-blank");
                    }
                    if body.ends_with('\r') {
                        cls.push("line:crlf");
                    }
                    if body.trim_end() != body && !body.ends_with([' ', '\t', '\r']) {
                        cls.push("line:trailing-unicode-space");
                    }
                    if body.starts_with(' ') || body.starts_with('\t') {
                        cls.push("line:leading-blank");
                    }
                }
                if body.starts_with('+') {
                    cls.push("line:starts-with-plus");
                }
                if body.starts_with('-') {
                    cls.push("line:starts-with-minus");
                }
                if body.starts_with("@@") {
                    cls.push("line:starts-with-@@");
                }
                if body.starts_with("diff --git") {
                    cls.push("line:starts-with-diff--git");
                }
                if body.starts_with('\\') {
                    cls.push("line:starts-with-backslash");
                }
                if !body.is_ascii() {
                    cls.push("line:unicode");
                }
                if body.len() >= 1000 {
                    cls.push("line:long>=1000");
                }
                for c in cls {
                    rep.count(c);
                    seen.insert(c);
                }
            }
        }
    }
    if d.files().any(|f| matches!(f, FileDiff::Moved(_))) {
        rep.count("case:has-moved-file");
    } else {
        rep.count("case:no-moved-file");
    }
    // per-case: how many cases contain a line whose trailing whitespace matters / none at all
    if seen.iter().any(|c| matches!(*c, "line:trailing-blank" | "line:crlf" | "line:trailing-unicode-space" | "line:whitespace-only")) {
        rep.count("case:has-line-with-trailing-whitespace");
    } else {
        rep.count("case:no-line-with-trailing-whitespace");
    }
}

// ---------------------------------------------------------------------------------------------
// One case

fn evaluate(rep: &mut Reporter, repo: &git2::Repository, c: &Case) {
    rep.eval();
    // harness invariant: the statement's precondition
    for f in c.old.values().chain(c.new.values()) {
        if !f.content.ends_with('\n') || f.content.contains('\0') {
            rep.inconclusive("generated file violates the precondition (no trailing newline / NUL)", c.json());
            return;
        }
    }
    let d = match surf_diff(repo, c) {
        Ok(d) => d,
        Err(e) => {
            rep.inconclusive("fixture: could not compute the diff", json!({"error": e, "case": c.json()}));
            return;
        }
    };
    // exclusions of the statement
    if d.files().any(|f| matches!(content(f), DiffContent::Binary)) {
        rep.count("excluded:binary-detected");
        return;
    }
    if d.files().any(|f| matches!(f, FileDiff::Copied(_))) {
        rep.count("excluded:copied-entry(encoder-unimplemented)");
        return;
    }
    if d.files().any(|f| matches!(content(f).eof(), Some(e) if e != radicle_surf::diff::EofNewLine::NoneMissing)) {
        rep.inconclusive("fixture: a file without trailing newline reached the diff", c.json());
        return;
    }
    if d.files().next().is_none() {
        rep.count("empty-diff");
        return;
    }
    observe(rep, &d, c);
    rep.count("roundtrips");

    let text = match guarded(|| d.to_unified_string()) {
        Ok(Ok(t)) => t,
        Ok(Err(e)) => {
            rep.violation(&format!("C30/encode-error/{}", stable(&e.to_string())), json!({"case": c.json(), "error": e.to_string()}));
            return;
        }
        Err(p) => {
            rep.violation(&format!("C30/encode-panic/{}", vcommon::panic_site(&p)), json!({"case": c.json(), "panic": p}));
            return;
        }
    };
    if d.files().any(|f| !hunks(content(f)).is_empty()) {
        rep.nontrivial(fnv(format!("{:?}|{}|{}", c.find, c.context, text).as_bytes()));
    }
    if rep.wants_sample() && text.len() < 1500 && d.files().count() >= 2 {
        rep.sample(json!({"find": format!("{:?}", c.find), "context": c.context, "files": d.files().map(|f| (kind(f), paths(f))).collect::<Vec<_>>(), "text": text}));
    }
    let mut out = Findings(vec![]);
    match guarded(|| Diff::parse(&text)) {
        Ok(Ok(dec)) => {
            out = compare_diffs(&d, &dec);
            // secondary: encode(decode(text)) == text
            match guarded(|| dec.to_unified_string()) {
                Ok(Ok(t2)) if t2 == text => rep.count("reencode-equal"),
                Ok(Ok(t2)) => {
                    let (a, b) = first_diff_line(&text, &t2);
                    out.add("C30/reencode/text-differs", json!({"first_differing_line": {"encode(diff)": clip(&a), "encode(decode(text))": clip(&b)}}));
                }
                Ok(Err(e)) => out.add(&format!("C30/reencode/encode-error/{}", stable(&e.to_string())), json!({"error": e.to_string()})),
                Err(p) => out.add(&format!("C30/reencode/encode-panic/{}", vcommon::panic_site(&p)), json!({"panic": p})),
            }
        }
        Ok(Err(e)) => {
            let kinds: BTreeSet<&str> = d.files().map(kind).collect();
            // which shape of input: a diff with a renamed file is its own class
            let class = if kinds.contains("moved") { "diff-with-moved-file/" } else { "" };
            out.add(&format!("C30/decode-error/{class}{}", stable(&e.to_string())), json!({"error": e.to_string(), "kinds_in_diff": kinds, "text": clip(&text)}));
            match text_level_files(&text) {
                Some(got) => {
                    rep.count("text-level-fallback:understood");
                    let want: Vec<(&str, String, String, usize)> = d.files().map(|f| (kind(f), paths(f).0, paths(f).1, hunks(content(f)).len())).collect();
                    if want != got {
                        let at = want.iter().zip(&got).position(|(a, b)| a != b).unwrap_or(want.len().min(got.len()));
                        out.add("C30/undecodable-text/file-kind-path-or-hunk-count-differs", json!({"file": at, "want": want.get(at), "text_says": got.get(at)}));
                    }
                }
                None => rep.count("text-level-fallback:not-understood"),
            }
        }
        Err(p) => out.add(&format!("C30/decode-panic/{}", vcommon::panic_site(&p)), json!({"panic": p, "text": clip(&text)})),
    }
    for (fi, f) in d.files().enumerate() {
        content_level(&mut out, fi, f);
    }
    if out.0.is_empty() {
        rep.count("held");
    }
    for (sig, detail) in out.0 {
        rep.violation(&sig, json!({"case": c.json(), "detail": detail, "unified_text": clip(&text)}));
    }
}

/// Fallback used only when the real decoder rejects the text (then the round trip has already
/// failed): an own reader of the standard git file headers in the encoded text, so that a wrong
/// kind / path / number of hunks is still seen. Hunk bodies are skipped by their header counts, so
/// body lines that look like headers do not confuse it. `None` = text not understood, no verdict.
fn text_level_files(text: &str) -> Option<Vec<(&'static str, String, String, usize)>> {
    let lines: Vec<&str> = text.strip_suffix('\n').unwrap_or(text).split('\n').collect();
    let mut out = vec![];
    let mut i = 0;
    while i < lines.len() {
        let first = lines[i].strip_prefix("diff --git ")?;
        i += 1;
        let mut kind = "modified";
        let (mut old, mut new) = (None::<String>, None::<String>);
        while i < lines.len() && !lines[i].starts_with("diff --git ") && !lines[i].starts_with("@@ -") {
            let l = lines[i];
            if l.starts_with("new file mode ") {
                kind = "added";
            } else if l.starts_with("deleted file mode ") {
                kind = "deleted";
            } else if let Some(p) = l.strip_prefix("rename from ") {
                kind = "moved";
                old = Some(p.to_string());
            } else if let Some(p) = l.strip_prefix("rename to ") {
                new = Some(p.to_string());
            } else if let Some(p) = l.strip_prefix("--- a/") {
                old = Some(p.to_string());
            } else if let Some(p) = l.strip_prefix("+++ b/") {
                new = Some(p.to_string());
            }
            i += 1;
        }
        let mut nh = 0;
        while i < lines.len() && lines[i].starts_with("@@ -") {
            let (_, b, _, d, _) = parse_header(lines[i].as_bytes())?;
            i += 1;
            let (mut o, mut n) = (0u32, 0u32);
            while o < b || n < d {
                match lines.get(i)?.as_bytes().first()? {
                    b' ' => {
                        o += 1;
                        n += 1;
                    }
                    b'-' => o += 1,
                    b'+' => n += 1,
                    _ => return None,
                }
                i += 1;
            }
            if o != b || n != d {
                return None;
            }
            nh += 1;
        }
        if old.is_none() && new.is_none() {
            // header without path lines (mode-only change): "a/<p> b/<p>" with equal halves
            let half = first.len() / 2;
            let (a, b) = (first.get(..half)?, first.get(half + 1..)?);
            old = Some(a.strip_prefix("a/")?.to_string());
            new = Some(b.strip_prefix("b/")?.to_string());
        }
        let (o, n) = match kind {
            "added" => (String::new(), new?),
            "deleted" => (old?, String::new()),
            _ => (old?, new?),
        };
        out.push((kind, o, n, nh));
    }
    Some(out)
}

fn first_diff_line(a: &str, b: &str) -> (String, String) {
    let (mut ia, mut ib) = (a.split('\n'), b.split('\n'));
    loop {
        match (ia.next(), ib.next()) {
            (Some(x), Some(y)) if x == y => continue,
            (x, y) => return (x.unwrap_or("<end>").to_string(), y.unwrap_or("<end>").to_string()),
        }
    }
}

// ---------------------------------------------------------------------------------------------

pub fn run(args: &Args) {
    let mut rep = Reporter::new("C30");
    // hermetic libgit2: no user/system configuration
    let dir = match tempfile::tempdir() {
        Ok(d) => d,
        Err(e) => {
            rep.inconclusive("fixture: tempdir", json!({"error": e.to_string()}));
            rep.finish();
            return;
        }
    };
    let empty = dir.path().join("no-config");
    let _ = std::fs::create_dir_all(&empty);
    for level in [git2::ConfigLevel::System, git2::ConfigLevel::Global, git2::ConfigLevel::XDG, git2::ConfigLevel::ProgramData] {
        // SAFETY: called once, before any other libgit2 use, from the only thread.
        let _ = unsafe { git2::opts::set_search_path(level, &empty) };
    }
    let repo = match git2::Repository::init_bare(dir.path().join("repo.git")) {
        Ok(r) => r,
        Err(e) => {
            rep.inconclusive("fixture: init_bare", json!({"error": e.to_string()}));
            rep.finish();
            return;
        }
    };
    // objects live in memory and are dropped every few hundred cases
    let odb = repo.odb().expect("odb");
    let mempack = odb.add_new_mempack_backend(1000).expect("mempack");

    if let Some(path) = &args.replay {
        let w = vcommon::load_replay(path);
        let c = Case::from_json(if w.get("case").is_some() { &w["case"] } else { &w });
        evaluate(&mut rep, &repo, &c);
        rep.finish();
        return;
    }
    let n = args.budget(160_000, 2_400_000);
    for k in 0..n {
        let c = gen_case(args.case_seed(k));
        evaluate(&mut rep, &repo, &c);
        if k % 256 == 255 {
            let _ = mempack.reset();
        }
    }
    rep.finish();
}
