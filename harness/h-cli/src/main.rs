//! Monitors for radicle-cli: C30 (unified diff text round trip).
mod c30;

fn main() {
    vcommon::install_panic_hook();
    let args = vcommon::Args::parse();
    match args.prop.as_str() {
        "C30" => c30::run(&args),
        p => {
            eprintln!("h-cli: unknown property {p}");
            std::process::exit(2);
        }
    }
}
