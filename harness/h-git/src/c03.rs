//! C03 — Canonical branch head is backed by the delegate threshold.
//!
//! The harness builds the commit DAG itself, so ancestry is known without asking git. Every
//! assignment of k delegates to the commits of each DAG shape, at every threshold, goes through the
//! real `Canonical::reference(..)` + `modify_vote` + `quorum(raw)`; a sample also goes through real
//! namespaced refs and `Repository::set_head` on repositories whose identity document has exactly
//! those delegates and that threshold.
use radicle::git::canonical::{Canonical, QuorumError};
use radicle::git::Qualified;
use radicle::identity::doc::Visibility;
use radicle::identity::Did;
use radicle::storage::git::Repository;
use radicle::storage::{ReadRepository, SignRepository, WriteRepository};
use vcommon::{guarded, json, Args, Reporter, Rng, Value};

use crate::fx::{self, Dev};

/// parents per commit, topologically ordered
fn shapes() -> Vec<(&'static str, Vec<Vec<usize>>)> {
    vec![
        ("single", vec![vec![]]),
        ("linear5", vec![vec![], vec![0], vec![1], vec![2], vec![3]]),
        ("fork2x2", vec![vec![], vec![0], vec![1], vec![0], vec![3]]),
        ("fork3", vec![vec![], vec![0], vec![0], vec![0], vec![1], vec![2]]),
        ("diamond+1", vec![vec![], vec![0], vec![0], vec![1, 2], vec![3]]),
        ("criss-cross", vec![vec![], vec![0], vec![0], vec![1, 2], vec![1, 2], vec![3, 4]]),
        ("unrelated-roots", vec![vec![], vec![0], vec![], vec![2], vec![1, 3]]),
        ("long-fork-merge", vec![vec![], vec![0], vec![1], vec![2], vec![1], vec![4], vec![5], vec![3, 6]]),
        ("two-level-fork", vec![vec![], vec![0], vec![0], vec![1], vec![1], vec![2], vec![2]]),
        ("ladder", vec![vec![], vec![0], vec![0], vec![1, 2], vec![3], vec![3], vec![4, 5]]),
        ("wide", vec![vec![], vec![0], vec![0], vec![0], vec![0], vec![0]]),
        ("fork-late", vec![vec![], vec![0], vec![1], vec![2], vec![2], vec![3], vec![4]]),
    ]
}

struct Dag {
    name: String,
    parents: Vec<Vec<usize>>,
    anc: Vec<u32>, // strict ancestors bitmask
    oids: Vec<git2::Oid>,
}

fn closure(parents: &[Vec<usize>]) -> Vec<u32> {
    let mut anc = vec![0u32; parents.len()];
    for (i, ps) in parents.iter().enumerate() {
        for p in ps {
            anc[i] |= 1 << p | anc[*p];
        }
    }
    anc
}

fn materialize(repo: &git2::Repository, name: &str, parents: &[Vec<usize>]) -> Dag {
    let mut oids: Vec<git2::Oid> = vec![];
    for (i, ps) in parents.iter().enumerate() {
        let p: Vec<git2::Oid> = ps.iter().map(|j| oids[*j]).collect();
        oids.push(fx::commit(repo, &format!("{name}/{i}"), &p));
    }
    Dag { name: name.to_string(), parents: parents.to_vec(), anc: closure(parents), oids }
}

#[derive(Debug, PartialEq)]
enum Outcome {
    Ok(usize),
    OkUnknown(String),
    NoCandidates,
    Diverging,
    Git(String),
}

fn outcome(dag: &Dag, r: Result<radicle::git::Oid, QuorumError>) -> Outcome {
    match r {
        Ok(oid) => match dag.oids.iter().position(|o| *o == *oid) {
            Some(i) => Outcome::Ok(i),
            None => Outcome::OkUnknown(oid.to_string()),
        },
        Err(QuorumError::NoCandidates(_)) => Outcome::NoCandidates,
        Err(QuorumError::Diverging(_)) => Outcome::Diverging,
        Err(QuorumError::Git(e)) => Outcome::Git(e.message().to_string()),
    }
}

/// The oracle. `tips[d]` = commit index of delegate d (None = no ref).
fn judge(rep: &mut Reporter, dag: &Dag, tips: &[Option<usize>], threshold: usize, out: &Outcome, via: &str) {
    let n = dag.parents.len();
    let present: Vec<usize> = tips.iter().flatten().copied().collect();
    let support = |c: usize| present.iter().filter(|t| **t == c || dag.anc[**t] >> c & 1 == 1).count();
    let tipset: u32 = present.iter().fold(0, |a, t| a | 1 << t);
    let eligible: u32 = (0..n).filter(|c| tipset >> c & 1 == 1 && support(*c) >= threshold).fold(0, |a, c| a | 1 << c);
    let maximal: Vec<usize> = (0..n)
        .filter(|c| eligible >> c & 1 == 1 && !(0..n).any(|e| e != *c && eligible >> e & 1 == 1 && dag.anc[e] >> c & 1 == 1))
        .collect();
    let witness = || -> Value {
        json!({"dag": dag.name, "parents": dag.parents, "delegate_tips": tips, "threshold": threshold,
               "outcome": format!("{out:?}"), "via": via,
               "support_per_commit": (0..n).map(|c| support(c)).collect::<Vec<_>>()})
    };
    rep.count(&format!("outcome:{}", match out { Outcome::Ok(_) => "ok", Outcome::OkUnknown(_) => "ok-unknown", Outcome::NoCandidates => "no-candidates", Outcome::Diverging => "diverging", Outcome::Git(_) => "git-error" }));
    // a shared tip that has descendants among the other tips (the dangerous region)
    let shared_with_desc = (0..n).any(|c| present.iter().filter(|t| **t == c).count() >= 2 && present.iter().any(|t| dag.anc[*t] >> c & 1 == 1));
    if shared_with_desc {
        rep.count("cases.shared-tip-with-descendant-tips");
    }
    match out {
        Outcome::OkUnknown(o) => rep.violation("C03/head-not-a-tip", json!({"case": witness(), "oid": o})),
        Outcome::Ok(h) => {
            let h = *h;
            if tipset >> h & 1 == 0 {
                rep.violation("C03/head-not-a-tip", witness());
            } else if support(h) < threshold {
                let m = present.iter().filter(|t| **t == h).count();
                let d = present.iter().filter(|t| dag.anc[**t] >> h & 1 == 1).count();
                let sig = if m >= 2 && d >= 1 {
                    "C03/insufficient-support/shared-tip-votes-multiplied-by-descendants"
                } else {
                    "C03/insufficient-support"
                };
                rep.violation(sig, witness());
            } else if (0..n).any(|e| e != h && eligible >> e & 1 == 1 && dag.anc[e] >> h & 1 == 1) {
                rep.violation("C03/eligible-descendant-of-head-exists", witness());
            } else if maximal.len() >= 2 {
                rep.violation("C03/head-returned-despite-divergent-supported-tips", witness());
            } else {
                rep.count("ok.verified-against-oracle");
            }
        }
        Outcome::NoCandidates | Outcome::Diverging | Outcome::Git(_) => {
            // An error is never a violation: the statement does not promise a head.
            if maximal.len() == 1 {
                rep.count("err-although-unique-supported-maximum(not-a-violation)");
            }
            if maximal.len() >= 2 {
                rep.count("err.divergent-maxima");
            }
            if eligible == 0 {
                rep.count("err.no-eligible-tip");
            }
        }
    }
}

struct World {
    _tmp: tempfile::TempDir,
    devs: Vec<Dev>,
    dids: Vec<Did>,
    /// repos[(k,t)] = repository whose doc has the first k delegates and threshold t
    repos: Vec<((usize, usize), Repository)>,
    refname: Qualified<'static>,
}

fn world(kmax: usize) -> World {
    let tmp = vcommon::scratch_dir();
    let devs: Vec<Dev> = (0..kmax as u8).map(|i| fx::device(3, i)).collect();
    let dids: Vec<Did> = devs.iter().map(fx::did).collect();
    let storage = fx::storage(tmp.path(), &devs[0]);
    let mut repos = vec![];
    for k in 1..=kmax {
        for t in 1..=k {
            let ds: Vec<&Dev> = devs.iter().take(k).collect();
            let repo = fx::repository(&storage, &ds, t, &format!("c03-{k}-{t}"), Visibility::Public);
            repos.push(((k, t), repo));
        }
    }
    let refname = radicle::git::refs::branch(&radicle::git::refname!("master")).to_owned();
    World { _tmp: tmp, devs, dids, repos, refname }
}

fn run_direct(w: &World, repo: &Repository, dag: &Dag, tips: &[Option<usize>], threshold: usize) -> Result<Outcome, String> {
    let k = tips.len();
    let delegates = nonempty::NonEmpty::from_vec(w.dids[..k].to_vec()).unwrap();
    guarded(|| {
        let mut c = Canonical::reference(repo, &w.refname, &delegates, threshold).expect("Canonical::reference");
        for (d, t) in tips.iter().enumerate() {
            if let Some(t) = t {
                c.modify_vote(w.dids[d], dag.oids[*t].into());
            }
        }
        outcome(dag, c.quorum(repo.raw()))
    })
}

fn run_refs(w: &World, repo: &Repository, dag: &Dag, tips: &[Option<usize>]) -> Result<(Outcome, Outcome), String> {
    let raw = repo.raw();
    for (d, t) in tips.iter().enumerate() {
        let name = format!("refs/namespaces/{}/refs/heads/master", w.devs[d].public_key());
        match t {
            Some(t) => {
                raw.reference(&name, dag.oids[*t], true, "verif").unwrap();
            }
            None => {
                if let Ok(mut r) = raw.find_reference(&name) {
                    r.delete().unwrap();
                }
            }
        }
    }
    let r = guarded(|| {
        let a = outcome(dag, repo.canonical_head().map(|(_, o)| o).map_err(to_quorum));
        let b = outcome(dag, repo.set_head().map(|s| s.new).map_err(to_quorum));
        (a, b)
    });
    // leave no branch refs behind: the direct path expects none
    for d in 0..tips.len() {
        let name = format!("refs/namespaces/{}/refs/heads/master", w.devs[d].public_key());
        if let Ok(mut r) = raw.find_reference(&name) {
            r.delete().unwrap();
        }
    }
    r
}

fn to_quorum(e: radicle::storage::RepositoryError) -> QuorumError {
    match e {
        radicle::storage::RepositoryError::Quorum(q) => q,
        other => QuorumError::Git(git2::Error::from_str(&format!("repository error: {other}"))),
    }
}

fn case(rep: &mut Reporter, w: &World, dags: &[Vec<Dag>], di: usize, tips: &[Option<usize>], threshold: usize, with_refs: bool) {
    let k = tips.len();
    let ridx = w.repos.iter().position(|(kt, _)| *kt == (k, threshold)).unwrap();
    let repo = &w.repos[ridx].1;
    let dag = &dags[ridx][di];
    rep.eval();
    match run_direct(w, repo, dag, tips, threshold) {
        Err(p) => rep.violation(&format!("C03/panic/{}", vcommon::panic_site(&p)), json!({"dag": dag.name, "tips": tips, "threshold": threshold, "panic": p})),
        Ok(out) => {
            judge(rep, dag, tips, threshold, &out, "Canonical::reference+modify_vote+quorum");
            if with_refs {
                match run_refs(w, repo, dag, tips) {
                    Err(p) => rep.violation(&format!("C03/panic/{}", vcommon::panic_site(&p)), json!({"dag": dag.name, "tips": tips, "threshold": threshold, "panic": p})),
                    Ok((a, b)) => {
                        rep.count("via-real-refs-and-set_head");
                        judge(rep, dag, tips, threshold, &a, "Repository::canonical_head (real refs)");
                        judge(rep, dag, tips, threshold, &b, "Repository::set_head (real refs)");
                        if let Outcome::Ok(h) = b {
                            // HEAD must now resolve to that commit
                            let head = repo.raw().refname_to_id("HEAD").ok();
                            if head != Some(dag.oids[h]) {
                                rep.violation("C03/set_head/HEAD-does-not-point-at-returned-head", json!({"dag": dag.name, "tips": tips, "threshold": threshold}));
                            }
                        }
                    }
                }
            }
            let distinct_tips: std::collections::BTreeSet<_> = tips.iter().flatten().collect();
            if distinct_tips.len() >= 2 {
                rep.nontrivial(vcommon::fnv(format!("{}{:?}{}", dag.name, tips, threshold).as_bytes()));
            }
            if rep.wants_sample() && k >= 3 && distinct_tips.len() >= 2 && matches!(out, Outcome::Ok(_)) {
                rep.sample(json!({"dag": dag.name, "parents": dag.parents, "delegate_tips": tips, "threshold": threshold, "outcome": format!("{out:?}")}));
            }
        }
    }
}

pub fn run(args: &Args) {
    let mut rep = Reporter::new("C03");
    let kmax = if args.thorough { 5 } else { 4 };
    let w = world(kmax);
    let mut shapes_: Vec<(String, Vec<Vec<usize>>)> = shapes().into_iter().map(|(n, p)| (n.to_string(), p)).collect();
    // random larger DAGs (thorough), same on every shard
    if args.thorough {
        let mut rng = Rng::new(vcommon::mix(args.seed, "C03-dags", 0));
        for i in 0..12 {
            let n = 6 + rng.usize(6);
            let mut parents: Vec<Vec<usize>> = vec![vec![]];
            for c in 1..n {
                let mut ps = vec![];
                if !rng.chance(1, 10) {
                    ps.push(rng.usize(c));
                    if rng.chance(1, 3) {
                        let q = rng.usize(c);
                        if !ps.contains(&q) {
                            ps.push(q);
                        }
                    }
                }
                parents.push(ps);
            }
            shapes_.push((format!("random{i}"), parents));
        }
    }
    // every repository gets every DAG (same oids everywhere: deterministic commits)
    let dags: Vec<Vec<Dag>> = w.repos.iter().map(|(_, r)| shapes_.iter().map(|(n, p)| materialize(r.raw(), n, p)).collect()).collect();

    if let Some(path) = &args.replay {
        let wj = vcommon::load_replay(path);
        let wj = if wj.get("case").is_some() { wj["case"].clone() } else { wj };
        let name = wj["dag"].as_str().unwrap();
        let di = shapes_.iter().position(|(n, _)| n == name).expect("dag");
        let tips: Vec<Option<usize>> = wj["delegate_tips"].as_array().unwrap().iter().map(|v| v.as_u64().map(|x| x as usize)).collect();
        let t = wj["threshold"].as_u64().unwrap() as usize;
        case(&mut rep, &w, &dags, di, &tips, t, true);
        rep.finish();
        return;
    }

    let mut idx = 0u64;
    for (di, (_, parents)) in shapes_.iter().enumerate() {
        let m = parents.len();
        let random_dag = di >= shapes().len();
        for k in 1..=kmax {
            // assignments: each delegate on one of the m commits or absent (m+1 choices)
            let total = ((m + 1) as u64).pow(k as u32);
            let exhaustive = !random_dag && total <= 70_000;
            let iter_n = if exhaustive { total } else { 20_000 };
            let mut rng = Rng::new(vcommon::mix(args.seed, "C03-assign", (di * 10 + k) as u64));
            for a in 0..iter_n {
                idx += 1;
                let code = if exhaustive { a } else { rng.below(total) };
                if idx % args.shards != args.shard {
                    continue;
                }
                let mut tips = vec![];
                let mut c = code;
                for _ in 0..k {
                    let v = (c % (m as u64 + 1)) as usize;
                    c /= m as u64 + 1;
                    tips.push(if v == m { None } else { Some(v) });
                }
                for t in 1..=k {
                    let with_refs = (idx / args.shards + t as u64) % 97 == 0;
                    case(&mut rep, &w, &dags, di, &tips, t, with_refs);
                }
            }
            if exhaustive {
                rep.count("exhaustive.(dag,k)-blocks");
            }
        }
    }
    rep.finish();
}
