//! Monitors over real git storage: C03 (canonical head quorum), C28 (storage cleanup).
mod c03;
mod c28;
mod fx;

fn main() {
    vcommon::install_panic_hook();
    let args = vcommon::Args::parse();
    match args.prop.as_str() {
        "C03" => c03::run(&args),
        "C28" => c28::run(&args),
        p => {
            eprintln!("h-git: unknown property {p}");
            std::process::exit(2);
        }
    }
}
