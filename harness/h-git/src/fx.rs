//! Fixtures: real storage, multi-delegate repositories, deterministic commits.
use std::path::Path;

use radicle::crypto::test::signer::MockSigner;
use radicle::git;
use radicle::identity::doc::{RawDoc, Visibility};
use radicle::identity::{Did, Project};
use radicle::node::device::Device;
use radicle::node::Alias;
use radicle::storage::git::{Repository, Storage};
use radicle::storage::{SignRepository, WriteRepository};

pub type Dev = Device<MockSigner>;

pub fn device(tag: u8, i: u8) -> Dev {
    let mut seed = [tag; 32];
    seed[0] = i;
    seed[31] = i.wrapping_mul(37).wrapping_add(tag);
    Device::mock_from_seed(seed)
}

pub fn did(d: &Dev) -> Did {
    Did::from(*d.public_key())
}

pub fn storage(path: &Path, local: &Dev) -> Storage {
    Storage::open(
        path.join("storage"),
        git::UserInfo {
            alias: Alias::new("verif"),
            key: *local.public_key(),
        },
    )
    .expect("storage")
}

/// A repository whose identity document has the given delegates/threshold; `name` varies the rid.
pub fn repository(storage: &Storage, delegates: &[&Dev], threshold: usize, name: &str, visibility: Visibility) -> Repository {
    let project = Project::new(
        name.to_string().try_into().expect("project name"),
        "verif".to_string(),
        git::refname!("master"),
    )
    .expect("project");
    let doc = RawDoc::new(project, delegates.iter().map(|d| did(d)).collect(), threshold, visibility)
        .verified()
        .expect("valid doc");
    let (repo, _) = Repository::init(&doc, storage, delegates[0]).expect("init");
    // as `rad::init` does: sign the creator's refs and set the canonical identity head
    repo.sign_refs(delegates[0]).expect("sign_refs");
    repo.set_identity_head().expect("set_identity_head");
    repo
}

/// Deterministic commit (fixed time, message = label) on an empty tree.
pub fn commit(repo: &git2::Repository, label: &str, parents: &[git2::Oid]) -> git2::Oid {
    let sig = git2::Signature::new("verif", "verif@localhost", &git2::Time::new(1_700_000_000, 0)).unwrap();
    let tree = {
        let tb = repo.treebuilder(None).unwrap();
        tb.write().unwrap()
    };
    let tree = repo.find_tree(tree).unwrap();
    let parents: Vec<git2::Commit> = parents.iter().map(|p| repo.find_commit(*p).unwrap()).collect();
    let prefs: Vec<&git2::Commit> = parents.iter().collect();
    repo.commit(None, &sig, &sig, label, &tree, &prefs).unwrap()
}

/// All references of the repository, raw: name -> target (symbolic refs as "sym:<target>").
pub fn snapshot(repo: &git2::Repository) -> std::collections::BTreeMap<String, String> {
    let mut m = std::collections::BTreeMap::new();
    for r in repo.references().unwrap() {
        let r = r.unwrap();
        let name = String::from_utf8_lossy(r.name_bytes()).to_string();
        let val = match r.kind() {
            Some(git2::ReferenceType::Symbolic) => format!("sym:{}", String::from_utf8_lossy(r.symbolic_target_bytes().unwrap_or(b""))),
            _ => r.target().map(|o| o.to_string()).unwrap_or_default(),
        };
        m.insert(name, val);
    }
    m
}

/// Namespace component of a `refs/namespaces/<ns>/...` ref name.
pub fn namespace_of(refname: &str) -> Option<&str> {
    refname.strip_prefix("refs/namespaces/")?.split('/').next()
}
