//! C28 — Storage cleanup never deletes the local or delegate namespaces.
//!
//! Real storage; repositories with 1-4 delegates, local node delegate or not, 0-5 other remotes,
//! namespaces with/without `rad/sigrefs`, symbolic refs. Oracle over raw git2 ref snapshots taken
//! before and after `Storage::clean` / `Repository::clean`.
use std::collections::{BTreeMap, BTreeSet};

use radicle::identity::doc::Visibility;
use radicle::storage::{ReadRepository, SignRepository, WriteRepository, WriteStorage};
use vcommon::{guarded, json, Args, Reporter, Rng};

use crate::fx::{self, Dev};

fn namespaces(snap: &BTreeMap<String, String>) -> BTreeSet<String> {
    snap.keys().filter_map(|k| fx::namespace_of(k).map(|s| s.to_string())).collect()
}

fn one(rep: &mut Reporter, seed: u64, idx: u64) {
    rep.case(seed);
    let mut rng = Rng::new(seed);
    let tmp = vcommon::scratch_dir();
    let ndel = 1 + rng.usize(4);
    let local_is_delegate = rng.bool();
    let delegates: Vec<Dev> = (0..ndel as u8).map(|i| fx::device(7, i)).collect();
    let local: Dev = if local_is_delegate { delegates[rng.usize(ndel)].clone() } else { fx::device(9, 0) };
    let nothers = rng.usize(6);
    let others: Vec<Dev> = (0..nothers as u8).map(|i| fx::device(11, i)).collect();
    let storage = fx::storage(tmp.path(), &local);
    let ds: Vec<&Dev> = delegates.iter().collect();
    let threshold = 1 + rng.usize(ndel);
    let repo = fx::repository(&storage, &ds, threshold, &format!("c28-{idx}"), if rng.bool() { Visibility::Public } else { Visibility::private([]) });
    let rid = repo.id;
    // In half of the cases the delegate set changes after creation: a new identity revision (accepted by a
    // majority of the delegates of the document it replaces) adds some of the other peers and/or drops an
    // original delegate. "Delegate" in the property is a delegate of the *current* document.
    let mut current: Vec<Dev> = delegates.clone();
    if rng.bool() {
        let evolved = guarded(|| -> Result<Vec<Dev>, String> {
            let mut identity = radicle::cob::identity::Identity::load_mut(&repo).map_err(|e| e.to_string())?;
            let mut next: Vec<Dev> = delegates.clone();
            let mut raw_doc = identity.doc().clone().edit();
            let nadd = if others.is_empty() { 0 } else { 1 + rng.usize(others.len().min(2)) };
            for o in others.iter().take(nadd) {
                raw_doc.delegate(fx::did(o));
                next.push(o.clone());
            }
            if delegates.len() >= 2 && (nadd == 0 || rng.chance(1, 3)) {
                // drop one original delegate (never the local node: its role does not matter for it)
                let victim = 1 + rng.usize(delegates.len() - 1);
                if delegates[victim].public_key() != local.public_key() {
                    raw_doc.rescind(&fx::did(&delegates[victim])).map_err(|e| e.to_string())?;
                    next.retain(|d| d.public_key() != delegates[victim].public_key());
                }
            }
            raw_doc.threshold = raw_doc.threshold.min(next.len()).max(1);
            let doc = raw_doc.verified().map_err(|e| e.to_string())?;
            if doc == *identity.doc() {
                return Ok(delegates.clone());
            }
            let rev = identity.update("change delegates", "verif", &doc, &delegates[0]).map_err(|e| e.to_string())?;
            for d in delegates.iter().skip(1) {
                if identity.current == rev {
                    break;
                }
                identity.accept(&rev, d).map_err(|e| e.to_string())?;
            }
            if identity.current != rev {
                return Err("revision not adopted".into());
            }
            repo.set_identity_head().map_err(|e| e.to_string())?;
            Ok(next)
        });
        match evolved {
            Ok(Ok(next)) => {
                let got: BTreeSet<String> = repo.delegates().map(|ds| ds.iter().map(|d| d.as_key().to_string()).collect()).unwrap_or_default();
                let want: BTreeSet<String> = next.iter().map(|d| d.public_key().to_string()).collect();
                if got != want {
                    rep.inconclusive("fixture: delegate set after the identity update is not the intended one", json!({"got": got, "want": want}));
                    return;
                }
                if want != delegates.iter().map(|d| d.public_key().to_string()).collect::<BTreeSet<_>>() {
                    rep.count("cases.delegate-set-changed-after-creation");
                    if next.len() > delegates.len() || next.iter().any(|d| others.iter().any(|o| o.public_key() == d.public_key())) {
                        rep.count("cases.delegate-added-after-creation");
                    }
                }
                current = next;
            }
            other => {
                rep.inconclusive("fixture: identity update failed", json!({"r": format!("{other:?}")}));
                return;
            }
        }
    }
    let raw = repo.raw();
    let base = fx::commit(raw, "base", &[]);
    // who gets refs / sigrefs
    let local_has_sigrefs = rng.chance(3, 4);
    let mut plan: Vec<(String, &Dev, bool /*sigrefs*/, bool /*symbolic*/)> = vec![];
    for d in &delegates {
        plan.push(("delegate".into(), d, rng.chance(4, 5), rng.chance(1, 4)));
    }
    if !local_is_delegate {
        plan.push(("local".into(), &local, local_has_sigrefs, rng.chance(1, 4)));
    }
    for o in &others {
        plan.push(("other".into(), o, rng.chance(4, 5), rng.chance(1, 3)));
    }
    let mut setup_err = None;
    for (role, dev, sig, sym) in &plan {
        let ns = dev.public_key().to_string();
        let c = fx::commit(raw, &format!("c-{ns}"), &[base]);
        raw.reference(&format!("refs/namespaces/{ns}/refs/heads/master"), c, true, "verif").unwrap();
        if rng.bool() {
            raw.reference(&format!("refs/namespaces/{ns}/refs/tags/v1"), base, true, "verif").unwrap();
        }
        if *sym {
            let _ = raw.reference_symbolic(&format!("refs/namespaces/{ns}/refs/heads/alias"), &format!("refs/namespaces/{ns}/refs/heads/master"), true, "verif");
        }
        let is_local = dev.public_key() == local.public_key();
        let want_sig = if is_local { local_has_sigrefs } else { *sig };
        if want_sig {
            if let Err(e) = repo.sign_refs(*dev) {
                setup_err = Some(format!("sign_refs({role}): {e}"));
            }
        }
    }
    if let Some(e) = setup_err {
        rep.inconclusive("fixture", json!({"error": e}));
        return;
    }
    let before = fx::snapshot(raw);
    let ns_before = namespaces(&before);
    let local_ns = local.public_key().to_string();
    let local_sigrefs_before = before.contains_key(&format!("refs/namespaces/{local_ns}/refs/rad/sigrefs"));
    let protected: BTreeSet<String> = current.iter().map(|d| d.public_key().to_string()).chain([local_ns.clone()]).collect();
    let path = raw.path().to_path_buf();
    let via_storage = rng.chance(2, 3);
    rep.eval();
    let r = guarded(|| {
        if via_storage {
            storage.clean(rid).map_err(|e| e.to_string())
        } else {
            repo.clean(local.public_key()).map_err(|e| e.to_string())
        }
    });
    let call = if via_storage { "Storage::clean" } else { "Repository::clean" };
    let witness = |extra: serde_json_value| {
        json!({"seed": seed, "idx": idx, "call": call, "delegates_at_creation": delegates.iter().map(|d| d.public_key().to_string()).collect::<Vec<_>>(),
               "delegates": current.iter().map(|d| d.public_key().to_string()).collect::<Vec<_>>(),
               "local": local_ns, "local_is_delegate": local_is_delegate, "local_sigrefs": local_sigrefs_before,
               "namespaces_before": ns_before, "detail": extra})
    };
    let result = match r {
        Err(p) => {
            rep.violation(&format!("C28/panic/{}", vcommon::panic_site(&p)), witness(json!({"panic": p})));
            return;
        }
        Ok(r) => r,
    };
    let exists = path.exists();
    if !exists {
        rep.count("repository-removed");
        if local_sigrefs_before {
            rep.violation("C28/repository-removed-although-local-has-sigrefs", witness(json!({"result": format!("{result:?}")})));
        }
        return;
    }
    let reopened = git2::Repository::open_bare(&path).unwrap();
    let after = fx::snapshot(&reopened);
    let ns_after = namespaces(&after);
    let removed: BTreeSet<String> = ns_before.difference(&ns_after).cloned().collect();
    for ns in &removed {
        if protected.contains(ns) {
            let sig = if *ns == local_ns { "C28/local-namespace-removed" } else { "C28/delegate-namespace-removed" };
            rep.violation(sig, witness(json!({"removed": removed, "result": format!("{result:?}")})));
        }
    }
    // refs of protected namespaces are untouched
    for (name, target) in &before {
        if let Some(ns) = fx::namespace_of(name) {
            if protected.contains(ns) && after.get(name) != Some(target) {
                rep.violation("C28/ref-of-protected-namespace-changed", witness(json!({"ref": name, "before": target, "after": after.get(name)})));
                break;
            }
        }
    }
    if !removed.is_empty() {
        rep.count("cases.with-namespaces-removed");
        rep.nontrivial(vcommon::fnv(format!("{seed}").as_bytes()));
    }
    if result.is_err() {
        rep.count("clean-returned-error");
    }
    if !local_is_delegate {
        rep.count("cases.local-not-delegate");
    }
    if !local_sigrefs_before {
        rep.count("cases.local-without-sigrefs");
    }
    if rep.wants_sample() && !removed.is_empty() {
        rep.sample(witness(json!({"removed": removed, "namespaces_after": ns_after, "result": format!("{result:?}")})));
    }
}

#[allow(non_camel_case_types)]
type serde_json_value = vcommon::Value;

pub fn run(args: &Args) {
    let mut rep = Reporter::new("C28");
    if let Some(path) = &args.replay {
        let w = vcommon::load_replay(path);
        one(&mut rep, w["seed"].as_u64().unwrap(), w["idx"].as_u64().unwrap());
        rep.finish();
        return;
    }
    for k in 0..args.budget(640, 16_000) {
        one(&mut rep, args.case_seed(k), args.index(k));
    }
    rep.finish();
}
