//! Monitors for the node's persistent (SQLite) stores.
//! C24 (node databases behave like their simple models).
mod c24;

fn main() {
    vcommon::install_panic_hook();
    let args = vcommon::Args::parse();
    match args.prop.as_str() {
        "C24" => c24::run(&args),
        p => {
            eprintln!("h-db: unknown property {p}");
            std::process::exit(2);
        }
    }
}
