//! Monitors for the node's persistent (SQLite) stores.
//! C24 (node databases behave like their simple models).
mod c24;

fn main() {
    vcommon::install_panic_hook();
    // Every case opens and drops an in-memory SQLite database; without this glibc gives the heap top
    // back to the kernel and re-grows it ~100 times per case (brk storms dominate the run time).
    // SAFETY: mallopt only tunes the allocator; called before any other thread exists.
    unsafe {
        use vcommon::libc;
        libc::mallopt(libc::M_TRIM_THRESHOLD, 1 << 30);
        libc::mallopt(libc::M_TOP_PAD, 64 << 20);
        libc::mallopt(libc::M_MMAP_THRESHOLD, 1 << 30);
    }
    let args = vcommon::Args::parse();
    match args.prop.as_str() {
        "C24" => c24::run(&args),
        p => {
            eprintln!("h-db: unknown property {p}");
            std::process::exit(2);
        }
    }
}
