//! Cached refs (`radicle::node::refs::Store` on `Database`, table `refs`).
//!
//! Model: `BTreeMap<(repo, namespace, refname), (oid, timestamp)>`.
//!
//! Reading of the semantics (property statement + unit tests `test_set_and_get`,
//! `test_set_and_delete`, `test_count`): `set` stores a new key (true); an existing key moves to
//! `(oid, t)` only when `t` is strictly newer AND `oid` differs (true); otherwise nothing changes,
//! not even the timestamp (false). `get` returns the stored pair, `delete` returns whether the key
//! existed, `count`/`is_empty` count keys. Ref names are compared exactly (case-sensitive).
use std::collections::BTreeMap;

use localtime::LocalTime;
use radicle::git::{Qualified, RefString};
use radicle::node::refs::Store as _;
use radicle::node::Database;
use vcommon::{json, Rng, Value};

use super::{gen_ts, inconclusive, ju, jus, pools, relation, viol, Ctx, Stop, Suite, I64MAX};

const NR: usize = 3;
const NN: usize = 3;
const NO: usize = 4;
/// Includes a pair that differs only in case, and the name the service really caches.
const NAMES: [&str; 4] = ["refs/rad/sigrefs", "refs/heads/main", "refs/heads/Main", "refs/heads/main/x"];

pub struct Refs;

#[derive(Clone, Debug)]
pub enum Op {
    Set { repo: usize, ns: usize, name: usize, oid: usize, ts: u64 },
    Delete { repo: usize, ns: usize, name: usize },
}

type Key = (usize, usize, usize);
type Model = BTreeMap<Key, (usize, u64)>;

pub struct State {
    db: Database,
    model: Model,
    names: Vec<Qualified<'static>>,
}

fn show(m: &Model) -> Value {
    json!(m.iter().map(|((r, n, f), (o, t))| json!({"repo": r, "ns": n, "name": NAMES[*f], "oid": o, "ts": t})).collect::<Vec<_>>())
}

fn observe(st: &State) -> Result<Model, Stop> {
    let p = pools();
    let mut obs = Model::new();
    for r in 0..NR {
        for n in 0..NN {
            for (f, name) in st.names.iter().enumerate() {
                match st.db.get(&p.repos[r], &p.nodes[n], name) {
                    Ok(Some((oid, t))) => {
                        let Some(o) = p.oid_ix(&oid) else {
                            return viol("C24/refs/get-returns-unknown-oid", json!({"oid": oid.to_string()}));
                        };
                        obs.insert((r, n, f), (o, t.as_millis()));
                    }
                    Ok(None) => {}
                    Err(e) => return inconclusive("refs read failed", e),
                }
            }
        }
    }
    match st.db.count() {
        Ok(c) if c == obs.len() => {}
        Ok(c) => return viol("C24/refs/count-disagrees-with-get", json!({"count": c, "keys_found_by_get": obs.len()})),
        Err(e) => return inconclusive("refs read failed", e),
    }
    match st.db.is_empty() {
        Ok(b) if b == obs.is_empty() => {}
        Ok(b) => return viol("C24/refs/is_empty-disagrees-with-get", json!({"is_empty": b, "keys_found_by_get": obs.len()})),
        Err(e) => return inconclusive("refs read failed", e),
    }
    Ok(obs)
}

impl Suite for Refs {
    const NAME: &'static str = "refs";
    type Op = Op;
    type State = State;

    fn setup(_variant: u64) -> Result<State, String> {
        let db = Database::memory().map_err(|e| e.to_string())?;
        let names = NAMES
            .iter()
            .map(|s| {
                let r = RefString::try_from(*s).map_err(|e| e.to_string())?;
                Qualified::from_refstr(r).map(|q| q.to_owned()).ok_or_else(|| format!("{s} is not qualified"))
            })
            .collect::<Result<Vec<_>, String>>()?;
        Ok(State { db, model: Model::new(), names })
    }

    fn gen(rng: &mut Rng, st: &State) -> Op {
        let key = if !st.model.is_empty() && rng.chance(7, 10) {
            *st.model.keys().nth(rng.usize(st.model.len())).expect("in range")
        } else {
            (rng.usize(NR), rng.usize(NN), rng.usize(NAMES.len()))
        };
        if rng.chance(1, 9) {
            return Op::Delete { repo: key.0, ns: key.1, name: key.2 };
        }
        let existing = st.model.get(&key).copied();
        let oid = match existing {
            Some((o, _)) if rng.chance(2, 5) => o,
            _ => rng.usize(NO),
        };
        Op::Set { repo: key.0, ns: key.1, name: key.2, oid, ts: gen_ts(rng, existing.map(|e| e.1), true) }
    }

    fn step(st: &mut State, op: &Op, cx: &mut Ctx) -> Result<(), Stop> {
        let p = pools();
        match op {
            Op::Delete { repo, ns, name } => {
                let want = st.model.remove(&(*repo, *ns, *name)).is_some();
                cx.count(if want { "refs.delete.existing" } else { "refs.delete.absent" });
                match st.db.delete(&p.repos[*repo], &p.nodes[*ns], &st.names[*name]) {
                    Ok(got) if got == want => {}
                    Ok(got) => return viol("C24/refs/delete-result-disagrees-with-model", json!({"got": got, "want": want})),
                    Err(e) => return inconclusive("refs delete failed", e),
                }
            }
            Op::Set { repo, ns, name, oid, ts: t } => {
                let key = (*repo, *ns, *name);
                let r = st.db.set(&p.repos[*repo], &p.nodes[*ns], &st.names[*name], p.oids[*oid], LocalTime::from_millis(*t as u128));
                if *t > I64MAX {
                    cx.count("observed:refs.set.timestamp-above-i64(refused)");
                    if r.is_ok() {
                        return inconclusive("refs accepted a timestamp above i64::MAX", t);
                    }
                } else {
                    let prev = st.model.get(&key).copied();
                    let same_oid = prev.is_some_and(|(o, _)| o == *oid);
                    let rel = relation(*t, prev.map(|x| x.1));
                    cx.count(&format!("refs.set.{rel}.{}", if prev.is_none() { "new" } else if same_oid { "same-oid" } else { "different-oid" }));
                    if prev.is_some() {
                        cx.contended += 1;
                    }
                    if *t >= I64MAX - 2 || prev.is_some_and(|(_, o)| o >= I64MAX - 2) {
                        cx.count("refs.set.at-i64-boundary");
                    }
                    if *name == 1 || *name == 2 {
                        let twin = (*repo, *ns, 3 - *name);
                        if st.model.contains_key(&twin) {
                            cx.count("refs.set.name-differing-only-in-case-is-stored");
                        }
                    }
                    let want = match prev {
                        None => true,
                        Some((o, old)) => *t > old && o != *oid,
                    };
                    if want {
                        st.model.insert(key, (*oid, *t));
                    }
                    let got = match r {
                        Ok(b) => b,
                        Err(e) => return inconclusive("refs set failed on in-range input", e),
                    };
                    let obs = observe(st)?;
                    let now = obs.get(&key).copied();
                    let w = json!({"op": Self::to_json(op), "stored_before": prev.map(|(o, t)| json!({"oid": o, "ts": t})),
                                   "stored_after": now.map(|(o, t)| json!({"oid": o, "ts": t}))});
                    if let (Some((po, pt)), false) = (prev, want) {
                        if now != prev {
                            if *t <= pt {
                                return viol("C24/refs/entry-replaced-by-not-strictly-newer-timestamp", w);
                            }
                            if po == *oid {
                                return viol("C24/refs/timestamp-moved-although-oid-unchanged", w);
                            }
                        }
                    }
                    if want && prev.is_some() && now == prev {
                        return viol("C24/refs/strictly-newer-different-oid-not-stored", w);
                    }
                    if got != want {
                        return viol("C24/refs/set-result-disagrees-with-model", json!({"got": got, "want": want, "case": w}));
                    }
                    if obs != st.model {
                        return viol("C24/refs/content-disagrees-with-model", json!({"got": show(&obs), "want": show(&st.model)}));
                    }
                    return Ok(());
                }
            }
        }
        let obs = observe(st)?;
        if obs != st.model {
            return viol("C24/refs/content-disagrees-with-model", json!({"got": show(&obs), "want": show(&st.model)}));
        }
        Ok(())
    }

    fn to_json(op: &Op) -> Value {
        match op {
            Op::Set { repo, ns, name, oid, ts } => json!({"op": "set", "repo": repo, "ns": ns, "name": name, "refname": NAMES[*name], "oid": oid, "ts": ts}),
            Op::Delete { repo, ns, name } => json!({"op": "delete", "repo": repo, "ns": ns, "name": name, "refname": NAMES[*name]}),
        }
    }

    fn from_json(v: &Value) -> Option<Op> {
        Some(match v["op"].as_str()? {
            "set" => Op::Set { repo: jus(v, "repo")?, ns: jus(v, "ns")?, name: jus(v, "name")?, oid: jus(v, "oid")?, ts: ju(v, "ts")? },
            "delete" => Op::Delete { repo: jus(v, "repo")?, ns: jus(v, "ns")?, name: jus(v, "name")? },
            _ => return None,
        })
    }
}
