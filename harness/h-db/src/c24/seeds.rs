//! Repository sync status (`radicle::node::seed::Store` on `Database`, table `repo-sync-status`).
//!
//! Model: `BTreeMap<(repo, node), (oid, timestamp)>`.
//!
//! Reading of the semantics (property statement; the store has no unit tests of its own, the twin
//! refs cache has `test_set_and_get`): `synced(rid, nid, at, t)` stores the pair when there is no
//! entry yet (returns true); an existing entry moves to `(at, t)` only when `t` is strictly newer
//! AND `at` differs from the stored head (returns true); in every other case — tie, regression, or
//! same head with a newer time — nothing changes, not even the timestamp (returns false).
//! `seeds_for(rid)` / `seeded_by(nid)` list exactly the stored entries (with the node's known
//! addresses attached, which come from the fixture).
use std::collections::BTreeMap;

use radicle::node::address::{Source, Store as _};
use radicle::node::seed::Store as _;
use radicle::node::{Address, Alias, Database, Features, KnownAddress, UserAgent};
use vcommon::{json, Rng, Value};

use super::{gen_ts, inconclusive, ju, jus, pools, relation, ts, viol, Ctx, Stop, Suite, I64MAX};

const NN: usize = 4;
const NR: usize = 4;
const NO: usize = 4;

pub struct Seeds;

#[derive(Clone, Debug)]
pub enum Op {
    Synced { repo: usize, node: usize, oid: usize, ts: u64 },
}

type Model = BTreeMap<(usize, usize), (usize, u64)>;

pub struct State {
    db: Database,
    model: Model,
    /// Fixture: the address registered for each node (None = node has no address).
    addrs: Vec<Option<Address>>,
}

fn show(m: &Model) -> Value {
    json!(m.iter().map(|((r, n), (o, t))| json!({"repo": r, "node": n, "oid": o, "ts": t})).collect::<Vec<_>>())
}

fn observe(st: &State) -> Result<Model, Stop> {
    let p = pools();
    let mut by_repo = Model::new();
    for r in 0..NR {
        let it = match st.db.seeds_for(&p.repos[r]) {
            Ok(it) => it,
            Err(e) => return inconclusive("seeds read failed", e),
        };
        for s in it {
            let s = match s {
                Ok(s) => s,
                Err(e) => return inconclusive("seeds read failed", e),
            };
            let (Some(n), Some(o)) = (p.node_ix(&s.nid), p.oid_ix(&s.synced_at.oid)) else {
                return viol("C24/seeds/seeds_for-lists-unknown-node-or-oid", json!({"nid": s.nid.to_string(), "oid": s.synced_at.oid.to_string()}));
            };
            if by_repo.insert((r, n), (o, s.synced_at.timestamp.as_millis())).is_some() {
                return viol("C24/seeds/seeds_for-lists-duplicate", json!({"repo": r, "node": n}));
            }
            // attached addresses are fixture data: they must be the ones registered for the node
            let got: Vec<&Address> = s.addresses.iter().map(|k| &k.addr).collect();
            let want: Vec<&Address> = st.addrs.get(n).and_then(|a| a.as_ref()).into_iter().collect();
            if got != want {
                return viol("C24/seeds/seeds_for-attaches-wrong-addresses", json!({"node": n, "got": format!("{got:?}"), "want": format!("{want:?}")}));
            }
        }
    }
    let mut by_node = Model::new();
    for n in 0..NN {
        let it = match st.db.seeded_by(&p.nodes[n]) {
            Ok(it) => it,
            Err(e) => return inconclusive("seeds read failed", e),
        };
        for s in it {
            let (rid, at) = match s {
                Ok(s) => s,
                Err(e) => return inconclusive("seeds read failed", e),
            };
            let (Some(r), Some(o)) = (p.repo_ix(&rid), p.oid_ix(&at.oid)) else {
                return viol("C24/seeds/seeded_by-lists-unknown-repo-or-oid", json!({"rid": rid.to_string(), "oid": at.oid.to_string()}));
            };
            if by_node.insert((r, n), (o, at.timestamp.as_millis())).is_some() {
                return viol("C24/seeds/seeded_by-lists-duplicate", json!({"repo": r, "node": n}));
            }
        }
    }
    if by_repo != by_node {
        return viol("C24/seeds/seeds_for-disagrees-with-seeded_by", json!({"seeds_for": show(&by_repo), "seeded_by": show(&by_node)}));
    }
    Ok(by_repo)
}

impl Suite for Seeds {
    const NAME: &'static str = "seeds";
    type Op = Op;
    type State = State;

    /// variant 0: foreign keys ON, nodes registered (even ones with an address); variant 1: foreign
    /// keys OFF, no node registered.
    fn setup(variant: u64) -> Result<State, String> {
        let mut db = Database::memory().map_err(|e| e.to_string())?;
        let mut addrs = vec![None; NN];
        if variant == 0 {
            for (n, slot) in addrs.iter_mut().enumerate() {
                let a = (n % 2 == 0).then(|| Address::from(std::net::SocketAddr::from(([10, 0, 0, n as u8 + 1], 8776))));
                db.insert(
                    &pools().nodes[n],
                    1,
                    Features::SEED,
                    &Alias::new(format!("node{n}")),
                    0,
                    &UserAgent::default(),
                    ts(1),
                    a.iter().map(|a| KnownAddress::new(a.clone(), Source::Peer)),
                )
                .map_err(|e| e.to_string())?;
                *slot = a;
            }
        } else {
            db.db.execute("PRAGMA foreign_keys = OFF").map_err(|e| e.to_string())?;
        }
        Ok(State { db, model: Model::new(), addrs })
    }

    fn gen(rng: &mut Rng, st: &State) -> Op {
        // mostly an existing key, so that tie / regression / same-head cases dominate
        let (repo, node) = if !st.model.is_empty() && rng.chance(7, 10) {
            *st.model.keys().nth(rng.usize(st.model.len())).expect("in range")
        } else {
            (rng.usize(NR), rng.usize(NN))
        };
        let existing = st.model.get(&(repo, node)).copied();
        let oid = match existing {
            Some((o, _)) if rng.chance(2, 5) => o,
            _ => rng.usize(NO),
        };
        Op::Synced { repo, node, oid, ts: gen_ts(rng, existing.map(|e| e.1), true) }
    }

    fn step(st: &mut State, op: &Op, cx: &mut Ctx) -> Result<(), Stop> {
        let p = pools();
        let Op::Synced { repo, node, oid, ts: t } = op;
        let key = (*repo, *node);
        let r = st.db.synced(&p.repos[*repo], &p.nodes[*node], p.oids[*oid], ts(*t));
        if *t > I64MAX {
            cx.count("observed:seeds.synced.timestamp-above-i64(refused)");
            if r.is_ok() {
                return inconclusive("seeds accepted a timestamp above i64::MAX", t);
            }
            let obs = observe(st)?;
            if obs != st.model {
                return viol("C24/seeds/content-disagrees-with-model", json!({"got": show(&obs), "want": show(&st.model)}));
            }
            return Ok(());
        }
        let prev = st.model.get(&key).copied();
        let same_head = prev.is_some_and(|(o, _)| o == *oid);
        let rel = relation(*t, prev.map(|x| x.1));
        cx.count(&format!("seeds.synced.{rel}.{}", if prev.is_none() { "new" } else if same_head { "same-head" } else { "different-head" }));
        if prev.is_some() {
            cx.contended += 1;
        }
        if *t >= I64MAX - 2 || prev.is_some_and(|(_, o)| o >= I64MAX - 2) {
            cx.count("seeds.synced.at-i64-boundary");
        }
        let want = match prev {
            None => true,
            Some((o, old)) => *t > old && o != *oid,
        };
        if want {
            st.model.insert(key, (*oid, *t));
        }
        let got = match r {
            Ok(b) => b,
            Err(e) => return inconclusive("seeds synced failed on in-range input", e),
        };
        let obs = observe(st)?;
        let now = obs.get(&key).copied();
        let w = json!({"op": Self::to_json(op), "stored_before": prev.map(|(o, t)| json!({"oid": o, "ts": t})),
                       "stored_after": now.map(|(o, t)| json!({"oid": o, "ts": t}))});
        if let (Some((po, pt)), false) = (prev, want) {
            // the model keeps the old entry: classify what the store did instead
            if now != prev {
                if *t <= pt {
                    return viol("C24/seeds/entry-replaced-by-not-strictly-newer-timestamp", w);
                }
                if po == *oid {
                    return viol("C24/seeds/timestamp-moved-although-head-unchanged", w);
                }
            }
        }
        if want && prev.is_some() && now == prev {
            return viol("C24/seeds/strictly-newer-different-head-not-stored", w);
        }
        if got != want {
            return viol("C24/seeds/synced-result-disagrees-with-model", json!({"got": got, "want": want, "case": w}));
        }
        if obs != st.model {
            return viol("C24/seeds/content-disagrees-with-model", json!({"got": show(&obs), "want": show(&st.model)}));
        }
        Ok(())
    }

    fn to_json(op: &Op) -> Value {
        let Op::Synced { repo, node, oid, ts } = op;
        json!({"op": "synced", "repo": repo, "node": node, "oid": oid, "ts": ts})
    }

    fn from_json(v: &Value) -> Option<Op> {
        match v["op"].as_str()? {
            "synced" => Some(Op::Synced { repo: jus(v, "repo")?, node: jus(v, "node")?, oid: jus(v, "oid")?, ts: ju(v, "ts")? }),
            _ => None,
        }
    }
}
