//! Gossip announcement store (`radicle_node::service::gossip::Store` on `Database`, table
//! `announcements`).
//!
//! Model: `BTreeMap<(node, kind, repo), Row { id, timestamp, payload, relay }>` where `repo` is only
//! significant for refs announcements.
//!
//! Reading of the semantics (trait docs, schema comments, unit test `test_announced`, and how
//! `Service` uses the store):
//! * `announced(nid, ann)`: no announcement of that kind (and repository, for refs) from that node
//!   -> stored, returns `Some(new id)`; one is stored and `ann` is strictly newer -> message,
//!   signature and timestamp replaced, same id returned; otherwise (tie, older) nothing changes and
//!   `None` is returned. Announcements of other nodes / kinds / repositories are never touched.
//! * a row is created with relay status "don't relay"; `set_relay(id, s)` sets it (unknown id: no
//!   effect); replacing the message leaves it as it is; `relays(now)` returns the rows marked
//!   `Relay` in id order and marks them relayed.
//! * `prune(cutoff)` removes exactly the rows older than `cutoff` and returns their number.
//! * `filtered(filter, from, to)` returns the stored announcements with `from <= t < to`, refs
//!   announcements only if the (bloom) filter contains their repository. No order is demanded.
//!   A bloom filter may have false positives: repositories not inserted are "may match".
//! * `last()` is the greatest stored timestamp.
//! Never fed here (they belong to C13): timestamp 0 to `announced`, `from > to` to `filtered`.
use std::collections::BTreeMap;

use radicle::node::{Alias, Database, Features, UserAgent};
use radicle::storage::refs::RefsAt;
use radicle_crypto::Signature;
use radicle_node::bounded::BoundedVec;
use radicle_node::service::filter::Filter;
use radicle_node::service::gossip::{RelayStatus, Store as _};
use radicle_node::service::message::{
    Announcement, AnnouncementMessage, InventoryAnnouncement, NodeAnnouncement, RefsAnnouncement,
};
use vcommon::{json, Rng, Value};

use super::{gen_ts, inconclusive, ju, jus, pools, relation, ts, viol, Ctx, Stop, Suite, I64MAX};

const NN: usize = 4;
const NR: usize = 3;
const KINDS: [&str; 3] = ["inventory", "node", "refs"];
/// `mask` value selecting `Filter::default()` (matches every repository).
const ALL: u64 = 255;

pub struct Gossip;

#[derive(Clone, Debug)]
pub enum Op {
    Announce { node: usize, kind: usize, repo: usize, ts: u64, variant: u64 },
    /// `status`: 0 = Relay, 1 = DontRelay, 2 = RelayedAt(at). The row is named by its key; if no such
    /// row is stored an id that no row has is used.
    SetRelay { node: usize, kind: usize, repo: usize, status: u64, at: u64 },
    Relays { now: u64 },
    Prune { cutoff: u64 },
    Filtered { mask: u64, from: u64, to: u64 },
}

#[derive(Clone, Copy, Debug, PartialEq, Eq)]
enum Relay {
    Relay,
    Dont,
    At(u64),
}

#[derive(Clone, Debug, PartialEq, Eq)]
struct Row {
    id: u64,
    ts: u64,
    variant: u64,
    relay: Relay,
}

type Key = (usize, usize, usize);
type Model = BTreeMap<Key, Row>;

pub struct State {
    db: Database,
    model: Model,
}

fn key(node: usize, kind: usize, repo: usize) -> Key {
    (node, kind, if kind == 2 { repo } else { 0 })
}

/// The announcement a (key, timestamp, variant) stands for. Payload and signature depend on
/// `variant`, so two announcements with equal timestamps are still distinguishable.
fn build(k: Key, t: u64, variant: u64) -> Announcement {
    let p = pools();
    let mut sig = [0u8; 64];
    Rng::new(variant ^ 0x5167).fill(&mut sig);
    let v = variant as usize;
    let message = match k.1 {
        0 => AnnouncementMessage::Inventory(InventoryAnnouncement {
            inventory: BoundedVec::collect_from((0..v % 4).map(|i| p.repos[(v / 4 + i) % p.repos.len()])),
            timestamp: ts(t),
        }),
        1 => AnnouncementMessage::Node(NodeAnnouncement {
            version: 1,
            features: if v % 2 == 0 { Features::SEED } else { Features::NONE },
            timestamp: ts(t),
            alias: Alias::new(format!("node-{}", v % 7)),
            addresses: BoundedVec::collect_from(
                (0..v % 3).map(|i| std::net::SocketAddr::from(([10, 1, (v % 200) as u8, i as u8 + 1], 8776)).into()),
            ),
            nonce: variant,
            agent: UserAgent::default(),
        }),
        _ => AnnouncementMessage::Refs(RefsAnnouncement {
            rid: p.repos[k.2],
            refs: BoundedVec::collect_from(
                (0..v % 3).map(|i| RefsAt { remote: p.nodes[(v / 3 + i) % p.nodes.len()], at: p.oids[(v / 5 + i) % p.oids.len()] }),
            ),
            timestamp: ts(t),
        }),
    };
    Announcement { node: p.nodes[k.0], signature: Signature::from(sig), message }
}

fn key_of(a: &Announcement) -> Option<Key> {
    let p = pools();
    let n = p.node_ix(&a.node)?;
    Some(match &a.message {
        AnnouncementMessage::Inventory(_) => (n, 0, 0),
        AnnouncementMessage::Node(_) => (n, 1, 0),
        AnnouncementMessage::Refs(r) => (n, 2, p.repo_ix(&r.rid)?),
    })
}

fn show(m: &Model) -> Value {
    json!(m
        .iter()
        .map(|(k, r)| json!({"node": k.0, "kind": KINDS[k.1], "repo": k.2, "id": r.id, "ts": r.ts, "variant": r.variant, "relay": format!("{:?}", r.relay)}))
        .collect::<Vec<_>>())
}

fn filter_for(mask: u64) -> Filter {
    if mask == ALL {
        Filter::default()
    } else {
        Filter::new((0..NR).filter(|r| mask >> r & 1 == 1).map(|r| pools().repos[r]))
    }
}

/// Run `filtered` and key the result. Duplicates / unknown announcements are violations.
fn run_filtered(db: &Database, mask: u64, from: u64, to: u64) -> Result<Result<BTreeMap<Key, Announcement>, String>, Stop> {
    let f = filter_for(mask);
    let it = match db.filtered(&f, ts(from), ts(to)) {
        Ok(it) => it,
        Err(e) => return Ok(Err(e.to_string())),
    };
    let mut out = BTreeMap::new();
    for a in it {
        let a = match a {
            Ok(a) => a,
            Err(e) => return inconclusive("gossip read failed", e),
        };
        let Some(k) = key_of(&a) else {
            return viol("C24/gossip/filtered-returns-unknown-announcement", json!({"announcement": format!("{a:?}")}));
        };
        if out.insert(k, a).is_some() {
            return viol("C24/gossip/filtered-returns-two-announcements-of-same-node-kind-and-repo", json!({"node": k.0, "kind": KINDS[k.1], "repo": k.2}));
        }
    }
    Ok(Ok(out))
}

/// Everything that can be read back: all announcements below `Timestamp::MAX` (the upper bound of
/// `filtered` is exclusive) and `last()`.
fn check_content(st: &State) -> Result<(), Stop> {
    let got = match run_filtered(&st.db, ALL, 0, I64MAX)? {
        Ok(g) => g,
        Err(e) => return inconclusive("gossip read failed", e),
    };
    let want: BTreeMap<Key, Announcement> = st.model.iter().filter(|(_, r)| r.ts < I64MAX).map(|(k, r)| (*k, build(*k, r.ts, r.variant))).collect();
    if got != want {
        let diff: Vec<Value> = want
            .keys()
            .chain(got.keys())
            .filter(|k| got.get(*k) != want.get(*k))
            .map(|k| json!({"node": k.0, "kind": KINDS[k.1], "repo": k.2, "got": got.get(k).map(|a| format!("{a:?}")), "want": want.get(k).map(|a| format!("{a:?}"))}))
            .take(4)
            .collect();
        return viol("C24/gossip/content-disagrees-with-model", json!({"differences": diff, "model": show(&st.model)}));
    }
    let want_last = st.model.values().map(|r| r.ts).max();
    match st.db.last() {
        Ok(l) if l.map(|t| *t) == want_last => Ok(()),
        Ok(l) => viol("C24/gossip/last-disagrees-with-model", json!({"got": l.map(|t| *t), "want": want_last})),
        Err(e) => inconclusive("gossip read failed", e),
    }
}

impl Suite for Gossip {
    const NAME: &'static str = "gossip";
    type Op = Op;
    type State = State;

    fn setup(_variant: u64) -> Result<State, String> {
        Ok(State { db: Database::memory().map_err(|e| e.to_string())?, model: Model::new() })
    }

    fn gen(rng: &mut Rng, st: &State) -> Op {
        let some = |rng: &mut Rng| -> Option<(Key, Row)> {
            if st.model.is_empty() {
                None
            } else {
                st.model.iter().nth(rng.usize(st.model.len())).map(|(k, r)| (*k, r.clone()))
            }
        };
        let near = |rng: &mut Rng, t: u64| match rng.below(4) {
            0 => t,
            1 => t.saturating_add(1).min(I64MAX),
            2 => t.saturating_sub(1),
            _ => t.saturating_add(rng.below(4)).min(I64MAX),
        };
        match rng.weighted(&[55, 12, 8, 8, 17]) {
            0 => {
                let k = match some(rng) {
                    // same key again (tie / regression / advance) ...
                    Some((k, _)) if rng.chance(11, 20) => k,
                    // ... or the same node with another kind / repository
                    Some((k, _)) if rng.chance(1, 2) => key(k.0, rng.usize(3), rng.usize(NR)),
                    _ => key(rng.usize(NN), rng.usize(3), rng.usize(NR)),
                };
                let existing = st.model.get(&k).map(|r| r.ts);
                let t = gen_ts(rng, existing, true).max(1);
                Op::Announce { node: k.0, kind: k.1, repo: k.2, ts: t, variant: rng.below(1 << 20) }
            }
            1 => {
                let k = match some(rng) {
                    Some((k, _)) if rng.chance(5, 6) => k,
                    _ => key(rng.usize(NN), rng.usize(3), rng.usize(NR)),
                };
                Op::SetRelay { node: k.0, kind: k.1, repo: k.2, status: *rng.pick(&[0, 0, 0, 1, 2]), at: gen_ts(rng, None, false) }
            }
            2 => Op::Relays { now: gen_ts(rng, None, true) },
            3 => {
                let cutoff = match some(rng) {
                    Some((_, r)) if rng.chance(4, 5) => near(rng, r.ts),
                    _ => gen_ts(rng, None, true),
                };
                Op::Prune { cutoff }
            }
            _ => {
                let (mut a, mut b) = match (some(rng), some(rng)) {
                    (Some((_, x)), Some((_, y))) if rng.chance(4, 5) => (near(rng, x.ts), near(rng, y.ts)),
                    _ => (gen_ts(rng, None, false), gen_ts(rng, None, false)),
                };
                if a > b {
                    std::mem::swap(&mut a, &mut b);
                }
                if rng.chance(1, 3) {
                    a = 0;
                }
                if rng.chance(1, 3) {
                    b = I64MAX;
                }
                let mask = if rng.chance(1, 3) { ALL } else { rng.below(1 << NR) };
                Op::Filtered { mask, from: a, to: b }
            }
        }
    }

    fn step(st: &mut State, op: &Op, cx: &mut Ctx) -> Result<(), Stop> {
        let p = pools();
        match op {
            Op::Announce { node, kind, repo, ts: t, variant } => {
                let k = key(*node, *kind, *repo);
                let ann = build(k, *t, *variant);
                let r = st.db.announced(&p.nodes[*node], &ann);
                if *t > I64MAX {
                    cx.count("observed:gossip.announced.timestamp-above-i64(refused)");
                    if r.is_ok() {
                        return inconclusive("gossip accepted a timestamp above i64::MAX", t);
                    }
                    return check_content(st);
                }
                // `old` is fully initialised also when nothing is stored: memcheck must stay quiet on the
                // harness's own (optimised) comparisons, so that every report concerns the code under test.
                let (stored, old) = match st.model.get(&k) {
                    Some(r) => (true, r.clone()),
                    None => (false, Row { id: 0, ts: 0, variant: 0, relay: Relay::Dont }),
                };
                let old_ts = if stored { Some(old.ts) } else { None };
                cx.count(&format!("gossip.announced.{}", relation(*t, old_ts)));
                if stored {
                    cx.contended += 1;
                }
                if *t >= I64MAX - 2 || (stored && old.ts >= I64MAX - 2) {
                    cx.count("gossip.announced.at-i64-boundary");
                }
                if st.model.keys().any(|o| o.0 == k.0 && *o != k) {
                    cx.count("gossip.announced.node-has-other-kind-or-repo-stored");
                }
                let got = match r {
                    Ok(g) => g,
                    Err(e) => return inconclusive("gossip announced failed on in-range input", e),
                };
                let replace = !stored || *t > old.ts;
                let before = if stored { json!({"id": old.id, "ts": old.ts, "variant": old.variant}) } else { Value::Null };
                let w = json!({"op": Self::to_json(op), "stored_before": before, "returned": got});
                if !stored {
                    let Some(id) = got else {
                        return viol("C24/gossip/first-announcement-of-its-kind-not-accepted", w);
                    };
                    if st.model.values().any(|r| r.id == id) {
                        return viol("C24/gossip/new-announcement-got-id-of-another-stored-announcement", w);
                    }
                    st.model.insert(k, Row { id, ts: *t, variant: *variant, relay: Relay::Dont });
                } else if replace {
                    st.model.insert(k, Row { id: old.id, ts: *t, variant: *variant, relay: old.relay });
                }
                // content first: which clause failed is more telling than the return value
                if stored && (if replace { *t < I64MAX } else { old.ts < I64MAX }) {
                    let now = match run_filtered(&st.db, ALL, 0, I64MAX)? {
                        Ok(g) => g,
                        Err(e) => return inconclusive("gossip read failed", e),
                    };
                    let old_ann = build(k, old.ts, old.variant);
                    if !replace && now.get(&k) == Some(&ann) && old_ann != ann {
                        return viol("C24/gossip/announcement-replaced-by-not-strictly-newer-one", w);
                    }
                    if replace && now.get(&k) == Some(&old_ann) {
                        return viol("C24/gossip/strictly-newer-announcement-not-stored", w);
                    }
                }
                check_content(st)?;
                let want = if !stored {
                    got // checked above
                } else if replace {
                    Some(old.id)
                } else {
                    None
                };
                if got != want {
                    return viol("C24/gossip/announced-result-disagrees-with-model", json!({"got": got, "want": want, "case": w}));
                }
                Ok(())
            }
            Op::SetRelay { node, kind, repo, status, at } => {
                let k = key(*node, *kind, *repo);
                let (status, m) = match status {
                    0 => (RelayStatus::Relay, Relay::Relay),
                    1 => (RelayStatus::DontRelay, Relay::Dont),
                    _ => (RelayStatus::RelayedAt(ts(*at)), Relay::At(*at)),
                };
                let id = match st.model.get_mut(&k) {
                    Some(row) => {
                        row.relay = m;
                        cx.count("gossip.set_relay.stored-row");
                        row.id
                    }
                    None => {
                        cx.count("gossip.set_relay.unknown-id");
                        (1 << 40) + st.model.values().map(|r| r.id).max().unwrap_or(0)
                    }
                };
                if let Err(e) = st.db.set_relay(id, status) {
                    return inconclusive("gossip set_relay failed", e);
                }
                check_content(st)
            }
            Op::Relays { now } => {
                let r = st.db.relays(ts(*now));
                if *now > I64MAX {
                    cx.count("observed:gossip.relays.timestamp-above-i64(refused)");
                    if r.is_ok() {
                        return inconclusive("gossip relays accepted a timestamp above i64::MAX", now);
                    }
                    return check_content(st);
                }
                let got = match r {
                    Ok(g) => g,
                    Err(e) => return inconclusive("gossip relays failed on in-range input", e),
                };
                let mut want: Vec<(u64, Announcement)> =
                    st.model.iter().filter(|(_, r)| r.relay == Relay::Relay).map(|(k, r)| (r.id, build(*k, r.ts, r.variant))).collect();
                want.sort_by_key(|(id, _)| *id);
                cx.count(if want.is_empty() { "gossip.relays.nothing-to-relay" } else { "gossip.relays.some-to-relay" });
                if got != want {
                    return viol(
                        "C24/gossip/relays-disagrees-with-model",
                        json!({"got": got.iter().map(|(i, a)| json!([i, format!("{a:?}")])).collect::<Vec<_>>(),
                               "want": want.iter().map(|(i, a)| json!([i, format!("{a:?}")])).collect::<Vec<_>>(), "model": show(&st.model)}),
                    );
                }
                for r in st.model.values_mut() {
                    if r.relay == Relay::Relay {
                        r.relay = Relay::At(*now);
                    }
                }
                check_content(st)
            }
            Op::Prune { cutoff } => {
                let r = st.db.prune(ts(*cutoff));
                if *cutoff > I64MAX {
                    cx.count("observed:gossip.prune.cutoff-above-i64(refused)");
                    if r.is_ok() {
                        return inconclusive("gossip prune accepted a cutoff above i64::MAX", cutoff);
                    }
                    return check_content(st);
                }
                let before = st.model.clone();
                st.model.retain(|_, r| r.ts >= *cutoff);
                let want = before.len() - st.model.len();
                cx.count(if want > 0 { "gossip.prune.removes-some" } else { "gossip.prune.removes-nothing" });
                if before.values().any(|r| r.ts == *cutoff) {
                    cx.count("gossip.prune.announcement-exactly-at-cutoff");
                }
                let got = match r {
                    Ok(g) => g,
                    Err(e) => return inconclusive("gossip prune failed on in-range input", e),
                };
                let now = match run_filtered(&st.db, ALL, 0, I64MAX)? {
                    Ok(g) => g,
                    Err(e) => return inconclusive("gossip read failed", e),
                };
                for (k, r) in before.iter().filter(|(_, r)| r.ts < I64MAX) {
                    let w = json!({"op": Self::to_json(op), "announcement": {"node": k.0, "kind": KINDS[k.1], "repo": k.2, "ts": r.ts}});
                    if r.ts >= *cutoff && !now.contains_key(k) {
                        return viol("C24/gossip/prune-removed-announcement-not-older-than-cutoff", w);
                    }
                    if r.ts < *cutoff && now.contains_key(k) {
                        return viol("C24/gossip/prune-kept-announcement-older-than-cutoff", w);
                    }
                }
                check_content(st)?;
                if got != want {
                    return viol("C24/gossip/prune-result-disagrees-with-model", json!({"got": got, "want": want, "content_before": show(&before)}));
                }
                Ok(())
            }
            Op::Filtered { mask, from, to } => {
                let got = match run_filtered(&st.db, *mask, *from, *to)? {
                    Ok(g) => g,
                    Err(e) => return inconclusive("gossip filtered failed on in-range input", e),
                };
                let in_range = |r: &Row| r.ts >= *from && r.ts < *to;
                let wanted = |k: &Key| k.1 != 2 || *mask == ALL || mask >> k.2 & 1 == 1;
                let must: BTreeMap<Key, Announcement> =
                    st.model.iter().filter(|(k, r)| in_range(r) && wanted(k)).map(|(k, r)| (*k, build(*k, r.ts, r.variant))).collect();
                // refs announcements of repositories that were not put into the bloom filter may still match it
                let may: BTreeMap<Key, Announcement> =
                    st.model.iter().filter(|(k, r)| in_range(r) && !wanted(k)).map(|(k, r)| (*k, build(*k, r.ts, r.variant))).collect();
                cx.count(if must.is_empty() { "gossip.filtered.expecting-none" } else { "gossip.filtered.expecting-some" });
                if !may.is_empty() {
                    cx.count("gossip.filtered.filter-excludes-a-stored-refs-announcement");
                }
                if st.model.values().any(|r| r.ts == *from || r.ts == *to) {
                    cx.count("gossip.filtered.announcement-exactly-at-a-bound");
                }
                for (k, a) in &must {
                    if got.get(k) != Some(a) {
                        return viol(
                            "C24/gossip/filtered-misses-or-alters-a-matching-announcement",
                            json!({"node": k.0, "kind": KINDS[k.1], "repo": k.2, "got": got.get(k).map(|a| format!("{a:?}")), "want": format!("{a:?}"), "model": show(&st.model)}),
                        );
                    }
                }
                for (k, a) in &got {
                    if must.get(k) != Some(a) && may.get(k) != Some(a) {
                        return viol(
                            "C24/gossip/filtered-returns-announcement-outside-range-or-not-stored",
                            json!({"node": k.0, "kind": KINDS[k.1], "repo": k.2, "got": format!("{a:?}"), "model": show(&st.model)}),
                        );
                    }
                    if may.contains_key(k) {
                        cx.count("observed:gossip.filtered.bloom-false-positive");
                    }
                }
                check_content(st)
            }
        }
    }

    fn to_json(op: &Op) -> Value {
        match op {
            Op::Announce { node, kind, repo, ts, variant } => {
                json!({"op": "announced", "node": node, "kind": kind, "kind_str": KINDS[*kind], "repo": repo, "ts": ts, "variant": variant})
            }
            Op::SetRelay { node, kind, repo, status, at } => json!({"op": "set_relay", "node": node, "kind": kind, "repo": repo, "status": status, "at": at}),
            Op::Relays { now } => json!({"op": "relays", "now": now}),
            Op::Prune { cutoff } => json!({"op": "prune", "cutoff": cutoff}),
            Op::Filtered { mask, from, to } => json!({"op": "filtered", "mask": mask, "from": from, "to": to}),
        }
    }

    fn from_json(v: &Value) -> Option<Op> {
        Some(match v["op"].as_str()? {
            "announced" => Op::Announce { node: jus(v, "node")?, kind: jus(v, "kind")?, repo: jus(v, "repo")?, ts: ju(v, "ts")?, variant: ju(v, "variant")? },
            "set_relay" => Op::SetRelay { node: jus(v, "node")?, kind: jus(v, "kind")?, repo: jus(v, "repo")?, status: ju(v, "status")?, at: ju(v, "at")? },
            "relays" => Op::Relays { now: ju(v, "now")? },
            "prune" => Op::Prune { cutoff: ju(v, "cutoff")? },
            "filtered" => Op::Filtered { mask: ju(v, "mask")?, from: ju(v, "from")?, to: ju(v, "to")? },
            _ => return None,
        })
    }
}
