//! Routing table (`radicle::node::routing::Store` on `Database`).
//!
//! Model: `BTreeMap<(repo, node), timestamp>`.
//!
//! Reading of the semantics (trait docs + unit tests `test_insert_duplicate`,
//! `test_insert_existing_updated_time`, `test_update_existing_multi`, `test_remove_redundant`,
//! `test_prune`):
//! * `add_inventory(ids, node, t)`: per id, in order and seeing the effect of earlier ids of the same
//!   call: absent -> stored with `t`, `SeedAdded`; present with older timestamp -> timestamp becomes
//!   `t`, `TimeUpdated`; otherwise (tie or regression) nothing changes, `NotUpdated`.
//!   => a routing entry's timestamp only increases.
//! * `remove_inventory` returns whether the entry existed; `remove_inventories` removes the listed ones.
//! * `prune(oldest, limit, ignore)`: "prune entries older than the given timestamp", at most `limit`,
//!   never an entry of `ignore` (the service passes its own node id). Which of several old rows
//!   survive a binding limit is left open by the SQL, so the oracle there is the invariant:
//!   nothing added/changed; removed ⊆ {ts < oldest}; none of `ignore`'s; |removed| ≤ limit;
//!   return value = |removed|. When the limit cannot bind (None, or ≥ number of rows older than the
//!   cutoff) the outcome is determined and must be exactly {ts < oldest, node ≠ ignore}.
use std::collections::{BTreeMap, BTreeSet};

use radicle::node::routing::{InsertResult, Store as _};
use radicle::node::{Alias, Database, Features, UserAgent};
use vcommon::{json, Rng, Value};

use super::{gen_ts, inconclusive, jus, jvec, ju, pools, relation, ts, viol, Ctx, Stop, Suite, I64MAX};

/// Nodes that can own entries (index 0 plays the local node most of the time).
const NN: usize = 5;
/// `ignore` may also be a node that never has entries.
const STRANGER: usize = 5;
const NR: usize = 6;

pub struct Routing;

#[derive(Clone, Debug)]
pub enum Op {
    Add { node: usize, repos: Vec<usize>, ts: u64 },
    Remove { repo: usize, node: usize },
    RemoveMany { repos: Vec<usize>, node: usize },
    Prune { oldest: u64, limit: Option<u64>, ignore: usize },
}

pub struct State {
    db: Database,
    model: BTreeMap<(usize, usize), u64>,
}

fn name(r: InsertResult) -> &'static str {
    match r {
        InsertResult::NotUpdated => "NotUpdated",
        InsertResult::TimeUpdated => "TimeUpdated",
        InsertResult::SeedAdded => "SeedAdded",
    }
}

/// Observable content: `entry` for every (repo, node) of the pools, cross-checked with `entries`.
fn observe(db: &Database) -> Result<BTreeMap<(usize, usize), u64>, Stop> {
    let p = pools();
    let mut obs = BTreeMap::new();
    for r in 0..NR {
        for n in 0..=STRANGER {
            match db.entry(&p.repos[r], &p.nodes[n]) {
                Ok(Some(t)) => {
                    obs.insert((r, n), *t);
                }
                Ok(None) => {}
                Err(e) => return inconclusive("routing read failed", e),
            }
        }
    }
    let listed = match db.entries() {
        Ok(it) => it.collect::<Vec<_>>(),
        Err(e) => return inconclusive("routing read failed", e),
    };
    let mut keys = BTreeSet::new();
    for (rid, nid) in &listed {
        match (p.repo_ix(rid), p.node_ix(nid)) {
            (Some(r), Some(n)) if keys.insert((r, n)) => {}
            _ => {
                return viol(
                    "C24/routing/entries-lists-unknown-or-duplicate-entry",
                    json!({"entry": [rid.to_string(), nid.to_string()]}),
                )
            }
        }
    }
    if keys != obs.keys().cloned().collect::<BTreeSet<_>>() {
        return viol(
            "C24/routing/entries-disagrees-with-entry",
            json!({"entries": format!("{keys:?}"), "entry": format!("{obs:?}")}),
        );
    }
    Ok(obs)
}

/// The remaining read API against the model.
fn cross_check(db: &Database, model: &BTreeMap<(usize, usize), u64>) -> Result<(), Stop> {
    let p = pools();
    let bad = |what: &str, got: String, want: String| viol(&format!("C24/routing/{what}-disagrees-with-model"), json!({"got": got, "want": want}));
    match db.len() {
        Ok(l) if l == model.len() => {}
        Ok(l) => return bad("len", l.to_string(), model.len().to_string()),
        Err(e) => return inconclusive("routing read failed", e),
    }
    match db.is_empty() {
        Ok(b) if b == model.is_empty() => {}
        Ok(b) => return bad("is_empty", b.to_string(), model.is_empty().to_string()),
        Err(e) => return inconclusive("routing read failed", e),
    }
    for r in 0..NR {
        let want: BTreeSet<usize> = model.keys().filter(|k| k.0 == r).map(|k| k.1).collect();
        match db.get(&p.repos[r]) {
            Ok(s) => {
                let got: BTreeSet<usize> = s.iter().map(|n| p.node_ix(n).unwrap_or(usize::MAX)).collect();
                if got != want || s.len() != want.len() {
                    return bad("get", format!("{got:?}"), format!("{want:?}"));
                }
            }
            Err(e) => return inconclusive("routing read failed", e),
        }
        match db.count(&p.repos[r]) {
            Ok(c) if c == want.len() => {}
            Ok(c) => return bad("count", c.to_string(), want.len().to_string()),
            Err(e) => return inconclusive("routing read failed", e),
        }
    }
    for n in 0..=STRANGER {
        let want: BTreeSet<usize> = model.keys().filter(|k| k.1 == n).map(|k| k.0).collect();
        match db.get_inventory(&p.nodes[n]) {
            Ok(s) => {
                let got: BTreeSet<usize> = s.iter().map(|r| p.repo_ix(r).unwrap_or(usize::MAX)).collect();
                if got != want || s.len() != want.len() {
                    return bad("get_inventory", format!("{got:?}"), format!("{want:?}"));
                }
            }
            Err(e) => return inconclusive("routing read failed", e),
        }
    }
    Ok(())
}

fn show(m: &BTreeMap<(usize, usize), u64>) -> Value {
    json!(m.iter().map(|((r, n), t)| json!({"repo": r, "node": n, "ts": t})).collect::<Vec<_>>())
}

impl Suite for Routing {
    const NAME: &'static str = "routing";
    type Op = Op;
    type State = State;

    /// variant 0: foreign keys ON and the nodes registered in the `nodes` table (as the running node
    /// does); variant 1: foreign keys OFF (as the crate's own routing tests do).
    fn setup(variant: u64) -> Result<State, String> {
        use radicle::node::address::Store as _;
        let mut db = Database::memory().map_err(|e| e.to_string())?;
        if variant == 0 {
            for n in 0..NN {
                db.insert(
                    &pools().nodes[n],
                    1,
                    Features::SEED,
                    &Alias::new(format!("node{n}")),
                    0,
                    &UserAgent::default(),
                    ts(1),
                    [],
                )
                .map_err(|e| e.to_string())?;
            }
        } else {
            db.db.execute("PRAGMA foreign_keys = OFF").map_err(|e| e.to_string())?;
        }
        Ok(State { db, model: BTreeMap::new() })
    }

    fn gen(rng: &mut Rng, st: &State) -> Op {
        let some_entry = |rng: &mut Rng| -> Option<((usize, usize), u64)> {
            if st.model.is_empty() {
                None
            } else {
                st.model.iter().nth(rng.usize(st.model.len())).map(|(k, v)| (*k, *v))
            }
        };
        match rng.weighted(&[56, 8, 5, 31]) {
            0 => {
                // mostly a (repo, node) that exists already, so that ties / regressions happen
                let (first, node) = match some_entry(rng) {
                    Some(((r, n), _)) if rng.chance(3, 5) => (r, n),
                    _ => (rng.usize(NR), rng.usize(NN)),
                };
                let mut repos = vec![first];
                for _ in 0..rng.usize(3) {
                    // duplicates inside one call are allowed
                    repos.push(if rng.chance(1, 4) { first } else { rng.usize(NR) });
                }
                if rng.bool() {
                    rng.shuffle(&mut repos);
                }
                let existing = st.model.get(&(first, node)).copied();
                Op::Add { node, repos, ts: gen_ts(rng, existing, true) }
            }
            1 => match some_entry(rng) {
                Some(((r, n), _)) if rng.chance(3, 4) => Op::Remove { repo: r, node: n },
                _ => Op::Remove { repo: rng.usize(NR), node: rng.usize(NN) },
            },
            2 => {
                let node = some_entry(rng).map(|((_, n), _)| n).unwrap_or(rng.usize(NN));
                let repos = (0..1 + rng.usize(3)).map(|_| rng.usize(NR)).collect();
                Op::RemoveMany { repos, node }
            }
            _ => {
                // cutoff: at / next to a stored timestamp, so that "older than" is decided on ties
                let oldest = match some_entry(rng) {
                    Some((_, t)) if rng.chance(3, 4) => match rng.below(4) {
                        0 => t,
                        1 => t.saturating_add(1).min(I64MAX),
                        2 => t.saturating_add(1 + rng.below(3)).min(I64MAX),
                        _ => I64MAX,
                    },
                    _ => gen_ts(rng, None, true),
                };
                let limit = match rng.below(20) {
                    0..=6 => None,
                    7 => Some(0),
                    8..=10 => Some(1),
                    11..=13 => Some(2),
                    14..=15 => Some(3),
                    16 => Some(5),
                    17..=18 => Some(1000),
                    _ => Some(if rng.chance(1, 3) { u64::MAX } else { I64MAX }),
                };
                // the local node: usually node 0, sometimes another owner, sometimes a stranger
                let ignore = match rng.below(10) {
                    0..=6 => 0,
                    7..=8 => rng.usize(NN),
                    _ => STRANGER,
                };
                Op::Prune { oldest, limit, ignore }
            }
        }
    }

    fn step(st: &mut State, op: &Op, cx: &mut Ctx) -> Result<(), Stop> {
        let p = pools();
        let before = st.model.clone();
        match op {
            Op::Add { node, repos, ts: t } => {
                let r = st.db.add_inventory(repos.iter().map(|i| &p.repos[*i]), p.nodes[*node], ts(*t));
                if *t > I64MAX {
                    // cannot be stored in SQLite: out of scope, the call must simply not succeed
                    cx.count("observed:routing.add.timestamp-above-i64(refused)");
                    if r.is_ok() {
                        return inconclusive("routing accepted a timestamp above i64::MAX", t);
                    }
                } else {
                    let mut want = Vec::new();
                    for i in repos {
                        let old = st.model.get(&(*i, *node)).copied();
                        let rel = relation(*t, old);
                        cx.count(&format!("routing.add.{rel}"));
                        if old.is_some() {
                            cx.contended += 1;
                        }
                        if *t >= I64MAX - 2 || old.is_some_and(|o| o >= I64MAX - 2) {
                            cx.count("routing.add.at-i64-boundary");
                        }
                        want.push(match old {
                            None => {
                                st.model.insert((*i, *node), *t);
                                InsertResult::SeedAdded
                            }
                            Some(o) if *t > o => {
                                st.model.insert((*i, *node), *t);
                                InsertResult::TimeUpdated
                            }
                            Some(_) => InsertResult::NotUpdated,
                        });
                    }
                    let got = match r {
                        Ok(v) => v,
                        Err(e) => return inconclusive("routing add_inventory failed on in-range input", e),
                    };
                    let obs = observe(&st.db)?;
                    for (k, old) in &before {
                        if let Some(new) = obs.get(k) {
                            if new < old {
                                return viol(
                                    "C24/routing/timestamp-decreased",
                                    json!({"entry": {"repo": k.0, "node": k.1}, "before": old, "after": new}),
                                );
                            }
                        }
                    }
                    let same = got.len() == want.len()
                        && got.iter().zip(repos.iter().zip(&want)).all(|((rid, g), (i, w))| *rid == p.repos[*i] && g == w);
                    if !same {
                        return viol(
                            "C24/routing/add-result-disagrees-with-model",
                            json!({"got": got.iter().map(|(r, g)| json!([p.repo_ix(r), name(*g)])).collect::<Vec<_>>(),
                                   "want": repos.iter().zip(&want).map(|(i, w)| json!([i, name(*w)])).collect::<Vec<_>>(),
                                   "content_before": show(&before)}),
                        );
                    }
                    if obs != st.model {
                        return viol("C24/routing/content-disagrees-with-model-after-add", json!({"got": show(&obs), "want": show(&st.model)}));
                    }
                    return cross_check(&st.db, &st.model);
                }
            }
            Op::Remove { repo, node } => {
                let want = st.model.remove(&(*repo, *node)).is_some();
                cx.count(if want { "routing.remove.existing" } else { "routing.remove.absent" });
                match st.db.remove_inventory(&p.repos[*repo], &p.nodes[*node]) {
                    Ok(got) if got == want => {}
                    Ok(got) => return viol("C24/routing/remove-result-disagrees-with-model", json!({"got": got, "want": want})),
                    Err(e) => return inconclusive("routing remove_inventory failed", e),
                }
            }
            Op::RemoveMany { repos, node } => {
                for i in repos {
                    st.model.remove(&(*i, *node));
                }
                cx.count("routing.remove_inventories");
                if let Err(e) = st.db.remove_inventories(repos.iter().map(|i| &p.repos[*i]), &p.nodes[*node]) {
                    return inconclusive("routing remove_inventories failed", e);
                }
            }
            Op::Prune { oldest, limit, ignore } => {
                let r = st.db.prune(ts(*oldest), limit.map(|l| l as usize), &p.nodes[*ignore]);
                if *oldest > I64MAX || limit.is_some_and(|l| l > I64MAX) {
                    cx.count("observed:routing.prune.argument-above-i64(refused)");
                    if r.is_ok() {
                        return inconclusive("routing prune accepted an argument above i64::MAX", format!("{op:?}"));
                    }
                } else {
                    let n = match r {
                        Ok(n) => n,
                        Err(e) => return inconclusive("routing prune failed on in-range input", e),
                    };
                    let after = observe(&st.db)?;
                    let old_rows = before.values().filter(|t| **t < *oldest).count();
                    let binding = limit.is_some_and(|l| (l as usize) < old_rows);
                    cx.count("routing.prune");
                    if before.iter().any(|(k, t)| k.1 == *ignore && *t < *oldest) {
                        cx.count("routing.prune.local-node-has-entry-older-than-cutoff");
                    }
                    if before.values().any(|t| *t == *oldest) {
                        cx.count("routing.prune.entry-exactly-at-cutoff");
                    }
                    if binding {
                        cx.count("routing.prune.limit-binding");
                    }
                    for (k, t) in &after {
                        if before.get(k) != Some(t) {
                            return viol(
                                "C24/routing/prune-added-or-changed-an-entry",
                                json!({"entry": {"repo": k.0, "node": k.1, "ts": t}, "before": before.get(k)}),
                            );
                        }
                    }
                    let removed: Vec<(usize, usize)> = before.keys().filter(|k| !after.contains_key(*k)).cloned().collect();
                    let w = |k: &(usize, usize)| json!({"removed": {"repo": k.0, "node": k.1, "ts": before[k]}, "content_before": show(&before)});
                    if let Some(k) = removed.iter().find(|k| k.1 == *ignore) {
                        return viol("C24/routing/prune-removed-entry-of-ignored-local-node", w(k));
                    }
                    if let Some(k) = removed.iter().find(|k| before[*k] >= *oldest) {
                        return viol("C24/routing/prune-removed-entry-not-older-than-cutoff", w(k));
                    }
                    if limit.is_some_and(|l| removed.len() as u64 > l) {
                        return viol("C24/routing/prune-removed-more-than-limit", json!({"removed": removed.len(), "content_before": show(&before)}));
                    }
                    if n != removed.len() {
                        return viol("C24/routing/prune-result-disagrees-with-removed-count", json!({"returned": n, "removed": removed.len()}));
                    }
                    if !binding {
                        let want: Vec<(usize, usize)> =
                            before.iter().filter(|(k, t)| **t < *oldest && k.1 != *ignore).map(|(k, _)| *k).collect();
                        if removed != want {
                            return viol(
                                "C24/routing/prune-kept-old-entry-although-limit-not-binding",
                                json!({"removed": format!("{removed:?}"), "want": format!("{want:?}"), "content_before": show(&before)}),
                            );
                        }
                    } else if !removed.is_empty() {
                        cx.count("routing.prune.limit-binding.removed-some");
                    }
                    if !removed.is_empty() {
                        cx.count("routing.prune.removed-some");
                    }
                    // where SQL leaves the choice open the model follows the store
                    st.model = after;
                    return cross_check(&st.db, &st.model);
                }
            }
        }
        let obs = observe(&st.db)?;
        if obs != st.model {
            return viol("C24/routing/content-disagrees-with-model", json!({"got": show(&obs), "want": show(&st.model)}));
        }
        cross_check(&st.db, &st.model)
    }

    fn to_json(op: &Op) -> Value {
        match op {
            Op::Add { node, repos, ts } => json!({"op": "add_inventory", "node": node, "repos": repos, "ts": ts}),
            Op::Remove { repo, node } => json!({"op": "remove_inventory", "repo": repo, "node": node}),
            Op::RemoveMany { repos, node } => json!({"op": "remove_inventories", "repos": repos, "node": node}),
            Op::Prune { oldest, limit, ignore } => json!({"op": "prune", "oldest": oldest, "limit": limit, "ignore": ignore}),
        }
    }

    fn from_json(v: &Value) -> Option<Op> {
        Some(match v["op"].as_str()? {
            "add_inventory" => Op::Add { node: jus(v, "node")?, repos: jvec(v, "repos")?, ts: ju(v, "ts")? },
            "remove_inventory" => Op::Remove { repo: jus(v, "repo")?, node: jus(v, "node")? },
            "remove_inventories" => Op::RemoveMany { repos: jvec(v, "repos")?, node: jus(v, "node")? },
            "prune" => Op::Prune { oldest: ju(v, "oldest")?, limit: v["limit"].as_u64(), ignore: jus(v, "ignore")? },
            _ => return None,
        })
    }
}
