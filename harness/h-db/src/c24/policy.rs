//! Seeding / following policies (`radicle::node::policy::store::Store<Write>`, its own database).
//!
//! Model: `following: BTreeMap<node, (alias, policy)>`, `seeding: BTreeMap<repo, (scope, policy)>`.
//!
//! Reading of the semantics (unit tests `test_follow_and_unfollow_node`, `test_seed_and_unseed_repo`,
//! `test_update_alias`, `test_update_scope`, `test_repo_policy`, `test_node_policy`, the schema
//! defaults and `rad block` / `rad unblock`): every write sets ONE column of the row and creates the
//! row with the schema defaults (alias '', scope 'followed', policy 'allow') if it is absent:
//! `follow` writes the alias, `seed` the scope, `set_follow_policy` / `set_seed_policy` the policy;
//! each returns true iff it created the row or changed its column. `unfollow` / `unseed` delete the
//! row, `unblock_*` delete it only if its policy is 'block'; all return whether a row was deleted.
//! "Reflects the last write" is read per column: every read-back shows, for each column, the value
//! of the last write to that column since the row was created. In particular `follow`/`seed` on a
//! *blocked* row leave it blocked (that is what `rad unblock` is for): this is counted
//! (`observed:policy.*-on-blocked-row-stays-blocked`), not flagged.
//! A blocked seeding row hides its scope (`SeedingPolicy::Block`); the model keeps it.
use std::collections::{BTreeMap, BTreeSet};

use radicle::node::policy::store::{Store, Write};
use radicle::node::policy::{Policy, Scope, SeedingPolicy};
use radicle::node::{Alias, AliasStore as _};
use vcommon::{json, Rng, Value};

use super::{inconclusive, jus, pools, viol, Ctx, Stop, Suite};

const NN: usize = 4;
const NR: usize = 4;
/// Index 0 = no alias. "eve"/"Eve" differ only in case (different aliases, same LIKE match).
const ALIASES: [&str; 5] = ["", "eve", "Eve", "alice", "steve"];

pub struct Policies;

#[derive(Clone, Debug)]
pub enum Op {
    Follow { node: usize, alias: usize },
    Seed { repo: usize, scope: usize },
    SetFollowPolicy { node: usize, block: bool },
    SetSeedPolicy { repo: usize, block: bool },
    Unfollow { node: usize },
    Unseed { repo: usize },
    UnblockNid { node: usize },
    UnblockRid { repo: usize },
}

#[derive(Clone, Debug, PartialEq, Eq, Default)]
struct Model {
    /// node -> (alias index, blocked)
    following: BTreeMap<usize, (usize, bool)>,
    /// repo -> (scope: 0 followed / 1 all, blocked)
    seeding: BTreeMap<usize, (usize, bool)>,
}

pub struct State {
    db: Store<Write>,
    model: Model,
}

fn scope(i: usize) -> Scope {
    if i == 0 {
        Scope::Followed
    } else {
        Scope::All
    }
}

fn pol(block: bool) -> Policy {
    if block {
        Policy::Block
    } else {
        Policy::Allow
    }
}

fn alias(i: usize) -> Option<Alias> {
    (i != 0).then(|| Alias::new(ALIASES[i]))
}

fn show(m: &Model) -> Value {
    json!({
        "following": m.following.iter().map(|(n, (a, b))| json!({"node": n, "alias": ALIASES[*a], "policy": pol(*b).to_string()})).collect::<Vec<_>>(),
        "seeding": m.seeding.iter().map(|(r, (s, b))| json!({"repo": r, "scope": scope(*s).to_string(), "policy": pol(*b).to_string()})).collect::<Vec<_>>(),
    })
}

/// Compare every read API with the model.
fn check(st: &State) -> Result<(), Stop> {
    let p = pools();
    let m = &st.model;
    let bad = |what: &str, got: String, want: String| {
        viol(&format!("C24/policy/{what}-disagrees-with-last-write"), json!({"got": got, "want": want, "model": show(m)}))
    };
    for n in 0..NN {
        let want = m.following.get(&n).map(|(a, b)| (alias(*a), pol(*b)));
        match st.db.follow_policy(&p.nodes[n]) {
            Ok(got) => {
                let g = got.as_ref().map(|f| (f.alias.clone(), f.policy));
                if g != want || got.as_ref().is_some_and(|f| f.nid != p.nodes[n]) {
                    return bad("follow_policy", format!("{got:?}"), format!("{want:?}"));
                }
            }
            Err(e) => return inconclusive("policy read failed", e),
        }
        let want_f = matches!(m.following.get(&n), Some((_, false)));
        match st.db.is_following(&p.nodes[n]) {
            Ok(g) if g == want_f => {}
            Ok(g) => return bad("is_following", g.to_string(), want_f.to_string()),
            Err(e) => return inconclusive("policy read failed", e),
        }
        let want_a = m.following.get(&n).and_then(|(a, _)| alias(*a));
        let got_a = st.db.alias(&p.nodes[n]);
        if got_a != want_a {
            return bad("alias", format!("{got_a:?}"), format!("{want_a:?}"));
        }
    }
    for r in 0..NR {
        let want = m.seeding.get(&r).map(|(s, b)| if *b { SeedingPolicy::Block } else { SeedingPolicy::Allow { scope: scope(*s) } });
        match st.db.seed_policy(&p.repos[r]) {
            Ok(got) => {
                if got.as_ref().map(|s| s.policy) != want || got.as_ref().is_some_and(|s| s.rid != p.repos[r]) {
                    return bad("seed_policy", format!("{got:?}"), format!("{want:?}"));
                }
            }
            Err(e) => return inconclusive("policy read failed", e),
        }
        let want_s = matches!(m.seeding.get(&r), Some((_, false)));
        match st.db.is_seeding(&p.repos[r]) {
            Ok(g) if g == want_s => {}
            Ok(g) => return bad("is_seeding", g.to_string(), want_s.to_string()),
            Err(e) => return inconclusive("policy read failed", e),
        }
    }
    // listings (as sets)
    match st.db.follow_policies() {
        Ok(it) => {
            let mut got = BTreeMap::new();
            for f in it {
                let n = p.node_ix(&f.nid).unwrap_or(usize::MAX);
                if got.insert(n, (f.alias.clone(), f.policy)).is_some() {
                    return bad("follow_policies(duplicate)", format!("{f:?}"), String::new());
                }
            }
            let want: BTreeMap<usize, _> = m.following.iter().map(|(n, (a, b))| (*n, (alias(*a), pol(*b)))).collect();
            if got != want {
                return bad("follow_policies", format!("{got:?}"), format!("{want:?}"));
            }
        }
        Err(e) => return inconclusive("policy read failed", e),
    }
    match st.db.seed_policies() {
        Ok(it) => {
            let mut got = BTreeMap::new();
            for s in it {
                let r = p.repo_ix(&s.rid).unwrap_or(usize::MAX);
                if got.insert(r, format!("{:?}", s.policy)).is_some() {
                    return bad("seed_policies(duplicate)", format!("{s:?}"), String::new());
                }
            }
            let want: BTreeMap<usize, String> = m
                .seeding
                .iter()
                .map(|(r, (s, b))| (*r, format!("{:?}", if *b { SeedingPolicy::Block } else { SeedingPolicy::Allow { scope: scope(*s) } })))
                .collect();
            if got != want {
                return bad("seed_policies", format!("{got:?}"), format!("{want:?}"));
            }
        }
        Err(e) => return inconclusive("policy read failed", e),
    }
    // alias search: case-insensitive substring match over the stored aliases (pool aliases contain no
    // LIKE wildcards)
    for q in 1..ALIASES.len() {
        let needle = ALIASES[q].to_uppercase();
        let want: BTreeSet<(usize, String)> = m
            .following
            .iter()
            .filter(|(_, (a, _))| *a != 0 && ALIASES[*a].to_uppercase().contains(&needle))
            .map(|(n, (a, _))| (*n, ALIASES[*a].to_string()))
            .collect();
        match st.db.nodes_by_alias(&Alias::new(ALIASES[q])) {
            Ok(it) => {
                let mut got = BTreeSet::new();
                for row in it {
                    match row {
                        Ok((nid, a)) => {
                            got.insert((p.node_ix(&nid).unwrap_or(usize::MAX), a.to_string()));
                        }
                        Err(e) => return inconclusive("policy read failed", e),
                    }
                }
                if got != want {
                    return bad("nodes_by_alias", format!("{got:?}"), format!("{want:?}"));
                }
            }
            Err(e) => return inconclusive("policy read failed", e),
        }
        let rl = st.db.reverse_lookup(&Alias::new(ALIASES[q]));
        let got: BTreeSet<(usize, String)> =
            rl.iter().flat_map(|(a, ns)| ns.iter().map(move |n| (p.node_ix(n).unwrap_or(usize::MAX), a.to_string()))).collect();
        if got != want {
            return bad("reverse_lookup", format!("{got:?}"), format!("{want:?}"));
        }
    }
    Ok(())
}

impl Suite for Policies {
    const NAME: &'static str = "policy";
    type Op = Op;
    type State = State;

    fn setup(_variant: u64) -> Result<State, String> {
        Ok(State { db: Store::<Write>::memory().map_err(|e| e.to_string())?, model: Model::default() })
    }

    fn gen(rng: &mut Rng, st: &State) -> Op {
        // half of the time aim at a row that exists
        let node = match st.model.following.keys().nth(rng.usize(NN)) {
            Some(n) if rng.bool() => *n,
            _ => rng.usize(NN),
        };
        let repo = match st.model.seeding.keys().nth(rng.usize(NR)) {
            Some(r) if rng.bool() => *r,
            _ => rng.usize(NR),
        };
        match rng.weighted(&[22, 22, 14, 14, 7, 7, 7, 7]) {
            0 => {
                // often the alias that is stored already (write that changes nothing)
                let a = match st.model.following.get(&node) {
                    Some((a, _)) if rng.chance(1, 3) => *a,
                    _ => rng.usize(ALIASES.len()),
                };
                Op::Follow { node, alias: a }
            }
            1 => Op::Seed { repo, scope: rng.usize(2) },
            2 => Op::SetFollowPolicy { node, block: rng.chance(3, 5) },
            3 => Op::SetSeedPolicy { repo, block: rng.chance(3, 5) },
            4 => Op::Unfollow { node },
            5 => Op::Unseed { repo },
            6 => Op::UnblockNid { node },
            _ => Op::UnblockRid { repo },
        }
    }

    fn step(st: &mut State, op: &Op, cx: &mut Ctx) -> Result<(), Stop> {
        let p = pools();
        let m = &mut st.model;
        let before = m.clone();
        let (got, want, what) = match op {
            Op::Follow { node, alias: a } => {
                let want = match m.following.get_mut(node) {
                    None => {
                        m.following.insert(*node, (*a, false));
                        cx.count("policy.follow.new-row");
                        true
                    }
                    Some((old, blocked)) => {
                        cx.contended += 1;
                        cx.count(if *old == *a { "policy.follow.same-alias" } else { "policy.follow.alias-changed" });
                        if *blocked {
                            cx.count("observed:policy.follow-on-blocked-row-stays-blocked");
                        }
                        let ch = *old != *a;
                        *old = *a;
                        ch
                    }
                };
                (st.db.follow(&p.nodes[*node], alias(*a).as_ref()), want, "follow")
            }
            Op::Seed { repo, scope: s } => {
                let want = match m.seeding.get_mut(repo) {
                    None => {
                        m.seeding.insert(*repo, (*s, false));
                        cx.count("policy.seed.new-row");
                        true
                    }
                    Some((old, blocked)) => {
                        cx.contended += 1;
                        cx.count(if *old == *s { "policy.seed.same-scope" } else { "policy.seed.scope-changed" });
                        if *blocked {
                            cx.count("observed:policy.seed-on-blocked-row-stays-blocked");
                        }
                        let ch = *old != *s;
                        *old = *s;
                        ch
                    }
                };
                (st.db.seed(&p.repos[*repo], scope(*s)), want, "seed")
            }
            Op::SetFollowPolicy { node, block } => {
                let want = match m.following.get_mut(node) {
                    None => {
                        m.following.insert(*node, (0, *block));
                        cx.count("policy.set_follow_policy.new-row");
                        true
                    }
                    Some((_, old)) => {
                        cx.contended += 1;
                        cx.count(if *old == *block { "policy.set_follow_policy.same" } else { "policy.set_follow_policy.changed" });
                        let ch = *old != *block;
                        *old = *block;
                        ch
                    }
                };
                (st.db.set_follow_policy(&p.nodes[*node], pol(*block)), want, "set_follow_policy")
            }
            Op::SetSeedPolicy { repo, block } => {
                let want = match m.seeding.get_mut(repo) {
                    None => {
                        // schema default scope
                        m.seeding.insert(*repo, (0, *block));
                        cx.count("policy.set_seed_policy.new-row");
                        true
                    }
                    Some((_, old)) => {
                        cx.contended += 1;
                        cx.count(if *old == *block { "policy.set_seed_policy.same" } else { "policy.set_seed_policy.changed" });
                        let ch = *old != *block;
                        *old = *block;
                        ch
                    }
                };
                (st.db.set_seed_policy(&p.repos[*repo], pol(*block)), want, "set_seed_policy")
            }
            Op::Unfollow { node } => {
                let want = m.following.remove(node).is_some();
                cx.count(if want { "policy.unfollow.existing" } else { "policy.unfollow.absent" });
                (st.db.unfollow(&p.nodes[*node]), want, "unfollow")
            }
            Op::Unseed { repo } => {
                let want = m.seeding.remove(repo).is_some();
                cx.count(if want { "policy.unseed.existing" } else { "policy.unseed.absent" });
                (st.db.unseed(&p.repos[*repo]), want, "unseed")
            }
            Op::UnblockNid { node } => {
                let want = matches!(m.following.get(node), Some((_, true)));
                if want {
                    m.following.remove(node);
                }
                cx.count(if want { "policy.unblock_nid.blocked-row" } else { "policy.unblock_nid.no-blocked-row" });
                (st.db.unblock_nid(&p.nodes[*node]), want, "unblock_nid")
            }
            Op::UnblockRid { repo } => {
                let want = matches!(m.seeding.get(repo), Some((_, true)));
                if want {
                    m.seeding.remove(repo);
                }
                cx.count(if want { "policy.unblock_rid.blocked-row" } else { "policy.unblock_rid.no-blocked-row" });
                (st.db.unblock_rid(&p.repos[*repo]), want, "unblock_rid")
            }
        };
        let got = match got {
            Ok(b) => b,
            Err(e) => return inconclusive("policy write failed", e),
        };
        // content first (more specific), then the return value
        check(st)?;
        if got != want {
            return viol(
                &format!("C24/policy/{what}-result-disagrees-with-model"),
                json!({"got": got, "want": want, "content_before": show(&before)}),
            );
        }
        Ok(())
    }

    fn to_json(op: &Op) -> Value {
        match op {
            Op::Follow { node, alias } => json!({"op": "follow", "node": node, "alias": alias, "alias_str": ALIASES[*alias]}),
            Op::Seed { repo, scope: s } => json!({"op": "seed", "repo": repo, "scope": s, "scope_str": scope(*s).to_string()}),
            Op::SetFollowPolicy { node, block } => json!({"op": "set_follow_policy", "node": node, "block": block}),
            Op::SetSeedPolicy { repo, block } => json!({"op": "set_seed_policy", "repo": repo, "block": block}),
            Op::Unfollow { node } => json!({"op": "unfollow", "node": node}),
            Op::Unseed { repo } => json!({"op": "unseed", "repo": repo}),
            Op::UnblockNid { node } => json!({"op": "unblock_nid", "node": node}),
            Op::UnblockRid { repo } => json!({"op": "unblock_rid", "repo": repo}),
        }
    }

    fn from_json(v: &Value) -> Option<Op> {
        Some(match v["op"].as_str()? {
            "follow" => Op::Follow { node: jus(v, "node")?, alias: jus(v, "alias")? },
            "seed" => Op::Seed { repo: jus(v, "repo")?, scope: jus(v, "scope")? },
            "set_follow_policy" => Op::SetFollowPolicy { node: jus(v, "node")?, block: v["block"].as_bool()? },
            "set_seed_policy" => Op::SetSeedPolicy { repo: jus(v, "repo")?, block: v["block"].as_bool()? },
            "unfollow" => Op::Unfollow { node: jus(v, "node")? },
            "unseed" => Op::Unseed { repo: jus(v, "repo")? },
            "unblock_nid" => Op::UnblockNid { node: jus(v, "node")? },
            "unblock_rid" => Op::UnblockRid { repo: jus(v, "repo")? },
            _ => return None,
        })
    }
}
