//! C24 — Node databases behave like their simple models.
//!
//! One *case* = one random operation sequence against one store on a fresh in-memory database,
//! stepped in lock-step with a small in-memory reference model (a `BTreeMap` per table). After
//! every operation the operation's return value AND the full observable content of the store (read
//! back through its public read API) are compared with the model. The model never calls the store
//! or re-uses its SQL: it is written from the property statement, the trait docs and the unit tests.
//!
//! Stores (one sub-module each): routing table, repository sync status ("seeds"), cached refs,
//! seeding/following policies, gossip announcement store.
//!
//! Verdicts: a mismatch is a violation with a store/clause signature and the concrete (shrunk)
//! operation list as witness; an `Err` from a store call on in-range input, a read error or a
//! panic is *inconclusive* (never a violation); timestamps that do not fit SQLite's i64 are fed
//! rarely and only observed (the call must fail, the model is left unchanged).
use std::collections::BTreeMap;
use std::sync::{Mutex, OnceLock};

use radicle::git::Oid;
use radicle::node::{NodeId, Timestamp};
use radicle::prelude::RepoId;
use radicle_crypto::{KeyPair, Seed};
use vcommon::{guarded, json, Args, Reporter, Rng, Value};

mod gossip;
mod policy;
mod refs;
mod routing;
mod seeds;

pub const I64MAX: u64 = i64::MAX as u64;

// ---------------------------------------------------------------------------------------------
// Shared plumbing

/// Counter sink: forwards to the reporter in the measured run, silent while shrinking.
pub struct Ctx<'a> {
    rep: Option<&'a mut Reporter>,
    /// Number of writes in this sequence that hit an already stored key (tie / regression /
    /// advance): the sequences the property is about.
    pub contended: u64,
}

impl Ctx<'_> {
    pub fn count(&mut self, k: &str) {
        if let Some(r) = self.rep.as_deref_mut() {
            r.count(k);
        }
    }
}

/// Why a sequence stopped early.
pub enum Stop {
    /// (signature, detail)
    Viol(String, Value),
    /// (reason, detail) — fixture / harness problem, or an error the property does not speak about.
    Inconclusive(String, Value),
}

pub fn viol<T>(sig: &str, detail: Value) -> Result<T, Stop> {
    Err(Stop::Viol(sig.to_string(), detail))
}

pub fn inconclusive<T>(reason: &str, detail: impl std::fmt::Display) -> Result<T, Stop> {
    Err(Stop::Inconclusive(reason.to_string(), json!(detail.to_string())))
}

/// Fixed identifier pools. Operations refer to pool *indices*, which makes a witness replayable
/// without any seed.
pub struct Pools {
    pub nodes: Vec<NodeId>,
    pub repos: Vec<RepoId>,
    pub oids: Vec<Oid>,
}

impl Pools {
    pub fn node_ix(&self, n: &NodeId) -> Option<usize> {
        self.nodes.iter().position(|x| x == n)
    }
    pub fn repo_ix(&self, r: &RepoId) -> Option<usize> {
        self.repos.iter().position(|x| x == r)
    }
    pub fn oid_ix(&self, o: &Oid) -> Option<usize> {
        self.oids.iter().position(|x| x == o)
    }
}

pub fn pools() -> &'static Pools {
    static P: OnceLock<Pools> = OnceLock::new();
    P.get_or_init(|| {
        let nodes = (0..8u8)
            .map(|i| {
                let kp = KeyPair::from_seed(Seed::new([i.wrapping_mul(37).wrapping_add(11); 32]));
                NodeId::from(kp.pk)
            })
            .collect();
        let oid = |tag: u8, i: u8| {
            let mut b = [0u8; 20];
            for (k, x) in b.iter_mut().enumerate() {
                *x = tag ^ i.wrapping_mul(29).wrapping_add(k as u8);
            }
            Oid::try_from(&b[..]).expect("20 bytes make an oid")
        };
        let repos = (0..8u8).map(|i| RepoId::from(oid(0xa5, i))).collect();
        let oids = (0..5u8).map(|i| oid(0x3c, i)).collect();
        Pools { nodes, repos, oids }
    })
}

/// A `Timestamp` for any u64, including values above `Timestamp::MAX` (reachable through the
/// public saturating `Add`), which the stores must refuse because SQLite cannot hold them.
pub fn ts(x: u64) -> Timestamp {
    if x <= I64MAX {
        Timestamp::try_from(x).expect("in range")
    } else {
        Timestamp::MAX + (x - I64MAX)
    }
}

/// Timestamp generator aimed at the dangerous region: ties with / neighbours of the value that is
/// already stored, tiny values, a "realistic" cluster, the i64 boundary and (rarely, if `oor`)
/// values that cannot be stored at all.
pub fn gen_ts(rng: &mut Rng, existing: Option<u64>, oor: bool) -> u64 {
    const BASE: u64 = 1_700_000_000_000;
    let w = if existing.is_some() { [24, 16, 24, 10, 18, 6, 2] } else { [0, 0, 0, 25, 50, 22, 3] };
    let e = existing.unwrap_or(0);
    let t = match rng.weighted(&w) {
        0 => e,
        1 => e.saturating_sub(1 + rng.below(2)),
        2 => e.saturating_add(1 + rng.below(2)),
        3 => rng.below(4),
        4 => BASE + rng.below(5),
        5 => I64MAX - rng.below(3),
        _ => *rng.pick(&[I64MAX + 1, u64::MAX]),
    };
    if t > I64MAX && !(oor && rng.chance(1, 2)) {
        return I64MAX;
    }
    t
}

/// How a written timestamp relates to the stored one (for the observation counters).
pub fn relation(new: u64, old: Option<u64>) -> &'static str {
    match old {
        None => "fresh-key",
        Some(o) if new == o => "tie",
        Some(o) if new < o => "regression",
        Some(_) => "advance",
    }
}

pub fn ju(v: &Value, k: &str) -> Option<u64> {
    v.get(k)?.as_u64()
}
pub fn jus(v: &Value, k: &str) -> Option<usize> {
    ju(v, k).map(|x| x as usize)
}
pub fn jvec(v: &Value, k: &str) -> Option<Vec<usize>> {
    v.get(k)?.as_array()?.iter().map(|x| x.as_u64().map(|x| x as usize)).collect()
}

/// One store under test.
pub trait Suite {
    const NAME: &'static str;
    type Op: Clone + std::fmt::Debug;
    type State;
    /// Fresh database + empty model. `variant` selects fixture flavours (e.g. foreign keys on/off).
    fn setup(variant: u64) -> Result<Self::State, String>;
    /// Next operation, aimed using the current model state.
    fn gen(rng: &mut Rng, st: &Self::State) -> Self::Op;
    /// Apply to store and model; compare return value and full content.
    fn step(st: &mut Self::State, op: &Self::Op, cx: &mut Ctx) -> Result<(), Stop>;
    fn to_json(op: &Self::Op) -> Value;
    fn from_json(v: &Value) -> Option<Self::Op>;
}

/// Run a fixed operation list. `Err((step, stop))` on the first step that stops.
fn run_ops<S: Suite>(variant: u64, ops: &[S::Op], cx: &mut Ctx) -> Result<(), (usize, Stop)> {
    let r = guarded(|| {
        let mut st = S::setup(variant).map_err(|e| (0, Stop::Inconclusive("fixture setup failed".into(), json!(e))))?;
        for (i, op) in ops.iter().enumerate() {
            S::step(&mut st, op, cx).map_err(|s| (i, s))?;
        }
        Ok(())
    });
    match r {
        Ok(r) => r,
        Err(p) => Err((ops.len(), Stop::Inconclusive("panic inside a store call".into(), json!(p)))),
    }
}

fn fails_with<S: Suite>(variant: u64, ops: &[S::Op], sig: &str) -> bool {
    matches!(run_ops::<S>(variant, ops, &mut Ctx { rep: None, contended: 0 }), Err((_, Stop::Viol(s, _))) if s == sig)
}

/// Greedy chunk removal (ddmin-like) keeping the same violation signature.
fn shrink<S: Suite>(variant: u64, ops: Vec<S::Op>, sig: &str) -> Vec<S::Op> {
    let mut cur = ops;
    let mut chunk = (cur.len() / 2).max(1);
    loop {
        let mut i = 0;
        while i + chunk <= cur.len() && cur.len() > 1 {
            let mut cand = cur.clone();
            cand.drain(i..i + chunk);
            if !cand.is_empty() && fails_with::<S>(variant, &cand, sig) {
                cur = cand;
            } else {
                i += chunk;
            }
        }
        if chunk == 1 {
            break;
        }
        chunk /= 2;
    }
    cur
}

/// Shrinking is only worth its cost for the first few witnesses of a signature.
fn should_shrink(sig: &str) -> bool {
    static SEEN: Mutex<BTreeMap<String, u32>> = Mutex::new(BTreeMap::new());
    let mut m = SEEN.lock().unwrap_or_else(|e| e.into_inner());
    let n = m.entry(sig.to_string()).or_insert(0);
    *n += 1;
    *n <= 2
}

fn witness<S: Suite>(variant: u64, ops: &[S::Op], step: usize, detail: Value, original_len: usize) -> Value {
    json!({
        "store": S::NAME,
        "variant": variant,
        "ops": ops.iter().map(S::to_json).collect::<Vec<_>>(),
        "failing_step": step,
        "detail": detail,
        "ops_before_shrinking": original_len,
    })
}

fn report_stop<S: Suite>(rep: &mut Reporter, variant: u64, ops: Vec<S::Op>, step: usize, stop: Stop) {
    match stop {
        Stop::Inconclusive(reason, detail) => {
            let n = ops.len().min(step + 1);
            rep.inconclusive(&reason, json!({"store": S::NAME, "variant": variant, "detail": detail,
                "ops": ops[..n].iter().map(S::to_json).collect::<Vec<_>>() }));
        }
        Stop::Viol(sig, detail) => {
            let original = ops.len();
            let mut ops: Vec<S::Op> = ops[..(step + 1).min(ops.len())].to_vec();
            let (mut step, mut detail) = (step, detail);
            if should_shrink(&sig) {
                ops = shrink::<S>(variant, ops, &sig);
                if let Err((s, Stop::Viol(sg, d))) = run_ops::<S>(variant, &ops, &mut Ctx { rep: None, contended: 0 }) {
                    if sg == sig {
                        step = s;
                        detail = d;
                    }
                }
            }
            rep.violation(&sig, witness::<S>(variant, &ops, step, detail, original));
        }
    }
}

/// Generate and run one sequence of `nops` operations.
fn case<S: Suite>(rep: &mut Reporter, seed: u64, nops: usize) {
    let mut rng = Rng::new(seed);
    let variant = rng.below(2);
    rep.eval();
    rep.count(&format!("sequences:{}", S::NAME));
    let mut ops: Vec<S::Op> = Vec::with_capacity(nops);
    let out = guarded(|| -> Result<u64, (usize, Stop)> {
        let mut st = S::setup(variant).map_err(|e| (0, Stop::Inconclusive("fixture setup failed".into(), json!(e))))?;
        let mut cx = Ctx { rep: Some(&mut *rep), contended: 0 };
        let steps = format!("steps:{}", S::NAME);
        for i in 0..nops {
            let op = S::gen(&mut rng, &st);
            ops.push(op.clone());
            S::step(&mut st, &op, &mut cx).map_err(|s| (i, s))?;
            cx.count(&steps);
        }
        Ok(cx.contended)
    });
    match out {
        Ok(Ok(contended)) => {
            // non-trivial: the sequence wrote at least three times to a key that was already stored
            if contended >= 3 {
                rep.nontrivial(vcommon::fnv(format!("{}{:?}", S::NAME, ops).as_bytes()));
            }
            if rep.wants_sample() {
                rep.sample(json!({"store": S::NAME, "variant": variant, "n_ops": ops.len(),
                    "first_ops": ops.iter().take(5).map(S::to_json).collect::<Vec<_>>() }));
            }
        }
        Ok(Err((step, stop))) => report_stop::<S>(rep, variant, ops, step, stop),
        Err(p) => {
            let n = ops.len();
            report_stop::<S>(rep, variant, ops, n, Stop::Inconclusive("panic inside a store call".into(), json!(p)));
        }
    }
}

fn replay<S: Suite>(rep: &mut Reporter, w: &Value) {
    let variant = w["variant"].as_u64().unwrap_or(0);
    let ops: Option<Vec<S::Op>> = w["ops"].as_array().map(|a| a.iter().map(S::from_json).collect()).unwrap_or(None);
    let Some(ops) = ops else {
        rep.inconclusive("replay file has no parsable operation list", w.clone());
        return;
    };
    rep.eval();
    let mut cx = Ctx { rep: Some(&mut *rep), contended: 0 };
    match run_ops::<S>(variant, &ops, &mut cx) {
        Ok(()) => rep.count("replay:held"),
        Err((step, Stop::Viol(sig, detail))) => {
            let n = ops.len();
            rep.violation(&sig, witness::<S>(variant, &ops, step, detail, n));
        }
        Err((_, Stop::Inconclusive(reason, detail))) => rep.inconclusive(&reason, detail),
    }
}

pub fn run(args: &Args) {
    let mut rep = Reporter::new("C24");
    if let Some(path) = &args.replay {
        let w = vcommon::load_replay(path);
        match w["store"].as_str() {
            Some("routing") => replay::<routing::Routing>(&mut rep, &w),
            Some("seeds") => replay::<seeds::Seeds>(&mut rep, &w),
            Some("refs") => replay::<refs::Refs>(&mut rep, &w),
            Some("policy") => replay::<policy::Policies>(&mut rep, &w),
            Some("gossip") => replay::<gossip::Gossip>(&mut rep, &w),
            _ => rep.inconclusive("replay file names no known store", w.clone()),
        }
        rep.finish();
        return;
    }
    // Sequences per tier (all shards together); the store is chosen by the global case index so
    // that any `--cases N` subset (valgrind) still covers all five stores.
    let n = args.budget(16_000, 120_000);
    let nops = if args.thorough { 200 } else { 60 };
    for k in 0..n {
        let seed = args.case_seed(k);
        match args.index(k) % 5 {
            0 => case::<routing::Routing>(&mut rep, seed, nops),
            1 => case::<seeds::Seeds>(&mut rep, seed, nops),
            2 => case::<refs::Refs>(&mut rep, seed, nops),
            3 => case::<policy::Policies>(&mut rep, seed, nops),
            _ => case::<gossip::Gossip>(&mut rep, seed, nops),
        }
    }
    rep.finish();
}
