//! Monitors for the gossip wire format: C15 (messages round-trip and have a unique encoding).
mod c15;

fn main() {
    vcommon::install_panic_hook();
    let args = vcommon::Args::parse();
    match args.prop.as_str() {
        "C15" => c15::run(&args),
        p => {
            eprintln!("h-wire: unknown property {p}");
            std::process::exit(2);
        }
    }
}
