//! C15 — wire messages round-trip and have a unique encoding.
//!
//! (a) every message the node can construct encodes (no panic) in <= 65535 bytes and decodes to an
//!     equal message;
//! (b) every byte string `b` with `deserialize::<Message>(b) = Ok(m)` satisfies `serialize(m) == b`,
//!     except a node announcement whose trailing user agent is absent, where
//!     `serialize(m) == b ‖ serialize(UserAgent::default())`.
//!
//! Ground truth is a harness-side `Spec` (plain bytes / integers / strings). Messages are built from it
//! through heartwood's public constructors; the decoded message is compared with `==` *and* field by
//! field against the `Spec` (so the verdict does not rest on heartwood's `PartialEq` impls alone).
//! For (b) the oracle is byte equality; an own layout walker (independent of `Encode`/`Decode`) is used
//! only to aim the mutations at fields and to name the field of the first differing byte.
//!
//! Readings of the statement (rule 1):
//! * "constructible" = built through the public constructors within the documented limits
//!   (`BoundedVec` limits, `Alias::from_str`, `UserAgent::from_str`, `Timestamp::try_from`,
//!   `ZeroBytes` up to `Ping::MAX_PING_ZEROES` / `MAX_PONG_ZEROES`, DNS names <= 255 bytes — the
//!   `Encode for &str` impl documents that bound with an `assert!`, a longer name is treated as a
//!   caller error and only counted, see `probe:`).
//! * a panic while *decoding* is not judged here (that is C13); a panic while re-encoding a decoded
//!   message is: `serialize(m)` then is not `b`.
//! * the frame layer is only checked for (a) (canonical gossip frames round-trip); QUIC varints
//!   deliberately accept non-minimal encodings (unit test `test_encoding` in wire/varint.rs) and frames
//!   are not signed, so (b) is not demanded of frames.
use std::net;
use std::str::FromStr;

use cyphernet::addr::tor::OnionAddrV3;
use cyphernet::addr::{HostName, NetAddr};
use cyphernet::EcPk;
use radicle::git;
use radicle::identity::RepoId;
use radicle::node::device::Device;
use radicle::node::{Address, Alias, Features, Timestamp, UserAgent};
use radicle::storage::refs::RefsAt;
use radicle_crypto::{PublicKey, Signature};
use radicle_node::bounded::BoundedVec;
use radicle_node::service::filter::{BloomFilter, Filter, FILTER_SIZE_L, FILTER_SIZE_M, FILTER_SIZE_S};
use radicle_node::service::message::{
    Announcement, AnnouncementMessage, Info, InventoryAnnouncement, Message, NodeAnnouncement, Ping,
    RefsAnnouncement, Subscribe, ZeroBytes, ADDRESS_LIMIT, INVENTORY_LIMIT, REF_REMOTE_LIMIT,
};
use radicle_node::wire::verif::{Frame, FrameData, StreamId};
use radicle_node::wire::{self, deserialize, serialize};
use radicle_node::Link;
use vcommon::{fnv, guarded, hex, json, panic_site, unhex, Args, Reporter, Rng, Value};

/// `*rng.pick(&[..])` where the candidates may themselves draw from `rng`.
macro_rules! pick {
    ($rng:expr, [$($x:expr),* $(,)?]) => {{
        let xs = [$($x),*];
        *$rng.pick(&xs)
    }};
}

thread_local! {
    static SEEN: std::cell::RefCell<std::collections::BTreeMap<String, u64>> = const { std::cell::RefCell::new(std::collections::BTreeMap::new()) };
}

/// `Reporter::violation` keeps the first 3 witnesses per signature; do not even build the later
/// ones (hex of 64 KiB inputs).
fn viol(rep: &mut Reporter, sig: &str, witness: impl FnOnce() -> Value) {
    let n = SEEN.with(|s| {
        let mut s = s.borrow_mut();
        let e = s.entry(sig.to_string()).or_insert(0);
        *e += 1;
        *e
    });
    rep.violation(sig, if n <= 3 { witness() } else { Value::Null });
}

const TS_MAX: u64 = i64::MAX as u64;
const TYPES: [&str; 7] = [
    "node-announcement",
    "inventory-announcement",
    "refs-announcement",
    "subscribe",
    "info",
    "ping",
    "pong",
];

// ---------------------------------------------------------------------------------------------
// Ground truth

#[derive(Clone, Debug, PartialEq, Eq)]
enum Host {
    V4([u8; 4]),
    V6([u8; 16]),
    Dns(String),
    Onion([u8; 32]),
    Other,
}

#[derive(Clone, Debug, PartialEq, Eq)]
struct Addr {
    host: Host,
    port: u16,
}

#[derive(Clone, Debug, PartialEq, Eq)]
enum Spec {
    Node {
        node: [u8; 32],
        sig: [u8; 64],
        version: u8,
        features: u64,
        ts: u64,
        alias: String,
        addrs: Vec<Addr>,
        nonce: u64,
        agent: String,
    },
    Inventory { node: [u8; 32], sig: [u8; 64], inv: Vec<[u8; 20]>, ts: u64 },
    Refs { node: [u8; 32], sig: [u8; 64], rid: [u8; 20], refs: Vec<([u8; 32], [u8; 20])>, ts: u64 },
    Subscribe { filter: Vec<u8>, since: u64, until: u64 },
    Info { rid: [u8; 20], at: [u8; 20] },
    Ping { ponglen: u16, zeroes: u16 },
    Pong { zeroes: u16 },
}

impl Spec {
    fn ty(&self) -> &'static str {
        match self {
            Spec::Node { .. } => TYPES[0],
            Spec::Inventory { .. } => TYPES[1],
            Spec::Refs { .. } => TYPES[2],
            Spec::Subscribe { .. } => TYPES[3],
            Spec::Info { .. } => TYPES[4],
            Spec::Ping { .. } => TYPES[5],
            Spec::Pong { .. } => TYPES[6],
        }
    }

    fn to_json(&self) -> Value {
        match self {
            Spec::Node { node, sig, version, features, ts, alias, addrs, nonce, agent } => json!({
                "type": self.ty(), "node": hex(node), "sig": hex(sig), "version": version,
                "features": features.to_string(), "ts": ts.to_string(), "alias": alias,
                "addrs": addrs.iter().map(|a| match &a.host {
                    Host::V4(o) => json!({"k": "v4", "h": hex(o), "p": a.port}),
                    Host::V6(o) => json!({"k": "v6", "h": hex(o), "p": a.port}),
                    Host::Dns(s) => json!({"k": "dns", "h": s, "p": a.port}),
                    Host::Onion(k) => json!({"k": "onion", "h": hex(k), "p": a.port}),
                    Host::Other => json!({"k": "other", "h": "", "p": a.port}),
                }).collect::<Vec<_>>(),
                "nonce": nonce.to_string(), "agent": agent,
            }),
            Spec::Inventory { node, sig, inv, ts } => json!({
                "type": self.ty(), "node": hex(node), "sig": hex(sig), "ts": ts.to_string(),
                "inv": hex(&inv.concat()),
            }),
            Spec::Refs { node, sig, rid, refs, ts } => json!({
                "type": self.ty(), "node": hex(node), "sig": hex(sig), "rid": hex(rid), "ts": ts.to_string(),
                "refs": hex(&refs.iter().flat_map(|(r, a)| r.iter().chain(a.iter()).copied()).collect::<Vec<u8>>()),
            }),
            Spec::Subscribe { filter, since, until } => json!({
                "type": self.ty(), "filter": hex(filter), "since": since.to_string(), "until": until.to_string(),
            }),
            Spec::Info { rid, at } => json!({"type": self.ty(), "rid": hex(rid), "at": hex(at)}),
            Spec::Ping { ponglen, zeroes } => json!({"type": self.ty(), "ponglen": ponglen, "zeroes": zeroes}),
            Spec::Pong { zeroes } => json!({"type": self.ty(), "zeroes": zeroes}),
        }
    }

    fn from_json(v: &Value) -> Option<Spec> {
        fn a<const N: usize>(v: &Value) -> Option<[u8; N]> {
            unhex(v.as_str()?)?.try_into().ok()
        }
        fn n(v: &Value) -> Option<u64> {
            v.as_str()?.parse().ok()
        }
        Some(match v["type"].as_str()? {
            "node-announcement" => Spec::Node {
                node: a(&v["node"])?,
                sig: a(&v["sig"])?,
                version: v["version"].as_u64()? as u8,
                features: n(&v["features"])?,
                ts: n(&v["ts"])?,
                alias: v["alias"].as_str()?.to_string(),
                addrs: v["addrs"]
                    .as_array()?
                    .iter()
                    .map(|x| {
                        let host = match x["k"].as_str()? {
                            "v4" => Host::V4(a(&x["h"])?),
                            "v6" => Host::V6(a(&x["h"])?),
                            "dns" => Host::Dns(x["h"].as_str()?.to_string()),
                            "onion" => Host::Onion(a(&x["h"])?),
                            _ => Host::Other,
                        };
                        Some(Addr { host, port: x["p"].as_u64()? as u16 })
                    })
                    .collect::<Option<Vec<_>>>()?,
                nonce: n(&v["nonce"])?,
                agent: v["agent"].as_str()?.to_string(),
            },
            "inventory-announcement" => Spec::Inventory {
                node: a(&v["node"])?,
                sig: a(&v["sig"])?,
                ts: n(&v["ts"])?,
                inv: unhex(v["inv"].as_str()?)?.chunks(20).map(|c| c.try_into().ok()).collect::<Option<Vec<_>>>()?,
            },
            "refs-announcement" => Spec::Refs {
                node: a(&v["node"])?,
                sig: a(&v["sig"])?,
                rid: a(&v["rid"])?,
                ts: n(&v["ts"])?,
                refs: unhex(v["refs"].as_str()?)?
                    .chunks(52)
                    .map(|c| Some((c.get(..32)?.try_into().ok()?, c.get(32..52)?.try_into().ok()?)))
                    .collect::<Option<Vec<_>>>()?,
            },
            "subscribe" => Spec::Subscribe { filter: unhex(v["filter"].as_str()?)?, since: n(&v["since"])?, until: n(&v["until"])? },
            "info" => Spec::Info { rid: a(&v["rid"])?, at: a(&v["at"])? },
            "ping" => Spec::Ping { ponglen: v["ponglen"].as_u64()? as u16, zeroes: v["zeroes"].as_u64()? as u16 },
            "pong" => Spec::Pong { zeroes: v["zeroes"].as_u64()? as u16 },
            _ => return None,
        })
    }
}

fn oid(b: &[u8; 20]) -> git::Oid {
    git::Oid::try_from(&b[..]).expect("20 bytes are an oid")
}

fn onion(pk: &[u8; 32]) -> OnionAddrV3 {
    OnionAddrV3::from(cyphernet::ed25519::PublicKey::from_pk_compressed(*pk).expect("any 32 bytes are accepted"))
}

fn address(a: &Addr) -> Address {
    let host = match &a.host {
        Host::V4(o) => HostName::Ip(net::IpAddr::V4(net::Ipv4Addr::from(*o))),
        Host::V6(o) => HostName::Ip(net::IpAddr::V6(net::Ipv6Addr::from(*o))),
        Host::Dns(s) => HostName::Dns(s.clone()),
        Host::Onion(k) => HostName::Tor(onion(k)),
        Host::Other => unreachable!("never generated"),
    };
    Address::from(NetAddr { host, port: a.port })
}

fn ts(u: u64) -> Result<Timestamp, String> {
    Timestamp::try_from(u).map_err(|u| format!("timestamp {u} out of range"))
}

/// Build the heartwood message through its public constructors. `Err` = the spec is outside what the
/// constructors accept (a fixture problem, never a verdict).
fn build(s: &Spec) -> Result<Message, String> {
    Ok(match s {
        Spec::Node { node, sig, version, features, ts: t, alias, addrs, nonce, agent } => Message::announcement(
            PublicKey::from(*node),
            NodeAnnouncement {
                version: *version,
                features: Features::from(*features),
                timestamp: ts(*t)?,
                alias: Alias::from_str(alias).map_err(|e| e.to_string())?,
                addresses: BoundedVec::try_from(addrs.iter().map(address).collect::<Vec<_>>()).map_err(|e| e.to_string())?,
                nonce: *nonce,
                agent: UserAgent::from_str(agent).map_err(|e| format!("user agent rejected: {e:?}"))?,
            },
            Signature::from(*sig),
        ),
        Spec::Inventory { node, sig, inv, ts: t } => Message::announcement(
            PublicKey::from(*node),
            InventoryAnnouncement {
                inventory: BoundedVec::try_from(inv.iter().map(|o| RepoId::from(oid(o))).collect::<Vec<_>>()).map_err(|e| e.to_string())?,
                timestamp: ts(*t)?,
            },
            Signature::from(*sig),
        ),
        Spec::Refs { node, sig, rid, refs, ts: t } => Message::announcement(
            PublicKey::from(*node),
            RefsAnnouncement {
                rid: RepoId::from(oid(rid)),
                refs: BoundedVec::try_from(refs.iter().map(|(r, a)| RefsAt { remote: PublicKey::from(*r), at: oid(a) }).collect::<Vec<_>>())
                    .map_err(|e| e.to_string())?,
                timestamp: ts(*t)?,
            },
            Signature::from(*sig),
        ),
        Spec::Subscribe { filter, since, until } => Message::subscribe(Filter::from(BloomFilter::from(filter.clone())), ts(*since)?, ts(*until)?),
        Spec::Info { rid, at } => Message::Info(Info::RefsAlreadySynced { rid: RepoId::from(oid(rid)), at: oid(at) }),
        Spec::Ping { ponglen, zeroes } => Message::Ping(Ping { ponglen: *ponglen, zeroes: ZeroBytes::new(*zeroes) }),
        Spec::Pong { zeroes } => Message::Pong { zeroes: ZeroBytes::new(*zeroes) },
    })
}

fn oid_bytes(o: &git::Oid) -> [u8; 20] {
    let mut a = [0u8; 20];
    let b = o.as_bytes();
    if b.len() == 20 {
        a.copy_from_slice(b);
    }
    a
}

/// Read every public field of a message back into plain values.
fn extract(m: &Message) -> Spec {
    match m {
        Message::Subscribe(Subscribe { filter, since, until }) => Spec::Subscribe { filter: filter.as_bytes().to_vec(), since: **since, until: **until },
        Message::Info(Info::RefsAlreadySynced { rid, at }) => Spec::Info { rid: oid_bytes(rid), at: oid_bytes(at) },
        Message::Ping(Ping { ponglen, zeroes }) => Spec::Ping { ponglen: *ponglen, zeroes: zeroes.len() as u16 },
        Message::Pong { zeroes } => Spec::Pong { zeroes: zeroes.len() as u16 },
        Message::Announcement(Announcement { node, signature, message }) => {
            let node: [u8; 32] = ***node;
            let sig: [u8; 64] = ***signature;
            match message {
                AnnouncementMessage::Inventory(i) => Spec::Inventory { node, sig, inv: i.inventory.iter().map(|r| oid_bytes(r)).collect(), ts: *i.timestamp },
                AnnouncementMessage::Refs(r) => Spec::Refs {
                    node,
                    sig,
                    rid: oid_bytes(&r.rid),
                    refs: r.refs.iter().map(|x| (**x.remote, oid_bytes(&x.at))).collect(),
                    ts: *r.timestamp,
                },
                AnnouncementMessage::Node(n) => Spec::Node {
                    node,
                    sig,
                    version: n.version,
                    features: *n.features,
                    ts: *n.timestamp,
                    alias: n.alias.as_str().to_string(),
                    addrs: n
                        .addresses
                        .iter()
                        .map(|a| Addr {
                            host: match &a.host {
                                HostName::Ip(net::IpAddr::V4(i)) => Host::V4(i.octets()),
                                HostName::Ip(net::IpAddr::V6(i)) => Host::V6(i.octets()),
                                HostName::Dns(s) => Host::Dns(s.clone()),
                                HostName::Tor(t) => {
                                    let mut k = [0u8; 32];
                                    k.copy_from_slice(&t.into_raw_bytes()[..32]);
                                    Host::Onion(k)
                                }
                                _ => Host::Other,
                            },
                            port: a.port,
                        })
                        .collect(),
                    nonce: n.nonce,
                    agent: n.agent.as_str().to_string(),
                },
            }
        }
    }
}

fn msg_type(m: &Message) -> &'static str {
    match m {
        Message::Subscribe(_) => TYPES[3],
        Message::Info(_) => TYPES[4],
        Message::Ping(_) => TYPES[5],
        Message::Pong { .. } => TYPES[6],
        Message::Announcement(a) => match a.message {
            AnnouncementMessage::Node(_) => TYPES[0],
            AnnouncementMessage::Inventory(_) => TYPES[1],
            AnnouncementMessage::Refs(_) => TYPES[2],
        },
    }
}

// ---------------------------------------------------------------------------------------------
// Generators

fn arr<const N: usize>(rng: &mut Rng) -> [u8; N] {
    let mut a = [0u8; N];
    match rng.below(12) {
        0 => {}
        1 => a = [0xff; N],
        _ => rng.fill(&mut a),
    }
    a
}

fn gen_ts(rng: &mut Rng) -> u64 {
    match rng.below(8) {
        0 => 0,
        1 => 1,
        2 => TS_MAX,
        3 => TS_MAX - 1,
        4 => 1_700_000_000_000 + rng.below(100_000_000_000),
        _ => rng.u64() >> 1,
    }
}

/// A string of exactly `len` bytes from the palette (ASCII fill when a multi-byte char does not fit).
fn sized_string(rng: &mut Rng, len: usize, ascii: &[u8], wide: &[char]) -> String {
    let mut s = String::new();
    while s.len() < len {
        if !wide.is_empty() && rng.chance(1, 5) {
            let c = *rng.pick(wide);
            if s.len() + c.len_utf8() <= len {
                s.push(c);
                continue;
            }
        }
        s.push(*rng.pick(ascii) as char);
    }
    s
}

const ALNUM: &[u8] = b"abcdefghijklmnopqrstuvwxyzABCDEFGHIJKLMNOPQRSTUVWXYZ0123456789";
const GRAPHIC: &[u8] = b"!\"#$%&'()*+,-.0123456789;<=>?@ABCXYZ[\\]^_`abcxyz{|}~";

fn gen_alias(rng: &mut Rng, rep: &mut Reporter) -> String {
    let len = match rng.below(6) {
        0 => 1,
        1 => 32,
        2 => 31,
        _ => 1 + rng.usize(32),
    };
    if len == 32 {
        rep.count("limit:alias=32-bytes");
    }
    sized_string(rng, len, GRAPHIC, &['é', '©', '€', '木', '😀'])
}

fn gen_agent(rng: &mut Rng, rep: &mut Reporter) -> String {
    // "/" segment ("/" segment)* "/", segment = word | word ":" word; total <= 64 bytes
    let total = match rng.below(7) {
        0 => 3,
        1 => 64,
        2 => 63,
        3 => return "/radicle/".to_string(),
        _ => 3 + rng.usize(62),
    };
    if total == 64 {
        rep.count("limit:agent=64-bytes");
    }
    let inner = total - 2;
    let mut s = String::from("/");
    let mut left = inner;
    while left > 0 {
        // a segment needs >= 1 byte (word) or >= 3 bytes (a:b); a separator costs 1 more
        let seg = if left <= 3 || rng.chance(1, 3) { left } else { 1 + rng.usize(left - 2) };
        let rest_after = left - seg;
        // never leave exactly... any remainder >= 1 is fine after a '/' if >= 1 byte remains for a word
        let seg = if rest_after == 1 { left } else { seg };
        if seg >= 3 && rng.bool() {
            let c = 1 + rng.usize(seg - 2);
            s.push_str(&sized_string(rng, c, ALNUM, &[]));
            s.push(':');
            s.push_str(&sized_string(rng, seg - c - 1, b"0123456789.-+abc", &[]));
        } else {
            s.push_str(&sized_string(rng, seg, ALNUM, &[]));
        }
        left -= seg;
        if left > 0 {
            s.push('/');
            left -= 1;
            if left == 0 {
                // would end in "//": replace the separator by a letter
                s.pop();
                s.push('x');
            }
        }
    }
    s.push('/');
    s
}

fn gen_dns(rng: &mut Rng, rep: &mut Reporter) -> String {
    let len = match rng.below(6) {
        0 => 255,
        1 => 254,
        2 => 1,
        3 => 253,
        _ => 1 + rng.usize(40),
    };
    if len == 255 {
        rep.count("limit:dns-name=255-bytes");
    }
    let mut s: Vec<u8> = sized_string(rng, len, b"abcdefghijklmnopqrstuvwxyz0123456789-", &[]).into_bytes();
    // hostname shaped: dots here and there, starts and ends with a letter (never an IP, never ".onion")
    for i in 1..len.saturating_sub(1) {
        if rng.chance(1, 9) && s[i - 1] != b'.' {
            s[i] = b'.';
        }
    }
    s[0] = b'a' + rng.below(26) as u8;
    s[len - 1] = b'a' + rng.below(13) as u8; // a..m: cannot spell "onion" at the end ('n','o' excluded)
    String::from_utf8(s).unwrap()
}

fn gen_addr(rng: &mut Rng, rep: &mut Reporter, kind: u64) -> Addr {
    let port = pick!(rng, [0u16, 1, 8776, 65535, rng.u32() as u16]);
    let host = match kind {
        0 => Host::V4(arr(rng)),
        1 => {
            let mut o: [u8; 16] = arr(rng);
            match rng.below(6) {
                0 => {
                    // IPv4-mapped: must stay an IPv6 address on the wire
                    o[..10].fill(0);
                    o[10] = 0xff;
                    o[11] = 0xff;
                    rep.count("addr:ipv6-v4-mapped");
                }
                1 => {
                    o = [0; 16];
                    o[15] = rng.below(2) as u8;
                }
                _ => {}
            }
            Host::V6(o)
        }
        2 => {
            let s = gen_dns(rng, rep);
            // the node learns DNS names from `Address::from_str` (config / CLI): only use names that
            // this parser maps to the very same address
            let direct = address(&Addr { host: Host::Dns(s.clone()), port });
            match Address::from_str(&format!("{s}:{port}")) {
                Ok(p) if p == direct => {
                    rep.count("addr:dns-as-parsed-by-Address::from_str");
                    Host::Dns(s)
                }
                _ => {
                    rep.count("fixture:dns-name-not-parsed-as-dns(replaced)");
                    Host::Dns("seed.radicle.xyz".into())
                }
            }
        }
        _ => Host::Onion(arr(rng)),
    };
    rep.count(match host {
        Host::V4(_) => "addr:ipv4",
        Host::V6(_) => "addr:ipv6",
        Host::Dns(_) => "addr:dns",
        _ => "addr:onion",
    });
    Addr { host, port }
}

fn gen_filter(rng: &mut Rng, rep: &mut Reporter) -> Vec<u8> {
    let size = *rng.pick(&[FILTER_SIZE_S, FILTER_SIZE_M, FILTER_SIZE_L]);
    rep.count(&format!("filter-size:{size}"));
    match rng.below(5) {
        0 => vec![0; size],
        1 => vec![0xff; size],
        2 => {
            // the node's own constructor, fed with repository ids
            let n = *rng.pick(&[0usize, 1, 10, 900, 3500]);
            let ids: Vec<RepoId> = (0..n).map(|_| RepoId::from(oid(&arr(rng)))).collect();
            let f = Filter::new(ids);
            f.as_bytes().to_vec()
        }
        _ => rng.bytes(size),
    }
}

/// `lim`: 0 = small, 1 = at / next to the limit.
fn gen_spec(rng: &mut Rng, rep: &mut Reporter, ty: usize, lim: bool) -> Spec {
    let node = arr(rng);
    let sig = arr(rng);
    match ty {
        0 => {
            let n = if lim { *rng.pick(&[ADDRESS_LIMIT, ADDRESS_LIMIT, ADDRESS_LIMIT - 1]) } else { rng.usize(5) };
            if n == ADDRESS_LIMIT {
                rep.count("limit:addresses=ADDRESS_LIMIT");
            }
            let only = if lim && rng.bool() { Some(rng.below(4)) } else { None }; // e.g. 16 x 255-byte DNS names
            let mut addrs = vec![];
            for _ in 0..n {
                let kind = match only {
                    Some(k) => k,
                    None => rng.below(4),
                };
                addrs.push(gen_addr(rng, rep, kind));
            }
            Spec::Node {
                node,
                sig,
                version: pick!(rng, [0u8, 1, 255, rng.u8()]),
                features: pick!(rng, [0u64, 1, u64::MAX, rng.u64()]),
                ts: gen_ts(rng),
                alias: gen_alias(rng, rep),
                addrs,
                nonce: pick!(rng, [0u64, u64::MAX, rng.u64()]),
                agent: gen_agent(rng, rep),
            }
        }
        1 => {
            let n = if lim { *rng.pick(&[INVENTORY_LIMIT, INVENTORY_LIMIT, INVENTORY_LIMIT - 1]) } else { rng.usize(6) };
            if n == INVENTORY_LIMIT {
                rep.count("limit:inventory=INVENTORY_LIMIT");
            }
            Spec::Inventory { node, sig, inv: (0..n).map(|_| arr(rng)).collect(), ts: gen_ts(rng) }
        }
        2 => {
            let n = if lim { *rng.pick(&[REF_REMOTE_LIMIT, REF_REMOTE_LIMIT, REF_REMOTE_LIMIT - 1]) } else { rng.usize(6) };
            if n == REF_REMOTE_LIMIT {
                rep.count("limit:refs=REF_REMOTE_LIMIT");
            }
            Spec::Refs { node, sig, rid: arr(rng), refs: (0..n).map(|_| (arr(rng), arr(rng))).collect(), ts: gen_ts(rng) }
        }
        3 => Spec::Subscribe { filter: gen_filter(rng, rep), since: gen_ts(rng), until: gen_ts(rng) },
        4 => Spec::Info { rid: arr(rng), at: arr(rng) },
        5 => {
            let zeroes = if lim {
                *rng.pick(&[Ping::MAX_PING_ZEROES, Ping::MAX_PING_ZEROES, Ping::MAX_PING_ZEROES - 1])
            } else if rng.chance(1, 4) {
                // the node's own constructor (seeded from our PRNG)
                let p = Ping::new(&mut fastrand::Rng::with_seed(rng.u64()));
                rep.count("ping:from-Ping::new");
                return Spec::Ping { ponglen: p.ponglen, zeroes: p.zeroes.len() as u16 };
            } else {
                rng.below(40) as u16
            };
            if zeroes == Ping::MAX_PING_ZEROES {
                rep.count("limit:ping-zeroes=MAX_PING_ZEROES");
            }
            Spec::Ping { ponglen: pick!(rng, [0u16, 1, Ping::MAX_PONG_ZEROES, u16::MAX, rng.u32() as u16]), zeroes }
        }
        _ => {
            let zeroes = if lim { *rng.pick(&[Ping::MAX_PONG_ZEROES, Ping::MAX_PONG_ZEROES, Ping::MAX_PONG_ZEROES - 1]) } else { rng.below(40) as u16 };
            if zeroes == Ping::MAX_PONG_ZEROES {
                rep.count("limit:pong-zeroes=MAX_PONG_ZEROES");
            }
            Spec::Pong { zeroes }
        }
    }
}

// ---------------------------------------------------------------------------------------------
// (a) round trip

fn roundtrip(rep: &mut Reporter, spec: &Spec, frame_too: bool, signed: bool) {
    let ty = spec.ty();
    rep.eval();
    let m = match guarded(|| build(spec)) {
        Ok(Ok(m)) => m,
        other => {
            rep.inconclusive("fixture: spec rejected by the constructors", json!({"spec": spec.to_json(), "why": format!("{:?}", other.map(|r| r.map(|_| ())))}));
            return;
        }
    };
    rep.count(&format!("constructed:{ty}"));
    let w = |extra: Value| json!({"kind": "roundtrip", "spec": spec.to_json(), "signed": signed, "detail": extra});
    let bytes = match guarded(|| serialize(&m)) {
        Ok(b) => b,
        Err(p) => {
            let why = if p.contains("exceeds maximum size") { "exceeds-maximum-size".to_string() } else { panic_site(&p) };
            viol(rep, &format!("C15/roundtrip/encode-fails/{ty}/{why}"), || w(json!({"panic": p})));
            return;
        }
    };
    rep.max(&format!("encoded-bytes:{ty}"), bytes.len() as u64);
    if bytes.len() > wire::Size::MAX as usize {
        viol(rep, &format!("C15/roundtrip/encoding-exceeds-64KiB/{ty}"), || w(json!({"len": bytes.len()})));
        return;
    }
    if bytes.len() > 65000 {
        rep.count("encoded-size>65000");
    }
    let back = match guarded(|| deserialize::<Message>(&bytes)) {
        Err(p) => {
            viol(rep, &format!("C15/roundtrip/decode-panics/{ty}/{}", panic_site(&p)), || w(json!({"panic": p, "bytes_hex": hex(&bytes)})));
            return;
        }
        Ok(Err(e)) => {
            viol(rep, &format!("C15/roundtrip/own-encoding-rejected/{ty}"), || w(json!({"error": e.to_string(), "bytes_hex": hex(&bytes)})));
            return;
        }
        Ok(Ok(b)) => b,
    };
    let got = extract(&back);
    if back != m || got != *spec {
        let field = first_spec_difference(spec, &got);
        viol(rep, 
            &format!("C15/roundtrip/decodes-to-different-message/{ty}/{field}"),
            || w(json!({"decoded": got.to_json(), "eq_operator": back == m, "bytes_hex": hex(&bytes)})));
        return;
    }
    if signed {
        // the spec carries a genuine signature made by `AnnouncementMessage::signed`: what the
        // receiver verifies (the re-encoding of the decoded message) must be what was signed
        match &back {
            Message::Announcement(a) => match guarded(|| a.verify()) {
                Ok(true) => rep.count("signed-announcement-verifies-after-roundtrip"),
                other => {
                    viol(rep, 
                        &format!("C15/roundtrip/genuine-signature-does-not-verify-after-roundtrip/{ty}"),
                        || w(json!({"verify": format!("{other:?}"), "bytes_hex": hex(&bytes)})));
                    return;
                }
            },
            _ => {}
        }
    }
    rep.count(&format!("roundtrip-ok:{ty}"));
    rep.nontrivial(fnv(&bytes));
    if rep.wants_sample() && bytes.len() < 200 {
        rep.sample(json!({"spec": spec.to_json(), "bytes_hex": hex(&bytes)}));
    }
    if frame_too {
        frame_roundtrip(rep, spec, &m, &bytes);
    }
}

fn first_spec_difference(a: &Spec, b: &Spec) -> &'static str {
    match (a, b) {
        (Spec::Node { node, sig, version, features, ts, alias, addrs, nonce, agent }, Spec::Node { node: n2, sig: s2, version: v2, features: f2, ts: t2, alias: a2, addrs: ad2, nonce: no2, agent: ag2 }) => {
            if node != n2 { "node" } else if sig != s2 { "signature" } else if version != v2 { "version" } else if features != f2 { "features" } else if ts != t2 { "timestamp" } else if alias != a2 { "alias" } else if addrs != ad2 { "addresses" } else if nonce != no2 { "nonce" } else if agent != ag2 { "agent" } else { "eq-operator-only" }
        }
        (Spec::Inventory { node, sig, inv, ts }, Spec::Inventory { node: n2, sig: s2, inv: i2, ts: t2 }) => {
            if node != n2 { "node" } else if sig != s2 { "signature" } else if inv != i2 { "inventory" } else if ts != t2 { "timestamp" } else { "eq-operator-only" }
        }
        (Spec::Refs { node, sig, rid, refs, ts }, Spec::Refs { node: n2, sig: s2, rid: r2, refs: rf2, ts: t2 }) => {
            if node != n2 { "node" } else if sig != s2 { "signature" } else if rid != r2 { "rid" } else if refs != rf2 { "refs" } else if ts != t2 { "timestamp" } else { "eq-operator-only" }
        }
        (Spec::Subscribe { filter, since, until }, Spec::Subscribe { filter: f2, since: s2, until: u2 }) => {
            if filter != f2 { "filter" } else if since != s2 { "since" } else if until != u2 { "until" } else { "eq-operator-only" }
        }
        (Spec::Info { rid, at }, Spec::Info { rid: r2, at: a2 }) => if rid != r2 { "rid" } else if at != a2 { "at" } else { "eq-operator-only" },
        (Spec::Ping { ponglen, zeroes }, Spec::Ping { ponglen: p2, zeroes: z2 }) => if ponglen != p2 { "ponglen" } else if zeroes != z2 { "zeroes" } else { "eq-operator-only" },
        (Spec::Pong { zeroes }, Spec::Pong { zeroes: z2 }) => if zeroes != z2 { "zeroes" } else { "eq-operator-only" },
        _ => "message-type",
    }
}

/// Canonical gossip frame around a constructible message: encodes, decodes to the same frame.
fn frame_roundtrip(rep: &mut Reporter, spec: &Spec, m: &Message, msg_bytes: &[u8]) {
    let ty = spec.ty();
    let link = if msg_bytes.len() % 2 == 0 { Link::Inbound } else { Link::Outbound };
    let w = |extra: Value| json!({"kind": "roundtrip", "spec": spec.to_json(), "detail": extra});
    let fb = match guarded(|| Frame::gossip(link, m.clone()).to_bytes()) {
        Ok(b) => b,
        Err(p) => {
            viol(rep, &format!("C15/frame-roundtrip/encode-fails/{ty}/{}", panic_site(&p)), || w(json!({"panic": p})));
            return;
        }
    };
    match guarded(|| deserialize::<Frame<Message>>(&fb)) {
        Ok(Ok(f)) if f.stream == StreamId::gossip(link) && f.data == FrameData::Gossip(m.clone()) => {
            rep.count("frame-roundtrip-ok");
            if !fb.ends_with(msg_bytes) {
                // informational only: the frame payload is expected to be the message encoding
                rep.count("info:frame-payload-is-not-the-message-encoding");
            }
        }
        Ok(Ok(_)) => viol(rep, &format!("C15/frame-roundtrip/decodes-to-different-frame/{ty}"), || w(json!({"frame_hex": hex(&fb[..fb.len().min(64)])}))),
        Ok(Err(e)) => viol(rep, &format!("C15/frame-roundtrip/own-encoding-rejected/{ty}"), || w(json!({"error": e.to_string()}))),
        Err(p) => viol(rep, &format!("C15/frame-roundtrip/decode-panics/{ty}/{}", panic_site(&p)), || w(json!({"panic": p}))),
    }
    // informational: the same frame with a non-minimal varint length prefix (accepted by QUIC varints)
    if msg_bytes.len() < 64 {
        let mut alt = fb[..5].to_vec(); // "rad" version + 1-byte stream id
        alt.extend([0x40, msg_bytes.len() as u8]);
        alt.extend(msg_bytes);
        match guarded(|| deserialize::<Frame<Message>>(&alt)) {
            Ok(Ok(f)) if f.data == FrameData::Gossip(m.clone()) => rep.count("info:frame-nonminimal-varint-decodes-to-same-message"),
            Ok(Ok(_)) => rep.count("info:frame-nonminimal-varint-decodes-to-OTHER-message"),
            _ => rep.count("info:frame-nonminimal-varint-rejected"),
        }
    }
}

fn roundtrip_case(rep: &mut Reporter, seed: u64) {
    let mut rng = Rng::new(seed);
    let ty = rng.usize(7);
    let lim = rng.chance(1, 8);
    let mut spec = gen_spec(&mut rng, rep, ty, lim);
    let mut signed = false;
    if ty <= 2 && rng.chance(1, 3) {
        // the node's own way of making an announcement: sign the encoding of the inner message
        let mut key_seed = [0u8; 32];
        rng.fill(&mut key_seed);
        key_seed[0] |= 1; // an all-zero seed is refused by the key generator
        let device = Device::mock_from_seed(key_seed);
        match guarded(|| build(&spec).map(|m| match m {
            Message::Announcement(a) => Some(extract(&Message::Announcement(a.message.signed(&device)))),
            _ => None,
        })) {
            Ok(Ok(Some(s))) => {
                spec = s;
                signed = true;
            }
            // an inner message that cannot be encoded for signing is judged through the plain path
            _ => rep.count("signing-failed(judged-unsigned)"),
        }
    }
    roundtrip(rep, &spec, true, signed);
}

/// Not a verdict (see module doc): what happens with a DNS name beyond the `&str` encoder's bound.
fn probe_long_dns(rep: &mut Reporter) {
    let name = format!("{}.example.com", "a".repeat(250));
    match Address::from_str(&format!("{name}:8776")) {
        Ok(a) => {
            let spec = Spec::Node { node: [1; 32], sig: [2; 64], version: 1, features: 1, ts: 1, alias: "a".into(), addrs: vec![], nonce: 0, agent: "/radicle/".into() };
            if let Ok(Message::Announcement(mut ann)) = build(&spec) {
                if let AnnouncementMessage::Node(n) = &mut ann.message {
                    n.addresses = BoundedVec::try_from(vec![a]).unwrap();
                }
                match guarded(|| serialize(&Message::Announcement(ann))) {
                    Ok(_) => rep.count("probe:dns-name-262-bytes-from-Address::from_str-encodes"),
                    Err(_) => rep.count("probe:dns-name-262-bytes-from-Address::from_str-PANICS-on-encode(not judged)"),
                }
            }
        }
        Err(_) => rep.count("probe:dns-name-262-bytes-rejected-by-Address::from_str"),
    }
}

// ---------------------------------------------------------------------------------------------
// Own layout walker (independent of heartwood's Encode / Decode)

#[derive(Clone, Copy, PartialEq, Eq, Debug)]
enum K {
    Tag,
    Opaque,
    Int,
    Ts,
    Count,
    OidLen,
    FilterSize,
    StrLen,
    Str,
    ZLen,
    Pad,
    AddrType,
    InfoType,
}

#[derive(Clone, Debug)]
struct F {
    name: &'static str,
    k: K,
    s: usize,
    e: usize,
}

#[derive(Default, Debug)]
struct Layout {
    ty: &'static str,
    f: Vec<F>,
    /// spans of the elements of the message's vector (inventory / refs / addresses)
    items: Vec<(usize, usize)>,
    count_at: Option<usize>,
    agent_at: Option<usize>,
    agent_truncated: bool,
}

struct Walk<'a> {
    b: &'a [u8],
    p: usize,
    l: Layout,
}

impl<'a> Walk<'a> {
    fn take(&mut self, n: usize, name: &'static str, k: K) -> Option<&'a [u8]> {
        if self.p + n > self.b.len() {
            return None;
        }
        self.l.f.push(F { name, k, s: self.p, e: self.p + n });
        self.p += n;
        Some(&self.b[self.p - n..self.p])
    }
    fn u16(&mut self, name: &'static str, k: K) -> Option<usize> {
        let x = self.take(2, name, k)?;
        Some(u16::from_be_bytes([x[0], x[1]]) as usize)
    }
    fn oid(&mut self, len_name: &'static str, name: &'static str) -> Option<()> {
        let n = self.u16(len_name, K::OidLen)?;
        self.take(n, name, K::Opaque).map(|_| ())
    }
    fn string(&mut self, len_name: &'static str, name: &'static str) -> Option<()> {
        let n = self.take(1, len_name, K::StrLen)?[0] as usize;
        self.take(n, name, K::Str).map(|_| ())
    }
    fn ann_header(&mut self) -> Option<()> {
        self.take(32, "node", K::Opaque)?;
        self.take(64, "signature", K::Opaque).map(|_| ())
    }
}

fn layout(b: &[u8]) -> Option<Layout> {
    let mut w = Walk { b, p: 0, l: Layout::default() };
    let tag = w.u16("type", K::Tag)?;
    match tag {
        2 => {
            w.l.ty = TYPES[0];
            w.ann_header()?;
            w.take(1, "version", K::Int)?;
            w.take(8, "features", K::Int)?;
            w.take(8, "timestamp", K::Ts)?;
            w.string("alias-length", "alias")?;
            w.l.count_at = Some(w.p);
            let n = w.u16("addresses-count", K::Count)?;
            for _ in 0..n {
                let s = w.p;
                match w.take(1, "address-type", K::AddrType)?[0] {
                    1 => w.take(4, "address-ipv4", K::Opaque).map(|_| ())?,
                    2 => w.take(16, "address-ipv6", K::Opaque).map(|_| ())?,
                    3 => w.string("address-dns-length", "address-dns")?,
                    4 => w.take(35, "address-onion", K::Opaque).map(|_| ())?,
                    _ => return None,
                }
                w.take(2, "address-port", K::Int)?;
                w.l.items.push((s, w.p));
            }
            w.take(8, "nonce", K::Int)?;
            if w.p < b.len() {
                w.l.agent_at = Some(w.p);
                let n = w.take(1, "agent-length", K::StrLen)?[0] as usize;
                if w.p + n > b.len() {
                    w.l.agent_truncated = true;
                    let rest = b.len() - w.p;
                    w.take(rest, "agent", K::Str)?;
                } else {
                    w.take(n, "agent", K::Str)?;
                }
            }
        }
        4 => {
            w.l.ty = TYPES[1];
            w.ann_header()?;
            w.l.count_at = Some(w.p);
            let n = w.u16("inventory-count", K::Count)?;
            for _ in 0..n {
                let s = w.p;
                w.oid("inventory-item-oid-length", "inventory-item")?;
                w.l.items.push((s, w.p));
            }
            w.take(8, "timestamp", K::Ts)?;
        }
        6 => {
            w.l.ty = TYPES[2];
            w.ann_header()?;
            w.oid("rid-oid-length", "rid")?;
            w.l.count_at = Some(w.p);
            let n = w.u16("refs-count", K::Count)?;
            for _ in 0..n {
                let s = w.p;
                w.take(32, "refs-remote", K::Opaque)?;
                w.oid("refs-at-oid-length", "refs-at")?;
                w.l.items.push((s, w.p));
            }
            w.take(8, "timestamp", K::Ts)?;
        }
        8 => {
            w.l.ty = TYPES[3];
            let n = w.u16("filter-size", K::FilterSize)?;
            w.take(n, "filter", K::Opaque)?;
            w.take(8, "since", K::Ts)?;
            w.take(8, "until", K::Ts)?;
        }
        14 => {
            w.l.ty = TYPES[4];
            w.u16("info-type", K::InfoType)?;
            w.oid("rid-oid-length", "rid")?;
            w.oid("at-oid-length", "at")?;
        }
        10 | 12 => {
            w.l.ty = if tag == 10 { TYPES[5] } else { TYPES[6] };
            if tag == 10 {
                w.take(2, "ponglen", K::Int)?;
            }
            let n = w.u16("zeroes-length", K::ZLen)?;
            w.take(n, "zeroes-padding", K::Pad)?;
        }
        _ => return None,
    }
    if w.p < b.len() {
        let rest = b.len() - w.p;
        w.take(rest, "trailing-bytes", K::Opaque)?;
    }
    Some(w.l)
}

fn field_at(l: &Layout, i: usize) -> &'static str {
    l.f.iter().find(|f| f.s <= i && i < f.e).map(|f| f.name).unwrap_or("past-the-end")
}

// ---------------------------------------------------------------------------------------------
// (b) re-encoding oracle

/// Decide one byte string. Returns the decoded message type if it decoded.
fn check_bytes(rep: &mut Reporter, b: &[u8], how: &Value) -> Option<&'static str> {
    rep.eval();
    let m = match guarded(|| deserialize::<Message>(b)) {
        Err(_) => {
            rep.count("decode-panicked(not judged here, see C13)");
            return None;
        }
        Ok(Err(_)) => {
            rep.count("input-rejected");
            return None;
        }
        Ok(Ok(m)) => m,
    };
    let ty = msg_type(&m);
    rep.count("input-decoded");
    rep.count(&format!("input-decoded:{ty}"));
    let w = |extra: Value| {
        let dec = extract(&m).to_json();
        json!({"kind": "reencode", "bytes_hex": hex(b), "how": how, "decoded": if b.len() <= 4096 { dec } else { Value::Null }, "detail": extra})
    };
    let r = match guarded(|| serialize(&m)) {
        Ok(r) => r,
        Err(p) => {
            let why = if p.contains("exceeds maximum size") { "exceeds-maximum-size".to_string() } else { panic_site(&p) };
            let shape = if (ty == "ping" || ty == "pong") && why == "exceeds-maximum-size" {
                // a ping/pong whose padding length only fits an input longer than 65535 bytes
                "ping-pong-zeroes-beyond-encodable-maximum".to_string()
            } else {
                format!("{ty}/{why}")
            };
            viol(rep, &format!("C15/reencode-fails/{shape}"), || w(json!({"panic": p, "input_len": b.len()})));
            return Some(ty);
        }
    };
    if r == b {
        rep.count("reencode-identical");
        return Some(ty);
    }
    // The exception is decided on bytes alone: if serialize(m) is b followed by the default agent,
    // then b is the canonical encoding up to and including the nonce, i.e. b has no agent at all.
    if ty == TYPES[0] {
        let mut expect = b.to_vec();
        expect.extend(serialize(&UserAgent::default()));
        if r == expect {
            rep.count("reencode-node-announcement-without-agent=b+default-agent");
            return Some(ty);
        }
    }
    // Name the field of the first difference: by the layout of the input, else by the layout of the
    // re-encoding (the walker only names, it never decides).
    let i = r.iter().zip(b.iter()).position(|(x, y)| x != y).unwrap_or(r.len().min(b.len()));
    let lb = layout(b);
    let field = match (&lb, layout(&r)) {
        (Some(l), _) => field_at(l, i),
        (None, Some(l)) => field_at(&l, i),
        _ => "field-not-located",
    };
    let sig = if (ty == "ping" || ty == "pong") && field == "zeroes-padding" {
        "C15/reencode-differs/ping-pong-nonzero-padding".to_string()
    } else if ty == TYPES[0] && lb.as_ref().is_some_and(|l| l.agent_truncated) {
        "C15/reencode-differs/node-announcement/truncated-agent-taken-as-absent".to_string()
    } else {
        format!("C15/reencode-differs/{ty}/{field}")
    };
    viol(rep, &sig, || w(json!({"reencoded_hex": hex(&r), "first_difference_at": i, "field": field})));
    Some(ty)
}

// ---------------------------------------------------------------------------------------------
// Mutations

fn put16(v: &mut [u8], at: usize, x: usize) {
    v[at..at + 2].copy_from_slice(&(x as u16).to_be_bytes());
}

fn rebuild_items(b: &[u8], l: &Layout, items: &[Vec<u8>]) -> Vec<u8> {
    let c = l.count_at.unwrap();
    let end = l.items.last().map(|x| x.1).unwrap_or(c + 2);
    let mut v = b[..c + 2].to_vec();
    put16(&mut v, c, items.len());
    for it in items {
        v.extend_from_slice(it);
    }
    v.extend_from_slice(&b[end..]);
    v
}

fn fields<'a>(l: &'a Layout, ks: &[K]) -> Vec<&'a F> {
    l.f.iter().filter(|f| ks.contains(&f.k)).collect()
}

fn raw_addr(rng: &mut Rng) -> Vec<u8> {
    let mut v = vec![];
    match rng.below(6) {
        0 => {
            v.push(1);
            v.extend(rng.bytes(4));
        }
        1 => {
            v.push(2);
            v.extend(rng.bytes(16));
        }
        2 => {
            v.push(3);
            let n = *rng.pick(&[0usize, 1, 5, 255]);
            v.push(n as u8);
            v.extend(sized_string(rng, n, b"abc.-", &[]).bytes());
        }
        3 => {
            v.push(4);
            v.extend(onion(&arr(rng)).into_raw_bytes());
        }
        4 => {
            // onion with a wrong checksum / version
            v.push(4);
            let mut raw = onion(&arr(rng)).into_raw_bytes();
            raw[32 + rng.usize(3)] ^= 1 << rng.below(8);
            v.extend(raw);
        }
        _ => {
            v.push(*rng.pick(&[0u8, 5, 255]));
            v.extend(rng.bytes(4));
        }
    }
    v.extend(rng.bytes(2));
    v
}

fn string_content(rng: &mut Rng, n: usize, what: &str) -> Vec<u8> {
    let mut v: Vec<u8> = match (what, rng.below(4)) {
        ("agent", 0..=2) if n >= 3 => {
            let mut s = vec![b'/'];
            s.extend(sized_string(rng, n - 2, b"abcXYZ019.-:/", &[]).bytes());
            s.push(b'/');
            s
        }
        _ => sized_string(rng, n, GRAPHIC, &['é', '€']).into_bytes(),
    };
    if n > 0 && rng.chance(1, 4) {
        let i = rng.usize(n);
        v[i] = *rng.pick(&[b' ', 0, b'\n', 0x7f, 0xff, 0xc3, b':', b'/']);
    }
    v
}

/// One mutation of `b`. Returns `None` if the chosen operator does not apply.
fn mutate_once(rng: &mut Rng, b: &[u8], l: Option<&Layout>) -> Option<(Vec<u8>, &'static str)> {
    let mut v = b.to_vec();
    let op = rng.below(if l.is_some() { 27 } else { 5 });
    let lay = l;
    match op {
        0 => {
            if v.is_empty() { return None }
            for _ in 0..1 + rng.usize(3) {
                let i = rng.usize(v.len());
                v[i] ^= 1 << rng.below(8);
            }
            Some((v, "bitflip"))
        }
        1 => {
            let cut = rng.usize(v.len() + 1);
            v.truncate(cut);
            Some((v, "truncate"))
        }
        2 => {
            let n = 1 + rng.usize(8);
            if rng.bool() { v.extend(rng.bytes(n)) } else { v.extend(vec![0; n]) }
            Some((v, "append"))
        }
        3 => {
            let t: u16 = *rng.pick(&[2u16, 4, 6, 8, 10, 12, 14, 0, 1, 3, 16, 0x0200, 0xffff]);
            if v.len() < 2 { return None }
            put16(&mut v, 0, t as usize);
            Some((v, "type-tag-edit"))
        }
        4 => {
            if v.len() < 4 { return None }
            let n = 1 + rng.usize(v.len().min(16) - 1);
            let from = rng.usize(v.len() - n + 1);
            let to = rng.usize(v.len() - n + 1);
            let chunk = v[from..from + n].to_vec();
            v[to..to + n].copy_from_slice(&chunk);
            Some((v, "splice"))
        }
        _ => {
            let l = lay?;
            match op {
                5 | 6 => {
                    let fs: Vec<&F> = fields(l, &[K::Opaque, K::Int, K::Str, K::Pad]).into_iter().filter(|f| f.e > f.s).collect();
                    if fs.is_empty() { return None }
                    let f = *rng.pick(&fs);
                    let i = f.s + rng.usize(f.e - f.s);
                    v[i] = pick!(rng, [0u8, 1, 0x7f, 0x80, 0xff, rng.u8(), rng.u8()]);
                    Some((v, "field-byte-set"))
                }
                7 | 8 => {
                    let fs = fields(l, &[K::Ts]);
                    if fs.is_empty() { return None }
                    let f = *rng.pick(&fs);
                    let x = pick!(rng, [0u64, 1, TS_MAX - 1, TS_MAX, TS_MAX + 1, u64::MAX, rng.u64() >> 1, rng.u64()]);
                    v[f.s..f.e].copy_from_slice(&x.to_be_bytes());
                    Some((v, "timestamp-edit"))
                }
                9 => {
                    let fs = fields(l, &[K::Int]);
                    if fs.is_empty() { return None }
                    let f = *rng.pick(&fs);
                    let fill = pick!(rng, [0u8, 0xff, rng.u8()]);
                    for x in &mut v[f.s..f.e] { *x = fill }
                    Some((v, "int-field-edit"))
                }
                10 | 11 => {
                    let fs = fields(l, &[K::Count, K::OidLen, K::FilterSize, K::StrLen, K::ZLen]);
                    if fs.is_empty() { return None }
                    let f = *rng.pick(&fs);
                    if f.e - f.s == 1 {
                        let cur = v[f.s];
                        v[f.s] = *rng.pick(&[0u8, 1, cur.wrapping_add(1), cur.wrapping_sub(1), 32, 33, 64, 65, 255]);
                    } else {
                        let cur = u16::from_be_bytes([v[f.s], v[f.s + 1]]);
                        let x = *rng.pick(&[0u16, 1, cur.wrapping_add(1), cur.wrapping_sub(1), cur.wrapping_mul(2), 16, 17, 20, 32, 1024, 1025, 2973, 2974, 4096, 16384, 0xffff, cur.swap_bytes(), cur ^ 0x0100, cur | 0x8000]);
                        put16(&mut v, f.s, x as usize);
                    }
                    Some((v, "length-field-only"))
                }
                12..=16 => {
                    l.count_at?;
                    let mut items: Vec<Vec<u8>> = l.items.iter().map(|(s, e)| b[*s..*e].to_vec()).collect();
                    let name = match op {
                        12 if !items.is_empty() => {
                            let i = rng.usize(items.len());
                            let at = if rng.bool() { i + 1 } else { items.len() };
                            let it = items[i].clone();
                            items.insert(at, it);
                            "item-duplicate"
                        }
                        13 if !items.is_empty() => {
                            let i = rng.usize(items.len());
                            items.remove(i);
                            "item-drop"
                        }
                        14 if items.len() >= 2 => {
                            let i = rng.usize(items.len());
                            let mut j = rng.usize(items.len() - 1);
                            if j >= i { j += 1 }
                            items.swap(i, j);
                            "item-swap"
                        }
                        15 if items.len() >= 2 => {
                            if rng.bool() { items.reverse() } else { items.sort() }
                            "item-reorder"
                        }
                        16 => {
                            let it = match l.ty {
                                "node-announcement" => raw_addr(rng),
                                "inventory-announcement" => [&[0u8, 20][..], &rng.bytes(20)].concat(),
                                _ => [&rng.bytes(32)[..], &[0u8, 20], &rng.bytes(20)].concat(),
                            };
                            let at = rng.usize(items.len() + 1);
                            if l.ty == "node-announcement" && !items.is_empty() && rng.bool() {
                                let at = at.min(items.len() - 1);
                                items[at] = it;
                            } else {
                                items.insert(at, it);
                            }
                            "item-insert-or-replace"
                        }
                        _ => return None,
                    };
                    Some((rebuild_items(b, l, &items), name))
                }
                17 | 18 => {
                    // resize a string consistently (length byte + content)
                    let lens: Vec<usize> = l.f.iter().enumerate().filter(|(_, f)| f.k == K::StrLen).map(|(i, _)| i).collect();
                    if lens.is_empty() || l.agent_truncated { return None }
                    let i = *rng.pick(&lens);
                    let (lf, sf) = (&l.f[i], &l.f[i + 1]);
                    let n = pick!(rng, [0usize, 1, 2, 3, 31, 32, 33, 63, 64, 65, 255, rng.usize(40)]);
                    let what = if sf.name == "agent" { "agent" } else { "other" };
                    let content = string_content(rng, n, what);
                    let mut out = b[..lf.s].to_vec();
                    out.push(n as u8);
                    out.extend(content);
                    out.extend_from_slice(&b[sf.e..]);
                    Some((out, "string-resize"))
                }
                19 | 20 => {
                    let f = l.f.iter().find(|f| f.k == K::Pad && f.e > f.s)?;
                    for _ in 0..1 + rng.usize(3) {
                        let i = f.s + rng.usize(f.e - f.s);
                        v[i] = 1 + rng.below(255) as u8;
                    }
                    Some((v, "padding-nonzero"))
                }
                21 => {
                    let zi = l.f.iter().position(|f| f.k == K::ZLen)?;
                    let cur = l.f[zi + 1].e - l.f[zi + 1].s;
                    let n = pick!(rng, [
                        0usize, 1, 2, cur + 1, cur.saturating_sub(1), rng.usize(64),
                        Ping::MAX_PING_ZEROES as usize - 1, Ping::MAX_PING_ZEROES as usize, Ping::MAX_PING_ZEROES as usize + 1,
                        Ping::MAX_PONG_ZEROES as usize, Ping::MAX_PONG_ZEROES as usize + 1, 65535,
                    ]);
                    let mut out = b[..l.f[zi].s].to_vec();
                    out.extend((n as u16).to_be_bytes());
                    if rng.chance(3, 4) { out.extend(vec![0; n]) } else { out.extend(rng.bytes(n)) }
                    Some((out, "zeroes-resize"))
                }
                22 => {
                    if l.ty != "node-announcement" { return None }
                    match l.agent_at {
                        Some(at) if !l.agent_truncated => {
                            let alen = b.len() - at - 1;
                            if rng.bool() || alen == 0 {
                                v.truncate(at);
                                Some((v, "agent-drop"))
                            } else {
                                v.truncate(at + 1 + rng.usize(alen));
                                Some((v, "agent-truncate"))
                            }
                        }
                        None => {
                            if rng.bool() {
                                let n = 1 + rng.usize(64);
                                v.push(n as u8);
                                let k = rng.usize(n);
                                v.extend(string_content(rng, k, "agent"));
                                Some((v, "agent-append-partial"))
                            } else {
                                let mut sink = Reporter::new("scratch");
                                let a = gen_agent(rng, &mut sink);
                                v.push(a.len() as u8);
                                v.extend(a.bytes());
                                Some((v, "agent-append-valid"))
                            }
                        }
                        _ => None,
                    }
                }
                23 => {
                    let fi = l.f.iter().position(|f| f.k == K::FilterSize)?;
                    let n = *rng.pick(&[1024usize, 4096, 16384, 0, 1, 1023, 1025, 2048, 8192, 16385, 65535]);
                    let mut out = b[..l.f[fi].s].to_vec();
                    out.extend((n as u16).to_be_bytes());
                    match rng.below(3) {
                        0 => out.extend(vec![0; n]),
                        1 => out.extend(vec![0xff; n]),
                        _ => out.extend(rng.bytes(n)),
                    }
                    out.extend_from_slice(&b[l.f[fi + 1].e..]);
                    Some((out, "filter-resize"))
                }
                24 => {
                    let is: Vec<usize> = l.f.iter().enumerate().filter(|(_, f)| f.k == K::OidLen).map(|(i, _)| i).collect();
                    if is.is_empty() { return None }
                    let i = *rng.pick(&is);
                    let n = *rng.pick(&[0usize, 19, 21, 32, 20]);
                    let mut out = b[..l.f[i].s].to_vec();
                    out.extend((n as u16).to_be_bytes());
                    out.extend(rng.bytes(n));
                    out.extend_from_slice(&b[l.f[i + 1].e..]);
                    Some((out, "oid-resize"))
                }
                25 => {
                    let fs = fields(l, &[K::AddrType, K::InfoType]);
                    if fs.is_empty() { return None }
                    let f = *rng.pick(&fs);
                    let x = *rng.pick(&[0u8, 1, 2, 3, 4, 5, 255]);
                    v[f.e - 1] = x;
                    if f.e - f.s == 2 && rng.chance(1, 4) { v[f.s] = 1 }
                    Some((v, "subtype-byte-edit"))
                }
                _ => {
                    // cut exactly at a field boundary
                    let f = rng.pick(&l.f);
                    v.truncate(f.s);
                    Some((v, "truncate-at-field"))
                }
            }
        }
    }
}

/// "Random bytes with a valid type tag": structure-respecting and free-form.
fn random_tagged(rng: &mut Rng) -> (Vec<u8>, &'static str) {
    let tag = 2 * (1 + rng.below(7)) as u16;
    let mut v = tag.to_be_bytes().to_vec();
    match rng.below(4) {
        0 => {
            let n = rng.usize(200);
            v.extend(rng.bytes(n));
            (v, "random:tag+random-tail")
        }
        1 => {
            // ping / pong with consistent length and arbitrary padding bytes
            let tag: u16 = if rng.bool() { 10 } else { 12 };
            let mut v = tag.to_be_bytes().to_vec();
            if tag == 10 {
                v.extend(rng.bytes(2));
            }
            let n = pick!(rng, [0usize, 1, 2, 3, rng.usize(300), rng.usize(300), 65529, 65531]);
            v.extend((n as u16).to_be_bytes());
            v.extend(rng.bytes(n));
            (v, "random:ping-pong-random-padding")
        }
        _ => {
            // a well-formed skeleton (lengths, counts, sub-type bytes) with every payload byte random
            let mut sink = Reporter::new("scratch");
            let ty = rng.usize(5);
            let spec = gen_spec(rng, &mut sink, ty, false);
            let Ok(Ok(mut b)) = guarded(|| build(&spec).map(|m| serialize(&m))) else { return (v, "random:tag-only") };
            if let Some(l) = layout(&b) {
                for f in &l.f {
                    if matches!(f.k, K::Opaque | K::Int | K::Ts) && !f.name.starts_with("address-onion") {
                        rng.fill(&mut b[f.s..f.e]);
                        if f.k == K::Ts && rng.chance(3, 4) {
                            b[f.s] &= 0x7f;
                        }
                    }
                }
            }
            (b, "random:skeleton+random-payload")
        }
    }
}

fn mutation_case(rep: &mut Reporter, seed: u64) {
    let mut rng = Rng::new(seed);
    if rng.chance(1, 6) {
        let (b, how) = random_tagged(&mut rng);
        rep.count(&format!("op:{how}"));
        if let Some(_ty) = check_bytes(rep, &b, &json!([how])) {
            rep.count(&format!("op-decoded:{how}"));
            rep.count("mutated-decoded");
            rep.nontrivial(fnv(&b));
        }
        return;
    }
    let ty = rng.usize(7);
    let lim = rng.chance(1, 40);
    let mut sink = Reporter::new("scratch");
    let spec = gen_spec(&mut rng, &mut sink, ty, lim);
    let base = match guarded(|| build(&spec).map(|m| serialize(&m))) {
        Ok(Ok(b)) => b,
        _ => {
            // judged by the round-trip half; here only a fixture problem
            rep.count("fixture:base-message-not-encodable");
            return;
        }
    };
    let mut base = base;
    if ty == 0 && rng.chance(1, 4) {
        // start from the legacy form of a node announcement (no trailing user agent)
        if let Some(at) = layout(&base).and_then(|l| l.agent_at) {
            base.truncate(at);
            rep.count("base:node-announcement-without-agent");
        }
    }
    let mut b = base.clone();
    let mut ops: Vec<&'static str> = vec![];
    let want = if rng.chance(7, 10) { 1 } else { 2 };
    for _ in 0..24 {
        if ops.len() >= want {
            break;
        }
        let l = layout(&b);
        if let Some((nb, name)) = mutate_once(&mut rng, &b, l.as_ref()) {
            b = nb;
            ops.push(name);
        }
    }
    if b == base {
        rep.count("mutation-was-identity(skipped)");
        return;
    }
    rep.count("mutated-inputs");
    for o in &ops {
        rep.count(&format!("op:{o}"));
    }
    let how = json!({"base_type": spec.ty(), "ops": ops});
    if let Some(ty) = check_bytes(rep, &b, &how) {
        rep.count("mutated-decoded");
        rep.count(&format!("mutated-decoded:{ty}"));
        for o in &ops {
            rep.count(&format!("op-decoded:{o}"));
        }
        rep.nontrivial(fnv(&b));
        if rep.wants_sample() && b.len() < 120 {
            rep.sample(json!({"mutated_bytes_hex": hex(&b), "how": how}));
        }
    }
}

/// tag, zero node id and signature, version 1, no features, timestamp 0, alias "a", no addresses,
/// nonce 0, followed by `tail` where the user agent would be.
fn minimal_node_announcement(tail: &[u8]) -> Vec<u8> {
    let mut v = vec![0x00, 0x02];
    v.extend([0u8; 32 + 64]);
    v.push(1);
    v.extend([0u8; 8 + 8]);
    v.extend([1, b'a']);
    v.extend([0u8; 2 + 8]);
    v.extend(tail);
    v
}

/// Smallest inputs for the suspected shapes, evaluated first on shard 0 so that the replay file of
/// a signature is the minimal witness.
fn probes(rep: &mut Reporter) {
    for (b, how) in [
        (vec![0x00, 0x0c, 0x00, 0x01, 0x01], "probe:pong-one-nonzero-padding-byte"),
        (vec![0x00, 0x0a, 0x00, 0x00, 0x00, 0x01, 0xff], "probe:ping-one-nonzero-padding-byte"),
        (vec![0x00, 0x0c, 0x00, 0x01, 0x00], "probe:pong-one-zero-padding-byte"),
        (minimal_node_announcement(&[]), "probe:node-announcement-without-agent"),
        (minimal_node_announcement(&[0x01]), "probe:node-announcement-agent-length-byte-only"),
        (minimal_node_announcement(&[0x09, b'/', b'r']), "probe:node-announcement-agent-cut-short"),
        (minimal_node_announcement(b"\x09/radicle/"), "probe:node-announcement-with-default-agent"),
        (
            // smallest input of that shape: pong announcing MAX_PONG_ZEROES + 1 zero bytes (65536 bytes in all)
            [&[0x00u8, 0x0c][..], &(Ping::MAX_PONG_ZEROES + 1).to_be_bytes(), &vec![0u8; Ping::MAX_PONG_ZEROES as usize + 1]].concat(),
            "probe:pong-with-MAX_PONG_ZEROES+1-zero-bytes",
        ),
    ] {
        rep.count(how);
        check_bytes(rep, &b, &json!([how]));
    }
    probe_long_dns(rep);
}

pub fn run(args: &Args) {
    // 64 KiB messages come and go: keep glibc from returning the heap top to the kernel (and
    // faulting it back in) on every case. Performance only.
    // SAFETY: plain libc tuning calls before any worker thread exists.
    unsafe {
        vcommon::libc::mallopt(vcommon::libc::M_TRIM_THRESHOLD, 1 << 30);
        vcommon::libc::mallopt(vcommon::libc::M_TOP_PAD, 64 << 20);
    }
    let mut rep = Reporter::new("C15");
    if let Some(path) = &args.replay {
        let w = vcommon::load_replay(path);
        match w["kind"].as_str() {
            Some("reencode") => match w["bytes_hex"].as_str().and_then(unhex) {
                Some(b) => {
                    check_bytes(&mut rep, &b, &w["how"]);
                }
                None => rep.inconclusive("replay: bad bytes_hex", json!({})),
            },
            Some("roundtrip") => match Spec::from_json(&w["spec"]) {
                Some(spec) => roundtrip(&mut rep, &spec, true, w["signed"].as_bool().unwrap_or(false)),
                None => rep.inconclusive("replay: bad spec", json!({})),
            },
            _ => rep.inconclusive("replay: unknown witness kind", json!({})),
        }
        rep.finish();
        return;
    }
    if args.shard == 0 {
        probes(&mut rep);
    }
    let nr = args.budget(400_000, 4_000_000);
    let nm = args.budget(4_000_000, 40_000_000);
    for k in 0..nr {
        roundtrip_case(&mut rep, args.case_seed(k));
    }
    for k in 0..nm {
        mutation_case(&mut rep, args.case_seed(1 << 40 | k));
    }
    rep.finish();
}
