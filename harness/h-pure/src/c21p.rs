//! C21 (crypto-only part, Miri-able): PublicKey and Signature text codecs.
use std::str::FromStr;

use radicle_crypto::{KeyPair, PublicKey, Seed, Signature};
use vcommon::{guarded, json, Args, Reporter, Rng};

pub fn run(args: &Args) {
    let mut rep = Reporter::new("C21");
    let miri = args.mode.as_deref() == Some("miri");
    let n = if miri { args.budget(60, 60) } else { args.budget(20_000, 1_000_000) };
    for k in 0..n {
        let mut rng = Rng::new(args.case_seed(k));
        rep.eval();
        let pk = if miri || rng.bool() {
            // any 32 bytes are a syntactically valid key
            let mut b = [0u8; 32];
            rng.fill(&mut b);
            PublicKey::from(b)
        } else {
            let mut seed = [0u8; 32];
            rng.fill(&mut seed);
            PublicKey::from(KeyPair::from_seed(Seed::new(seed)).pk)
        };
        let s = pk.to_string();
        let r = guarded(|| PublicKey::from_str(&s));
        match r {
            Ok(Ok(p)) if p == pk && s.starts_with("z6Mk") && s == pk.to_human() => rep.count("roundtrip:PublicKey"),
            other => rep.violation("C21/PublicKey/roundtrip", json!({"text": s, "got": format!("{other:?}")})),
        }
        let mut sb = [0u8; 64];
        rng.fill(&mut sb);
        let sig = Signature::from(sb);
        let t = sig.to_string();
        match guarded(|| Signature::from_str(&t)) {
            Ok(Ok(x)) if x == sig && t.starts_with('z') => rep.count("roundtrip:Signature"),
            other => rep.violation("C21/Signature/roundtrip", json!({"text": t, "got": format!("{other:?}")})),
        }
        // arbitrary / mutated text never panics; accepted text prints canonically
        let mut m: Vec<char> = if rng.bool() { s.chars().collect() } else { t.chars().collect() };
        for _ in 0..1 + rng.usize(3) {
            match rng.below(4) {
                0 if !m.is_empty() => { let i = rng.usize(m.len()); m.remove(i); }
                1 => { let i = rng.usize(m.len() + 1); m.insert(i, *rng.pick(&['z', 'f', 'm', 'u', 'b', '0', 'O', 'l', 'I', 'é', '\u{0}', ' ', 'Q'])); }
                2 if !m.is_empty() => { let i = rng.usize(m.len()); m[i] = *rng.pick(&['1', 'z', 'A', 'k', '0']); }
                _ => { m.truncate(rng.usize(m.len() + 1)); }
            }
        }
        let txt: String = m.into_iter().collect();
        let t2 = txt.clone();
        match guarded(move || (PublicKey::from_str(&t2), Signature::from_str(&t2))) {
            Err(p) => rep.violation(&format!("C21/panic/parse/{}", vcommon::panic_site(&p)), json!({"text": txt, "panic": p})),
            Ok((a, b)) => {
                if let Ok(a) = a {
                    rep.count("mutated-text-accepted:PublicKey");
                    if !a.to_string().starts_with("z6Mk") || PublicKey::from_str(&a.to_string()).ok() != Some(a) {
                        rep.violation("C21/PublicKey/print-not-canonical", json!({"text": txt}));
                    }
                }
                if b.is_ok() {
                    rep.count("mutated-text-accepted:Signature");
                }
                rep.nontrivial(vcommon::fnv(txt.as_bytes()));
            }
        }
        if rep.wants_sample() {
            rep.sample(json!({"public_key": s, "signature": t, "mutated_text": txt}));
        }
    }
    rep.finish();
}
