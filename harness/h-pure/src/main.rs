//! Monitors for the crates that never cross FFI (also runnable under Miri):
//! C22 (crdt laws), C23 (dag), C26 (terminal truncation), C27 (ssh agent), C21p (crypto text codecs).
mod c21p;
mod c22;
mod c23;
mod c26;
mod c27;

fn main() {
    vcommon::install_panic_hook();
    let args = vcommon::Args::parse();
    match args.prop.as_str() {
        "C21p" => c21p::run(&args),
        "C22" => c22::run(&args),
        "C23" => c23::run(&args),
        "C26" => c26::run(&args),
        "C27" => c27::run(&args),
        p => {
            eprintln!("h-pure: unknown property {p}");
            std::process::exit(2);
        }
    }
}
