//! C27 — SSH agent client never panics on any agent response; key encodings round-trip.
//!
//! The harness is the agent: a `ClientStream` whose `request` returns whatever bytes the case
//! prescribes. Each client call runs under `catch_unwind`; a panic is the violation.
use std::path::Path;

use radicle_crypto::{KeyPair, PublicKey, SecretKey, Seed, Signature};
use radicle_ssh::agent::client::{AgentClient, ClientStream, Error};
use radicle_ssh::agent::Constraint;
use radicle_ssh::encoding::{Buffer, Encodable, Encoding, Reader};
use vcommon::{guarded, hex, json, Args, Reporter, Rng};

struct Fake {
    resp: Vec<u8>,
    fail: bool,
}

impl ClientStream for Fake {
    fn request(&mut self, _req: &[u8]) -> Result<Buffer, Error> {
        if self.fail {
            return Err(Error::AgentFailure);
        }
        Ok(Buffer::from(self.resp.clone()))
    }
    fn connect<P>(_path: P) -> Result<AgentClient<Self>, Error>
    where
        P: AsRef<Path> + Send,
    {
        Err(Error::AgentFailure)
    }
}

fn keypair(rng: &mut Rng) -> (PublicKey, SecretKey) {
    let mut seed = [0u8; 32];
    rng.fill(&mut seed);
    let kp = KeyPair::from_seed(Seed::new(seed));
    let sk = SecretKey::from(kp.sk);
    (PublicKey::from(sk.public_key()), sk)
}

fn ssh_string(out: &mut Vec<u8>, s: &[u8]) {
    out.extend((s.len() as u32).to_be_bytes());
    out.extend(s);
}

/// A well-formed identities answer with `n` keys.
fn identities_answer(rng: &mut Rng, n: usize) -> Vec<u8> {
    let mut v = vec![12u8];
    v.extend((n as u32).to_be_bytes());
    for _ in 0..n {
        let (pk, _) = keypair(rng);
        let mut blob = vec![];
        ssh_string(&mut blob, b"ssh-ed25519");
        ssh_string(&mut blob, &pk[..]);
        ssh_string(&mut v, &blob);
        ssh_string(&mut v, b"comment");
    }
    v
}

fn sign_response(rng: &mut Rng, siglen: usize, algo: &[u8]) -> Vec<u8> {
    let mut inner = vec![];
    ssh_string(&mut inner, algo);
    ssh_string(&mut inner, &rng.bytes(siglen));
    let mut v = vec![14u8];
    ssh_string(&mut v, &inner);
    v
}

fn mutate(rng: &mut Rng, mut v: Vec<u8>) -> Vec<u8> {
    for _ in 0..rng.usize(4) {
        match rng.below(7) {
            0 if !v.is_empty() => {
                let n = rng.usize(v.len() + 1);
                v.truncate(n);
            }
            1 if !v.is_empty() => {
                let i = rng.usize(v.len());
                v[i] ^= 1 << rng.below(8);
            }
            2 if v.len() >= 5 => {
                // overwrite a 4-byte field with a boundary value
                let i = rng.usize(v.len() - 3);
                let val: u32 = *rng.pick(&[0, 1, 3, 4, 63, 64, 65, 0x7fff_ffff, 0xffff_ffff, v.len() as u32, v.len() as u32 - 1]);
                v[i..i + 4].copy_from_slice(&val.to_be_bytes());
            }
            3 => { let n = rng.usize(9); v.extend(rng.bytes(n)) }
            4 if !v.is_empty() => {
                let i = rng.usize(v.len());
                v.remove(i);
            }
            5 => {
                let i = rng.usize(v.len() + 1);
                v.insert(i, rng.u8());
            }
            _ => {}
        }
    }
    v
}

fn gen_response(rng: &mut Rng) -> (Vec<u8>, &'static str) {
    match rng.below(10) {
        0 => (vec![], "empty"),
        1 => (vec![*rng.pick(&[5u8, 6, 12, 14, 0, 255])], "one-byte"),
        2 => { let n = rng.usize(40); (rng.bytes(n), "random") }
        3 => {
            let n = rng.usize(4);
            (identities_answer(rng, n), "identities-valid")
        }
        4 => {
            let n = rng.usize(4);
            let v = identities_answer(rng, n);
            (mutate(rng, v), "identities-mutated")
        }
        5 => {
            // count larger than the data
            let mut v = identities_answer(rng, 1);
            let c: u32 = *rng.pick(&[2, 100, 0xffff_ffff]);
            v[1..5].copy_from_slice(&c.to_be_bytes());
            (v, "identities-count-too-large")
        }
        6 => (sign_response(rng, 64, b"ssh-ed25519"), "sign-valid"),
        7 => {
            let l = rng.usize(201);
            (sign_response(rng, l, b"ssh-ed25519"), "sign-siglen-arbitrary")
        }
        8 => {
            let l = *rng.pick(&[0usize, 63, 64, 65]);
            let v = sign_response(rng, l, b"ssh-ed25519");
            (mutate(rng, v), "sign-mutated")
        }
        _ => {
            let mut v = vec![*rng.pick(&[5u8, 6, 28])];
            let n = rng.usize(10);
            ssh_string(&mut v, &rng.bytes(n));
            (mutate(rng, v), "status")
        }
    }
}

fn agent_case(rep: &mut Reporter, seed: u64) {
    let mut rng = Rng::new(seed);
    let (resp, shape) = gen_response(&mut rng);
    let (pk, sk) = keypair(&mut rng);
    let n = rng.usize(20);
    let data = rng.bytes(n);
    let call = rng.below(9);
    let name = ["request_identities", "sign", "add_identity", "remove_identity", "remove_all_identities", "lock", "unlock", "query_extension", "add_identity_constrained"][call as usize];
    rep.eval();
    rep.count(&format!("call:{name}"));
    rep.count(&format!("shape:{shape}"));
    let r = resp.clone();
    let out = guarded(move || {
        let mut c = AgentClient::connect(Fake { resp: r, fail: false });
        match call {
            0 => c.request_identities::<PublicKey>().map(|k| format!("{} keys", k.len())).map_err(|e| e.to_string()),
            1 => c.sign(&pk, &data).map(|s| hex(&s[..4])).map_err(|e| e.to_string()),
            2 => c.add_identity(&sk, &[]).map(|_| String::new()).map_err(|e| e.to_string()),
            3 => c.remove_identity(&pk).map(|_| String::new()).map_err(|e| e.to_string()),
            4 => c.remove_all_identities().map(|_| String::new()).map_err(|e| e.to_string()),
            5 => c.lock(&data).map(|_| String::new()).map_err(|e| e.to_string()),
            6 => c.unlock(&data).map(|_| String::new()).map_err(|e| e.to_string()),
            7 => c.query_extension(b"ext@radicle", Buffer::default()).map(|b| b.to_string()).map_err(|e| e.to_string()),
            _ => c
                .add_identity(&sk, &[Constraint::KeyLifetime { seconds: 10 }, Constraint::Confirm, Constraint::Extensions { name: b"n".to_vec(), details: data.clone() }])
                .map(|_| String::new())
                .map_err(|e| e.to_string()),
        }
    });
    match out {
        Err(p) => {
            let sig = format!("C27/panic/{name}/{}", match (call, shape) {
                (0, _) if resp.is_empty() => "empty-response".to_string(),
                (1, _) => "signature-blob-not-64-bytes-or-other".to_string(),
                _ => shape.to_string(),
            });
            // refine the sign signature: was the inner signature string length != 64?
            let sig = if call == 1 { classify_sign_panic(&resp).map(|s| format!("C27/panic/sign/{s}")).unwrap_or(sig) } else { sig };
            rep.violation(&sig, json!({"call": name, "response_hex": hex(&resp), "shape": shape, "panic": p}));
        }
        Ok(res) => {
            if (call == 0 || call == 1) && !matches!(shape, "identities-valid" | "sign-valid") {
                rep.nontrivial(vcommon::fnv(&[&[call as u8][..], &resp].concat()));
            }
            if res.is_ok() {
                rep.count("result:ok");
            } else {
                rep.count("result:err");
            }
            if rep.wants_sample() && call <= 1 && resp.len() > 8 {
                rep.sample(json!({"call": name, "response_hex": hex(&resp), "shape": shape, "result": format!("{res:?}")}));
            }
        }
    }
}

/// Parse a SIGN_RESPONSE the way the protocol defines it and say whether the signature string has
/// a length other than 64 (the shape the client mishandles).
fn classify_sign_panic(resp: &[u8]) -> Option<&'static str> {
    let rd = |b: &[u8], at: usize| -> Option<(usize, usize)> {
        let l = u32::from_be_bytes(b.get(at..at + 4)?.try_into().ok()?) as usize;
        if at + 4 + l <= b.len() { Some((at + 4, l)) } else { None }
    };
    if resp.first() != Some(&14) {
        return None;
    }
    let (o, l) = rd(resp, 1)?;
    let inner = &resp[o..o + l];
    let (o1, l1) = rd(inner, 0)?;
    let (_, l2) = rd(inner, o1 + l1)?;
    if l2 != 64 { Some("signature-string-length-not-64") } else { None }
}

fn roundtrip_case(rep: &mut Reporter, seed: u64) {
    let mut rng = Rng::new(seed);
    let (pk, sk) = keypair(&mut rng);
    rep.eval();
    // PublicKey: written as a key blob (outer string), read back the way the agent protocol does
    let r = guarded(|| {
        let mut buf = Buffer::default();
        pk.write(&mut buf);
        let mut cur = buf.reader(0);
        let blob = cur.read_string().map_err(|e| e.to_string())?;
        let mut c2 = blob.reader(0);
        PublicKey::read(&mut c2).map_err(|e| e.to_string())
    });
    match r {
        Ok(Ok(p)) if p == pk => rep.count("roundtrip:PublicKey"),
        other => rep.violation("C27/roundtrip/PublicKey", json!({"key": pk.to_string(), "got": format!("{other:?}")})),
    }
    // through a full identities answer
    let r = guarded(|| {
        let mut v = vec![12u8];
        v.extend(1u32.to_be_bytes());
        let mut buf = Buffer::default();
        pk.write(&mut buf);
        v.extend_from_slice(&buf);
        ssh_string(&mut v, b"c");
        let mut c = AgentClient::connect(Fake { resp: v, fail: false });
        c.request_identities::<PublicKey>().map_err(|e| e.to_string())
    });
    match r {
        Ok(Ok(ks)) if ks == vec![pk] => rep.count("roundtrip:identities-answer"),
        other => rep.violation("C27/roundtrip/identities-answer", json!({"key": pk.to_string(), "got": format!("{other:?}")})),
    }
    // Signature
    let mut sigb = [0u8; 64];
    rng.fill(&mut sigb);
    let sig = Signature::from(sigb);
    let r = guarded(|| {
        let mut buf = Buffer::default();
        sig.write(&mut buf);
        let mut cur = buf.reader(0);
        Signature::read(&mut cur).map_err(|e| e.to_string())
    });
    match r {
        Ok(Ok(s)) if s == sig => rep.count("roundtrip:Signature"),
        other => rep.violation("C27/roundtrip/Signature", json!({"sig": hex(&sigb), "got": format!("{other:?}")})),
    }
    // Signature through the sign path of the client
    let r = guarded(|| {
        let mut v = vec![14u8];
        let mut buf = Buffer::default();
        sig.write(&mut buf);
        v.extend_from_slice(&buf);
        let mut c = AgentClient::connect(Fake { resp: v, fail: false });
        c.sign(&pk, b"data").map_err(|e| e.to_string())
    });
    match r {
        Ok(Ok(s)) if s == sigb => rep.count("roundtrip:sign-response"),
        other => rep.violation("C27/roundtrip/sign-response", json!({"sig": hex(&sigb), "got": format!("{other:?}")})),
    }
    // SecretKey
    let r = guarded(|| {
        let mut buf = Buffer::default();
        sk.write(&mut buf);
        let mut cur = buf.reader(0);
        SecretKey::read(&mut cur).map_err(|e| e.to_string())
    });
    match r {
        Ok(Ok(s)) if s == sk => rep.count("roundtrip:SecretKey"),
        other => rep.violation("C27/roundtrip/SecretKey", json!({"key": pk.to_string(), "got": format!("{:?}", other.map(|r| r.map(|_| "<secret>")))})),
    }
    // arbitrary bytes into the three readers never panic
    let junk = {
        let mut buf = Buffer::default();
        match rng.below(3) { 0 => pk.write(&mut buf), 1 => sig.write(&mut buf), _ => sk.write(&mut buf) };
        mutate(&mut rng, buf.to_vec())
    };
    let j = junk.clone();
    if let Err(p) = guarded(move || {
        let _ = PublicKey::read(&mut j.reader(0));
        let _ = Signature::read(&mut j.reader(0));
        let _ = SecretKey::read(&mut j.reader(0));
        let _ = PublicKey::read(&mut j.reader(4.min(j.len())));
    }) {
        rep.violation(&format!("C27/panic/Encodable::read/{}", vcommon::panic_site(&p)), json!({"bytes_hex": hex(&junk), "panic": p}));
    }
    rep.nontrivial(vcommon::fnv(&junk));
    // encoding helpers on arbitrary input
    let n = 1 + rng.usize(8);
    let s = rng.bytes(n);
    let s2 = s.clone();
    if let Err(p) = guarded(move || {
        let mut v: Vec<u8> = vec![];
        v.extend_ssh_string(&s2);
        v.extend_u32(7);
        v.extend_list([&s2[..], &s2[..]].into_iter());
        v.write_empty_list();
        let mut b = vec![0u8; 4];
        b.extend_ssh_string(&s2);
        b.write_len();
        let mut c = b.reader(0);
        let _ = c.read_u32();
        let _ = c.read_string();
        let _ = c.read_byte();
        let _ = c.read_mpint();
    }) {
        rep.violation(&format!("C27/panic/encoding/{}", vcommon::panic_site(&p)), json!({"bytes_hex": hex(&s), "panic": p}));
    }
}

pub fn run(args: &Args) {
    let mut rep = Reporter::new("C27");
    if let Some(path) = &args.replay {
        let w = vcommon::load_replay(path);
        if let (Some(h), Some(call)) = (w["response_hex"].as_str(), w["call"].as_str()) {
            let resp = vcommon::unhex(h).unwrap();
            let mut rng = Rng::new(1);
            let (pk, _) = keypair(&mut rng);
            rep.eval();
            let r = guarded(move || {
                let mut c = AgentClient::connect(Fake { resp, fail: false });
                match call {
                    "sign" => c.sign(&pk, b"x").map(|_| ()).map_err(|e| e.to_string()),
                    _ => c.request_identities::<PublicKey>().map(|_| ()).map_err(|e| e.to_string()),
                }
            });
            if let Err(p) = r {
                rep.violation("C27/panic/replay", json!({"panic": p}));
            }
        }
        rep.finish();
        return;
    }
    let miri = args.mode.as_deref() == Some("miri");
    let (na, nr) = if miri { (args.budget(300, 300), args.budget(6, 6)) } else { (args.budget(200_000, 10_000_000), args.budget(4_000, 200_000)) };
    for k in 0..na {
        agent_case(&mut rep, args.case_seed(k));
    }
    for k in 0..nr {
        roundtrip_case(&mut rep, args.case_seed(1 << 40 | k));
    }
    rep.finish();
}
