//! C22 — CRDT merges are associative, commutative and idempotent; LWW exposes greatest clock,
//! insertion beats removal at equal clocks.
//!
//! For every CRDT type a *domain* of values is built by applying every operation sequence of
//! length <= L over small key/clock/value alphabets to the default/initial value (deduplicated by
//! `PartialEq`); all triples of the domain are then checked against the three laws. LWW structures
//! are additionally compared with a reference model evaluated over the raw operation log,
//! including arbitrary splits of the log over replicas that are merged afterwards.
use radicle_crdt::{GMap, GSet, LWWMap, LWWReg, LWWSet, Max, Min, Redactable, Semilattice};
use vcommon::{json, Args, Reporter, Rng, Value};

fn dedup<T: PartialEq>(v: Vec<T>) -> Vec<T> {
    let mut out: Vec<T> = vec![];
    for x in v {
        if !out.contains(&x) {
            out.push(x);
        }
    }
    out
}

/// Check the three laws on all triples (or a sampled/strided subset) of `dom`.
fn laws<T: Semilattice + Clone + PartialEq + std::fmt::Debug>(
    rep: &mut Reporter,
    name: &str,
    dom: &[T],
    args: &Args,
    budget: u64,
) {
    let n = dom.len() as u64;
    let total = n * n * n;
    rep.add(&format!("domain:{name}"), n);
    let exhaustive = total <= budget;
    let mut check = |rep: &mut Reporter, i: usize, j: usize, k: usize| {
        let (a, b, c) = (&dom[i], &dom[j], &dom[k]);
        rep.eval();
        let ab = a.clone().join(b.clone());
        let ba = b.clone().join(a.clone());
        if ab != ba {
            rep.violation(
                &format!("C22/{name}/not-commutative"),
                json!({"a": format!("{a:?}"), "b": format!("{b:?}"), "ab": format!("{ab:?}"), "ba": format!("{ba:?}")}),
            );
        }
        let ab_c = ab.clone().join(c.clone());
        let a_bc = a.clone().join(b.clone().join(c.clone()));
        if ab_c != a_bc {
            rep.violation(
                &format!("C22/{name}/not-associative"),
                json!({"a": format!("{a:?}"), "b": format!("{b:?}"), "c": format!("{c:?}"), "(ab)c": format!("{ab_c:?}"), "a(bc)": format!("{a_bc:?}")}),
            );
        }
        let aa = a.clone().join(a.clone());
        if &aa != a {
            rep.violation(
                &format!("C22/{name}/not-idempotent"),
                json!({"a": format!("{a:?}"), "aa": format!("{aa:?}")}),
            );
        }
        // absorption, implied by the three laws: (a ∨ b) ∨ a = a ∨ b
        let aba = ab.clone().join(a.clone());
        if aba != ab {
            rep.violation(
                &format!("C22/{name}/not-absorbing"),
                json!({"a": format!("{a:?}"), "b": format!("{b:?}")}),
            );
        }
        if a != b && b != c && a != c {
            rep.nontrivial(vcommon::fnv(format!("{name}{i},{j},{k}").as_bytes()));
        }
    };
    if exhaustive {
        rep.count(&format!("exhaustive:{name}"));
        let mut idx = 0u64;
        for i in 0..dom.len() {
            for j in 0..dom.len() {
                for k in 0..dom.len() {
                    idx += 1;
                    if idx % args.shards != args.shard {
                        continue;
                    }
                    check(rep, i, j, k);
                }
            }
        }
    } else {
        let mut rng = Rng::new(vcommon::mix(args.seed, name, args.shard));
        for _ in 0..budget / args.shards {
            let (i, j, k) = (rng.usize(dom.len()), rng.usize(dom.len()), rng.usize(dom.len()));
            check(rep, i, j, k);
        }
    }
    if rep.wants_sample() && dom.len() > 3 {
        let s = json!({"type": name, "domain_size": n, "exhaustive_triples": exhaustive,
            "example_values": dom.iter().take(4).map(|d| format!("{d:?}")).collect::<Vec<_>>()});
        rep.sample(s);
    }
}

/// All values reachable from `init` by <= depth applications of the op alphabet.
fn closure<T: Clone + PartialEq>(init: Vec<T>, depth: usize, ops: &dyn Fn(&T) -> Vec<T>) -> Vec<T> {
    let mut all = dedup(init);
    let mut frontier = all.clone();
    for _ in 0..depth {
        let mut next = vec![];
        for v in &frontier {
            for w in ops(v) {
                if !all.contains(&w) && !next.contains(&w) {
                    next.push(w);
                }
            }
        }
        all.extend(next.iter().cloned());
        frontier = next;
        if frontier.is_empty() {
            break;
        }
    }
    all
}

type Reg = LWWReg<Max<u8>, u64>;
type RegOpt = LWWReg<Option<Max<u8>>, u64>;

fn domains(rep: &mut Reporter, args: &Args, keys: u8, clocks: u64, vals: u8, depth: usize, budget: u64) {
    // bool, Option<Max>, Max, Min
    laws(rep, "bool", &[false, true], args, budget);
    let maxes: Vec<Max<u8>> = (0..=vals).map(Max::from).collect();
    laws(rep, "Max<u8>", &maxes, args, budget);
    let mins: Vec<Min<u8>> = (0..=vals).map(Min::from).collect();
    laws(rep, "Min<u8>", &mins, args, budget);
    let mut opts: Vec<Option<Max<u8>>> = vec![None];
    opts.extend(maxes.iter().cloned().map(Some));
    laws(rep, "Option<Max<u8>>", &opts, args, budget);
    let mut red: Vec<Redactable<u8>> = vec![Redactable::Redacted];
    red.extend((0..=vals).map(Redactable::Present));
    laws(rep, "Redactable<u8>", &red, args, budget);
    let mut ored: Vec<Option<Redactable<u8>>> = vec![None];
    ored.extend(red.iter().cloned().map(Some));
    laws(rep, "Option<Redactable<u8>>", &ored, args, budget);

    // GSet
    let gsets = closure(vec![GSet::<u8>::default()], depth.max(keys as usize + 1), &|s: &GSet<u8>| {
        (0..=keys)
            .map(|k| {
                let mut t = s.clone();
                t.insert(k);
                t
            })
            .collect()
    });
    laws(rep, "GSet<u8>", &gsets, args, budget);

    // LWWReg<Max<u8>, u64>
    let mut regs: Vec<Reg> = vec![];
    for c in 0..=clocks {
        for v in 0..=vals {
            regs.push(LWWReg::new(Max::from(v), c));
        }
    }
    let regs = closure(regs, depth, &|r: &Reg| {
        let mut out = vec![];
        for c in 0..=clocks {
            for v in 0..=vals {
                let mut t = r.clone();
                t.set(Max::from(v), c);
                out.push(t);
            }
        }
        out
    });
    laws(rep, "LWWReg<Max<u8>>", &regs, args, budget);

    // LWWReg<Option<Max<u8>>, u64>
    let mut ropts: Vec<RegOpt> = vec![];
    for c in 0..=clocks {
        for v in &opts {
            ropts.push(LWWReg::new(*v, c));
        }
    }
    laws(rep, "LWWReg<Option<Max<u8>>>", &ropts, args, budget);
    // LWWReg<Redactable<u8>>
    let mut rred: Vec<LWWReg<Redactable<u8>, u64>> = vec![];
    for c in 0..=clocks {
        for v in &red {
            rred.push(LWWReg::new(*v, c));
        }
    }
    laws(rep, "LWWReg<Redactable<u8>>", &rred, args, budget);
    // LWWReg<Min<u8>>
    let mut rmin: Vec<LWWReg<Min<u8>, u64>> = vec![];
    for c in 0..=clocks {
        for v in &mins {
            rmin.push(LWWReg::new(*v, c));
        }
    }
    laws(rep, "LWWReg<Min<u8>>", &rmin, args, budget);

    // GMap<u8, Max<u8>>
    let gmaps = closure(vec![GMap::<u8, Max<u8>>::default()], depth, &|m: &GMap<u8, Max<u8>>| {
        let mut out = vec![];
        for k in 0..=keys {
            for v in 0..=vals {
                let mut t = m.clone();
                t.insert(k, Max::from(v));
                out.push(t);
            }
        }
        out
    });
    laws(rep, "GMap<u8,Max<u8>>", &gmaps, args, budget);

    // GMap<u8, LWWReg<Max<u8>>>
    let small_regs: Vec<Reg> = regs.iter().take(8).cloned().collect();
    let gmr = closure(vec![GMap::<u8, Reg>::default()], depth.min(2), &|m: &GMap<u8, Reg>| {
        let mut out = vec![];
        for k in 0..=keys.min(1) {
            for r in &small_regs {
                let mut t = m.clone();
                t.insert(k, r.clone());
                out.push(t);
            }
        }
        out
    });
    laws(rep, "GMap<u8,LWWReg<Max<u8>>>", &gmr, args, budget);

    // LWWMap<u8, Max<u8>, u64>
    let lmaps = closure(vec![LWWMap::<u8, Max<u8>, u64>::default()], depth, &|m: &LWWMap<u8, Max<u8>, u64>| {
        let mut out = vec![];
        for k in 0..=keys {
            for c in 0..=clocks {
                for v in 0..=vals.min(1) {
                    let mut t = m.clone();
                    t.insert(k, Max::from(v), c);
                    out.push(t);
                }
                let mut t = m.clone();
                t.remove(k, c);
                out.push(t);
            }
        }
        out
    });
    laws(rep, "LWWMap<u8,Max<u8>>", &lmaps, args, budget);

    // LWWSet<u8, u64>
    let lsets = closure(vec![LWWSet::<u8, u64>::default()], depth + 1, &|s: &LWWSet<u8, u64>| {
        let mut out = vec![];
        for k in 0..=keys {
            for c in 0..=clocks {
                let mut t = s.clone();
                t.insert(k, c);
                out.push(t);
                let mut t = s.clone();
                t.remove(k, c);
                out.push(t);
            }
        }
        out
    });
    laws(rep, "LWWSet<u8>", &lsets, args, budget);
}

// -------- LWW reference model over op logs ------------------------------------------------------

#[derive(Clone, Debug)]
enum MapOp {
    Insert(u8, u8, u64),
    Remove(u8, u64),
}

fn model_map(ops: &[MapOp], key: u8) -> Option<Option<u8>> {
    // greatest clock wins; at equal clocks insertion beats removal, inserted values merge by max
    let mut best: Option<(u64, Option<u8>)> = None;
    for op in ops {
        let (k, v, c) = match op {
            MapOp::Insert(k, v, c) => (*k, Some(*v), *c),
            MapOp::Remove(k, c) => (*k, None, *c),
        };
        if k != key {
            continue;
        }
        best = match best {
            None => Some((c, v)),
            Some((bc, _)) if c > bc => Some((c, v)),
            Some((bc, bv)) if c == bc => Some((bc, match (bv, v) {
                (Some(x), Some(y)) => Some(x.max(y)),
                (Some(x), None) | (None, Some(x)) => Some(x),
                (None, None) => None,
            })),
            keep => keep,
        };
    }
    best.map(|(_, v)| v)
}

fn lww_model(rep: &mut Reporter, args: &Args, cases: u64, miri: bool) {
    for k in 0..cases {
        let mut rng = Rng::new(args.case_seed(k));
        let nops = 1 + rng.usize(if miri { 6 } else { 12 });
        let keys = 1 + rng.below(3) as u8;
        let clocks = 1 + rng.below(4);
        let ops: Vec<MapOp> = (0..nops)
            .map(|_| {
                if rng.chance(3, 5) {
                    MapOp::Insert(rng.below(keys as u64) as u8, rng.below(3) as u8, rng.below(clocks))
                } else {
                    MapOp::Remove(rng.below(keys as u64) as u8, rng.below(clocks))
                }
            })
            .collect();
        // split over 1..3 replicas, each applies its ops in a shuffled order, then merge in random order
        let nrep = 1 + rng.usize(3);
        let mut maps: Vec<LWWMap<u8, Max<u8>, u64>> = vec![LWWMap::default(); nrep];
        let mut sets: Vec<LWWSet<u8, u64>> = vec![LWWSet::default(); nrep];
        let mut order: Vec<usize> = (0..nops).collect();
        rng.shuffle(&mut order);
        for i in order {
            // an op may be delivered to several replicas
            let r0 = rng.usize(nrep);
            let also = if rng.chance(1, 4) { Some(rng.usize(nrep)) } else { None };
            for r in std::iter::once(r0).chain(also) {
                match &ops[i] {
                    MapOp::Insert(k, v, c) => {
                        maps[r].insert(*k, Max::from(*v), *c);
                        sets[r].insert(*k, *c);
                    }
                    MapOp::Remove(k, c) => {
                        maps[r].remove(*k, *c);
                        sets[r].remove(*k, *c);
                    }
                }
            }
        }
        let mut idx: Vec<usize> = (0..nrep).collect();
        rng.shuffle(&mut idx);
        let mut m = LWWMap::<u8, Max<u8>, u64>::default();
        let mut s = LWWSet::<u8, u64>::default();
        for i in idx {
            m.merge(maps[i].clone());
            s.merge(sets[i].clone());
        }
        rep.eval();
        let mut tie = false;
        for key in 0..keys {
            let want = model_map(&ops, key).flatten();
            let got = m.get(&key).map(|v| *v.get());
            if got != want {
                rep.violation("C22/LWWMap/model-mismatch", json!({"ops": format!("{ops:?}"), "key": key, "got": got, "want": want}));
            }
            if m.contains_key(&key) != want.is_some() {
                rep.violation("C22/LWWMap/contains-key-mismatch", json!({"ops": format!("{ops:?}"), "key": key}));
            }
            if s.contains(&key) != want.is_some() {
                rep.violation("C22/LWWSet/model-mismatch", json!({"ops": format!("{ops:?}"), "key": key, "got": s.contains(&key), "want": want.is_some()}));
            }
            // was there an insert/remove tie at the top clock?
            let top = ops.iter().filter_map(|o| match o { MapOp::Insert(k, _, c) | MapOp::Remove(k, c) if *k == key => Some(*c), _ => None }).max();
            if let Some(top) = top {
                let ins = ops.iter().any(|o| matches!(o, MapOp::Insert(k, _, c) if *k == key && *c == top));
                let rem = ops.iter().any(|o| matches!(o, MapOp::Remove(k, c) if *k == key && *c == top));
                if ins && rem {
                    tie = true;
                }
            }
        }
        let want_len = (0..keys).filter(|k| model_map(&ops, *k).flatten().is_some()).count();
        if m.len() != want_len || m.is_empty() != (want_len == 0) || s.iter().count() != want_len || s.is_empty() != (want_len == 0) {
            rep.violation("C22/LWW/len-or-iter-mismatch", json!({"ops": format!("{ops:?}")}));
        }
        if tie {
            rep.count("lww.insert-remove-tie-at-top-clock");
        }
        rep.count("lww.model-cases");
        if nops >= 3 {
            rep.nontrivial(vcommon::fnv(format!("{ops:?}").as_bytes()));
        }
        if rep.wants_sample() && tie {
            let sv: Value = json!({"lww_ops": format!("{ops:?}"), "replicas": nrep});
            rep.sample(sv);
        }
        // LWWReg model: greatest clock wins, values merge (max) on ties
        let sets_: Vec<(u8, u64)> = (0..1 + rng.usize(6)).map(|_| (rng.below(4) as u8, rng.below(clocks))).collect();
        let mut reg: LWWReg<Max<u8>, u64> = LWWReg::new(Max::from(sets_[0].0), sets_[0].1);
        let mut perm: Vec<usize> = (1..sets_.len()).collect();
        rng.shuffle(&mut perm);
        for i in perm {
            if rng.bool() {
                reg.set(Max::from(sets_[i].0), sets_[i].1);
            } else {
                reg.merge(LWWReg::new(Max::from(sets_[i].0), sets_[i].1));
            }
        }
        let topc = sets_.iter().map(|s| s.1).max().unwrap();
        let topv = sets_.iter().filter(|s| s.1 == topc).map(|s| s.0).max().unwrap();
        if *reg.get().get() != topv || *reg.clock().get() != topc {
            rep.violation("C22/LWWReg/model-mismatch", json!({"sets": sets_, "got": [*reg.get().get() as u64, *reg.clock().get()], "want": [topv as u64, topc]}));
        }
    }
}

pub fn run(args: &Args) {
    let mut rep = Reporter::new("C22");
    let miri = args.mode.as_deref() == Some("miri");
    if miri {
        domains(&mut rep, args, 1, 1, 1, 2, 3_000);
        lww_model(&mut rep, args, args.budget(40, 40), true);
    } else if args.thorough {
        domains(&mut rep, args, 2, 2, 2, 3, 40_000_000);
        lww_model(&mut rep, args, args.budget(0, 3_000_000), false);
    } else {
        domains(&mut rep, args, 1, 2, 2, 3, 1_500_000);
        lww_model(&mut rep, args, args.budget(200_000, 0), false);
    }
    rep.finish();
}
