//! C26 — Terminal truncation stays within width, terminates and never panics.
//!
//! A worker thread runs the cases and publishes (case index, its thread-CPU clock at case start);
//! the main thread watches. Non-termination is decided on the *worker's CPU time* spent inside one
//! case (> 5 s for an input of <= 64 chars); a wall-clock stall without CPU progress is
//! `inconclusive`, never a violation.
use std::sync::atomic::{AtomicBool, AtomicU64, Ordering::SeqCst};
use std::sync::Arc;

use radicle_term::cell::Cell;
use radicle_term::{Label, Line};
use vcommon::{guarded, json, Args, Reporter, Rng, Value};

const ALPHABET: &[&str] = &[
    "a", "b", "Z", "0", " ", " ", "\t", "-", ".", "…",
    "\u{00A0}", // NBSP (2 bytes, whitespace, width 1)
    "\u{3000}", // ideographic space (3 bytes, whitespace, width 2)
    "\u{2003}", // em space
    "\u{2028}", // line separator (whitespace)
    "\u{0085}", // NEL (whitespace, control)
    "日", "本", "語", "한", // wide
    "\u{200B}", // zero width space (not White_Space)
    "\u{200D}", // ZWJ
    "\u{0301}", // combining acute
    "\u{FE0F}", // variation selector
    "é", "ñ", "ß",
    "🍍", "❤️", "👨‍👩‍👧", "🇯🇵", "🪵",
    "\u{1160}", // hangul jungseong filler (width 0)
    "\u{0007}", // BEL control
    "\x1b", // ESC
];

const DELIMS: &[&str] = &["", "…", "..", "...", "日", " ", "\u{3000}", "🍎", "\u{0301}", "->"];

fn gen_string(rng: &mut Rng, max_items: usize) -> String {
    let n = rng.usize(max_items + 1);
    let mut s = String::new();
    // bias: trailing whitespace is the interesting region
    let ws_tail = rng.chance(1, 3);
    for _ in 0..n {
        s.push_str(*rng.pick(ALPHABET));
    }
    if ws_tail {
        for _ in 0..1 + rng.usize(3) {
            let ws: &[&str] = &[" ", "\u{00A0}", "\u{3000}", "\u{2003}", "\t", "\u{2028}"];
            s.push_str(*rng.pick(ws));
        }
    }
    s
}

#[derive(Clone, Debug)]
struct Case {
    kind: u8, // 0 str, 1 String, 2 Label, 3 Line
    items: Vec<String>,
    width: usize,
    delim: String,
}

impl Case {
    fn json(&self) -> Value {
        json!({"kind": (["str", "String", "Label", "Line"][self.kind as usize]), "items": self.items, "width": self.width, "delim": self.delim})
    }
    fn from_json(v: &Value) -> Case {
        let kind = match v["kind"].as_str().unwrap() {
            "str" => 0,
            "String" => 1,
            "Label" => 2,
            _ => 3,
        };
        Case {
            kind,
            items: v["items"].as_array().unwrap().iter().map(|s| s.as_str().unwrap().to_string()).collect(),
            width: v["width"].as_u64().unwrap() as usize,
            delim: v["delim"].as_str().unwrap().to_string(),
        }
    }
}

fn gen_case(seed: u64, small: bool) -> Case {
    let mut rng = Rng::new(seed);
    let kind = rng.below(4) as u8;
    let nitems = if kind == 3 { 1 + rng.usize(4) } else { 1 };
    let max = if small { 6 } else { 16 };
    let items: Vec<String> = (0..nitems).map(|_| gen_string(&mut rng, max)).collect();
    let total: usize = items.iter().map(|s| Cell::width(s.as_str())).sum();
    let width = rng.usize(total + 3);
    let delim = if rng.chance(1, 12) { gen_string(&mut rng, 2) } else { rng.pick(DELIMS).to_string() };
    Case { kind, items, width, delim }
}

/// Run the real truncation; returns (output text, output width) or panic message.
fn execute(c: &Case) -> Result<(String, usize), String> {
    guarded(|| match c.kind {
        0 => {
            let out = c.items[0].as_str().truncate(c.width, &c.delim);
            let w = Cell::width(out.as_str());
            (out, w)
        }
        1 => {
            let out = Cell::truncate(&c.items[0], c.width, &c.delim);
            let w = Cell::width(&out);
            (out, w)
        }
        2 => {
            let l = Label::new(&c.items[0]);
            let out = Cell::truncate(&l, c.width, &c.delim);
            let w = Cell::width(&out);
            (out.content().to_string(), w)
        }
        _ => {
            let mut line = Line::blank();
            for i in &c.items {
                line.push(Label::new(i));
            }
            Line::truncate(&mut line, c.width, &c.delim);
            let w = Line::width(&line);
            (line.to_string(), w)
        }
    })
}

fn judge(rep: &mut Reporter, c: &Case) {
    rep.eval();
    let input_w: usize = c.items.iter().map(|s| Cell::width(s.as_str())).sum();
    match execute(c) {
        Err(p) => {
            let sig = format!("C26/panic/{}", vcommon::panic_site(&p));
            rep.violation(&sig, json!({"case": c.json(), "panic": p}));
        }
        Ok((out, w)) => {
            // independent width measurement of the produced text (Line renders labels with
            // style escapes; only measure for the plain kinds)
            if w > c.width {
                let ws_tail = c.kind != 3 && {
                    // classify: did truncation end inside trailing whitespace?
                    out.chars().last().map(|ch| ch.is_whitespace()).unwrap_or(false)
                };
                let sig = if ws_tail { "C26/too-wide/whitespace-tail" } else { "C26/too-wide" };
                rep.violation(sig, json!({"case": c.json(), "output": out, "output_width": w}));
            }
            if c.kind != 3 {
                let w2: usize = Cell::width(out.as_str());
                if c.kind != 2 && w2 != w {
                    rep.violation("C26/width-inconsistent", json!({"case": c.json(), "output": out}));
                }
            }
            if input_w > c.width {
                rep.count("truncation-needed");
                rep.nontrivial(vcommon::fnv(format!("{:?}", c).as_bytes()));
                let rest_ws = c.items.last().map(|s| s.ends_with(|ch: char| ch.is_whitespace())).unwrap_or(false);
                if rest_ws {
                    rep.count("truncation-needed.input-ends-in-whitespace");
                }
                if c.delim.is_empty() {
                    rep.count("truncation-needed.empty-delimiter");
                }
                if rep.wants_sample() && c.kind == 3 {
                    rep.sample(json!({"case": c.json(), "output": out, "output_width": w}));
                }
            }
        }
    }
}

pub fn run(args: &Args) {
    let mut rep = Reporter::new("C26");
    if let Some(path) = &args.replay {
        let w = vcommon::load_replay(path);
        let c = Case::from_json(&w["case"]);
        // replay under the same watchdog
        watch(&mut rep, vec![c]);
        rep.finish();
        return;
    }
    let miri = args.mode.as_deref() == Some("miri");
    let n = if miri { args.budget(150, 150) } else { args.budget(150_000, 8_000_000) };
    if miri {
        // no threads needed under miri; cases are tiny
        for k in 0..n {
            let c = gen_case(args.case_seed(k), true);
            if c.kind == 3 {
                continue; // potential non-termination is judged natively under the watchdog
            }
            judge(&mut rep, &c);
        }
        rep.finish();
        return;
    }
    let a = args.clone();
    let cases = (0..n).map(move |k| gen_case(a.case_seed(k), false));
    watch(&mut rep, cases);
    rep.finish();
}

/// Run cases on a worker thread under the CPU-time watchdog.
fn watch(rep: &mut Reporter, cases: impl IntoIterator<Item = Case> + Send + 'static) {
    let cur = Arc::new(AtomicU64::new(u64::MAX));
    let cur_start = Arc::new(AtomicU64::new(0));
    let done = Arc::new(AtomicBool::new(false));
    let current_case: Arc<std::sync::Mutex<Option<Case>>> = Arc::new(std::sync::Mutex::new(None));
    let (tx, rx) = std::sync::mpsc::channel::<Reporter>();
    let (cid_tx, cid_rx) = std::sync::mpsc::channel::<vcommon::libc::clockid_t>();
    let (c1, s1, d1, cc1) = (cur.clone(), cur_start.clone(), done.clone(), current_case.clone());
    let prop = rep.prop.clone();
    std::thread::spawn(move || {
        let mut cid: vcommon::libc::clockid_t = 0;
        // SAFETY: querying this thread's own CPU clock id.
        unsafe { vcommon::libc::pthread_getcpuclockid(vcommon::libc::pthread_self(), &mut cid) };
        cid_tx.send(cid).ok();
        let mut local = Reporter::new(&prop);
        for (i, c) in cases.into_iter().enumerate() {
            if c.kind == 3 {
                // only Line::truncate loops; publish the case for the watchdog
                *cc1.lock().unwrap() = Some(c.clone());
                s1.store(vcommon::thread_cpu_ns(), SeqCst);
                c1.store(i as u64, SeqCst);
            }
            judge(&mut local, &c);
            if c.kind == 3 {
                c1.store(u64::MAX, SeqCst);
            }
        }
        d1.store(true, SeqCst);
        tx.send(local).ok();
    });
    let cid = cid_rx.recv().expect("worker clock id");
    let worker_cpu = || {
        let mut ts = vcommon::libc::timespec { tv_sec: 0, tv_nsec: 0 };
        // SAFETY: reading another thread's CPU clock through its clock id.
        unsafe { vcommon::libc::clock_gettime(cid, &mut ts) };
        ts.tv_sec as u64 * 1_000_000_000 + ts.tv_nsec as u64
    };
    let mut stalled_since: Option<(u64, std::time::Instant)> = None;
    loop {
        match rx.recv_timeout(std::time::Duration::from_millis(200)) {
            Ok(local) => {
                merge_into(rep, local);
                return;
            }
            Err(std::sync::mpsc::RecvTimeoutError::Disconnected) => {
                rep.inconclusive("worker thread died", json!({}));
                return;
            }
            Err(_) => {}
        }
        let i = cur.load(SeqCst);
        if i == u64::MAX {
            stalled_since = None;
            continue;
        }
        let spent = worker_cpu().saturating_sub(cur_start.load(SeqCst));
        if cur.load(SeqCst) != i {
            continue;
        }
        if spent > 5_000_000_000 {
            let c = current_case.lock().unwrap().clone();
            rep.eval();
            rep.violation(
                "C26/non-termination/Line::truncate",
                json!({"case": c.map(|c| c.json()), "cpu_s_in_case": spent as f64 / 1e9}),
            );
            // the worker cannot be stopped; report what we have and leave
            rep.count("aborted-after-non-termination");
            return;
        }
        match stalled_since {
            Some((j, t)) if j == i => {
                if t.elapsed().as_secs() > 120 {
                    rep.inconclusive("case exceeded 120 s wall without 5 s CPU", json!({"index": i}));
                    return;
                }
            }
            _ => stalled_since = Some((i, std::time::Instant::now())),
        }
    }
}

fn merge_into(rep: &mut Reporter, local: Reporter) {
    rep.absorb(local);
}
