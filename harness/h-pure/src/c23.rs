//! C23 — DAG traversals respect dependencies and pruning removes exactly descendants.
//!
//! Oracle: own transitive closure over the generated edge list (bitmask arithmetic, independent
//! of `radicle_dag`). Every generated graph is checked for: `sorted_by` (3 comparators), `fold`
//! (all / random break-sets, full roots and root subsets), `prune_by` (break-sets, final graph
//! structure, tips/roots, siblings argument), `merge` (union of nodes and edges).
use std::cmp::Ordering;
use std::collections::{BTreeMap, BTreeSet};
use std::ops::ControlFlow;

use radicle_dag::Dag;
use vcommon::{json, Args, Reporter, Rng, Value};

/// A generated graph over labels `0..n`: `deps[k]` = bitmask of the labels `k` depends on.
#[derive(Clone, Debug)]
struct G {
    n: usize,
    deps: Vec<u32>,
}

impl G {
    fn edges(&self) -> Vec<(u8, u8)> {
        let mut e = vec![];
        for k in 0..self.n {
            for d in 0..self.n {
                if self.deps[k] >> d & 1 == 1 {
                    e.push((k as u8, d as u8));
                }
            }
        }
        e
    }
    /// Strict ancestors (transitive dependencies) of every node.
    fn ancestors(&self) -> Vec<u32> {
        let mut anc = self.deps.clone();
        loop {
            let mut changed = false;
            for k in 0..self.n {
                let mut a = anc[k];
                for d in 0..self.n {
                    if anc[k] >> d & 1 == 1 {
                        a |= anc[d];
                    }
                }
                if a != anc[k] {
                    anc[k] = a;
                    changed = true;
                }
            }
            if !changed {
                return anc;
            }
        }
    }
    fn descendants(&self) -> Vec<u32> {
        let anc = self.ancestors();
        let mut desc = vec![0u32; self.n];
        for k in 0..self.n {
            for a in 0..self.n {
                if anc[k] >> a & 1 == 1 {
                    desc[a] |= 1 << k;
                }
            }
        }
        desc
    }
    fn json(&self) -> Value {
        json!({"n": self.n, "edges(from depends-on to)": self.edges()})
    }
    fn hash(&self) -> u64 {
        let mut b = vec![self.n as u8];
        for d in &self.deps {
            b.extend(d.to_le_bytes());
        }
        vcommon::fnv(&b)
    }
}

fn build(g: &G, rng: &mut Rng) -> Dag<u8, u8> {
    let mut dag = Dag::new();
    let mut nodes: Vec<u8> = (0..g.n as u8).collect();
    let mut edges = g.edges();
    rng.shuffle(&mut nodes);
    rng.shuffle(&mut edges);
    for k in &nodes {
        dag.node(*k, *k);
    }
    for (f, t) in edges {
        dag.dependency(f, t);
    }
    dag
}

/// Graph from a position-DAG (edges j -> i for i < j chosen by `mask`) relabelled by `perm`.
fn from_mask(n: usize, mask: u32, perm: &[u8]) -> G {
    let mut deps = vec![0u32; n];
    let mut bit = 0;
    for j in 0..n {
        for i in 0..j {
            if mask >> bit & 1 == 1 {
                deps[perm[j] as usize] |= 1 << perm[i];
            }
            bit += 1;
        }
    }
    G { n, deps }
}

fn permutations(n: usize) -> Vec<Vec<u8>> {
    fn go(cur: &mut Vec<u8>, used: u32, n: usize, out: &mut Vec<Vec<u8>>) {
        if cur.len() == n {
            out.push(cur.clone());
            return;
        }
        for k in 0..n {
            if used >> k & 1 == 0 {
                cur.push(k as u8);
                go(cur, used | 1 << k, n, out);
                cur.pop();
            }
        }
    }
    let mut out = vec![];
    go(&mut vec![], 0, n, &mut out);
    out
}

fn random_graph(rng: &mut Rng, max_n: usize) -> G {
    let n = 1 + rng.usize(max_n);
    let mut perm: Vec<u8> = (0..n as u8).collect();
    rng.shuffle(&mut perm);
    let density = 1 + rng.below(6); // edge probability density/8
    let mut deps = vec![0u32; n];
    for j in 0..n {
        for i in 0..j {
            if rng.below(8) < density {
                deps[perm[j] as usize] |= 1 << perm[i];
            }
        }
    }
    G { n, deps }
}

struct Ctx<'a> {
    rep: &'a mut Reporter,
}

impl Ctx<'_> {
    fn viol(&mut self, sig: &str, g: &G, detail: Value) {
        self.rep
            .violation(sig, json!({"graph": g.json(), "detail": detail}));
    }
}

fn check_sorted(ctx: &mut Ctx, g: &G, dag: &Dag<u8, u8>, rank: &[u8]) {
    let anc = g.ancestors();
    for which in 0..3 {
        let order: Vec<u8> = match which {
            0 => dag.sorted().into_iter().collect(),
            1 => dag.sorted_by(|a, b| b.cmp(a)).into_iter().collect(),
            _ => dag
                .sorted_by(|a, b| rank[*a as usize].cmp(&rank[*b as usize]))
                .into_iter()
                .collect(),
        };
        ctx.rep.count("sorted_by.calls");
        let mut seen = 0u32;
        let mut ok = order.len() == g.n;
        for k in &order {
            if seen >> k & 1 == 1 {
                ok = false; // duplicate
            }
            if anc[*k as usize] & !seen != 0 {
                ok = false; // a dependency comes later
            }
            seen |= 1 << k;
        }
        if seen.count_ones() as usize != g.n {
            ok = false;
        }
        if !ok {
            ctx.viol(
                "C23/sorted/not-a-dependency-respecting-permutation",
                g,
                json!({"comparator": which, "order": order}),
            );
        }
    }
}

/// Expected visited set when traversal starts at `roots` and Break at `brk` skips dependents.
fn expected_visit(g: &G, reach: u32, brk: u32) -> u32 {
    // n is skipped iff some strict ancestor a (within reach) is visited and in brk.
    // Resolve in dependency order.
    let anc = g.ancestors();
    let mut order: Vec<usize> = (0..g.n).collect();
    order.sort_by_key(|k| anc[*k].count_ones());
    let mut visited = 0u32;
    for k in order {
        if reach >> k & 1 == 0 {
            continue;
        }
        let blockers = anc[k] & visited & brk;
        // an ancestor outside `reach` is never visited, hence never blocks
        if blockers == 0 {
            // but k must not descend from a *skipped* node either: skipped nodes are exactly the
            // descendants of visited breakers, and descent is transitive, so `blockers` covers it.
            visited |= 1 << k;
        }
    }
    visited
}

fn reach_from(g: &G, roots: u32) -> u32 {
    let desc = g.descendants();
    let mut r = roots;
    for k in 0..g.n {
        if roots >> k & 1 == 1 {
            r |= desc[k];
        }
    }
    r
}

fn check_fold(ctx: &mut Ctx, g: &G, dag: &Dag<u8, u8>, roots: u32, brk: u32) {
    let anc = g.ancestors();
    let root_list: Vec<u8> = (0..g.n as u8).filter(|k| roots >> k & 1 == 1).collect();
    let visits: Vec<u8> = dag.fold(&root_list, Vec::new(), |mut acc, k, node| {
        acc.push(*k);
        debug_assert_eq!(node.key, *k);
        if brk >> *k & 1 == 1 {
            ControlFlow::Break(acc)
        } else {
            ControlFlow::Continue(acc)
        }
    });
    ctx.rep.count("fold.calls");
    let reach = reach_from(g, roots);
    let expect = expected_visit(g, reach, brk);
    let mut seen = 0u32;
    let mut order_ok = true;
    let mut dup = false;
    for k in &visits {
        if seen >> k & 1 == 1 {
            dup = true;
        }
        // all dependencies *that are visited at all* must have come earlier
        if anc[*k as usize] & expect & !seen != 0 {
            order_ok = false;
        }
        seen |= 1 << k;
    }
    if dup {
        ctx.viol("C23/fold/node-visited-twice", g, json!({"roots": root_list, "break": brk, "visits": visits}));
    }
    if seen != expect {
        let sig = if seen & !expect != 0 {
            "C23/fold/visited-a-dependent-of-a-stopped-node"
        } else {
            "C23/fold/skipped-a-node-not-depending-on-a-stopped-node"
        };
        ctx.viol(sig, g, json!({"roots": root_list, "break": brk, "visits": visits, "expected_set": expect}));
    } else if !order_ok {
        ctx.viol("C23/fold/dependency-visited-after-dependent", g, json!({"roots": root_list, "break": brk, "visits": visits}));
    }
    if brk & seen != 0 {
        ctx.rep.count("fold.with-effective-break");
    }
}

fn check_prune(ctx: &mut Ctx, g: &G, dag0: &Dag<u8, u8>, brk: u32, rank: &[u8], which_order: u8) {
    let anc = g.ancestors();
    let desc = g.descendants();
    let mut dag = dag0.clone();
    let roots_mask: u32 = (0..g.n).filter(|k| g.deps[*k] == 0).map(|k| 1u32 << k).sum();
    let mut root_list: Vec<u8> = (0..g.n as u8).filter(|k| roots_mask >> k & 1 == 1).collect();
    if which_order == 2 {
        root_list.reverse();
    }
    let mut visits: Vec<u8> = vec![];
    let mut sibling_err: Option<Value> = None;
    let mut removed_so_far = 0u32;
    let ordering = |a: (&u8, &u8), b: (&u8, &u8)| -> Ordering {
        match which_order {
            0 => a.0.cmp(b.0),
            1 => b.0.cmp(a.0),
            _ => rank[*a.0 as usize].cmp(&rank[*b.0 as usize]),
        }
    };
    dag.prune_by(
        &root_list,
        |k, _node, siblings| {
            visits.push(*k);
            // siblings: nodes of the *current* graph that are neither ancestors nor descendants.
            let got: u32 = siblings.map(|(s, _)| 1u32 << *s).fold(0, |a, b| a | b);
            let all = ((1u32 << g.n) - 1) & !removed_so_far;
            let want = all & !(1 << *k) & !anc[*k as usize] & !desc[*k as usize];
            if got != want && sibling_err.is_none() {
                sibling_err = Some(json!({"at": k, "got": got, "want": want}));
            }
            if brk >> *k & 1 == 1 {
                removed_so_far |= 1 << *k | desc[*k as usize];
                ControlFlow::Break(())
            } else {
                ControlFlow::Continue(())
            }
        },
        ordering,
    );
    ctx.rep.count("prune_by.calls");
    let all = (1u32 << g.n) - 1;
    let expect_visit = expected_visit(g, all, brk);
    let mut expect_removed = 0u32;
    for k in 0..g.n {
        if expect_visit >> k & 1 == 1 && brk >> k & 1 == 1 {
            expect_removed |= 1 << k | desc[k];
        }
    }
    let seen: u32 = visits.iter().fold(0, |a, k| a | 1 << k);
    let w = json!({"roots": root_list, "break": brk, "ordering": which_order, "visits": visits});
    if seen != expect_visit {
        ctx.viol("C23/prune/callback-on-wrong-node-set", g, w.clone());
    }
    let mut s = 0u32;
    for k in &visits {
        if anc[*k as usize] & !s != 0 {
            ctx.viol("C23/prune/dependency-visited-after-dependent", g, w.clone());
            break;
        }
        s |= 1 << k;
    }
    if let Some(e) = sibling_err {
        ctx.viol("C23/prune/siblings-argument-wrong", g, json!({"call": w, "siblings": e}));
    }
    // final structure
    let remaining: u32 = (0..g.n as u8).filter(|k| dag.contains(k)).fold(0, |a, k| a | 1 << k);
    if remaining != all & !expect_removed {
        let sig = if remaining & expect_removed != 0 {
            "C23/prune/dependent-of-pruned-node-survives"
        } else {
            "C23/prune/removed-a-node-that-is-not-a-dependent"
        };
        ctx.viol(sig, g, json!({"call": w, "remaining": remaining, "expected_removed": expect_removed}));
        return;
    }
    if dag.len() != remaining.count_ones() as usize {
        ctx.viol("C23/prune/len-inconsistent", g, w.clone());
    }
    let mut tips = 0u32;
    let mut roots = 0u32;
    for k in 0..g.n {
        if remaining >> k & 1 == 0 {
            continue;
        }
        let node = dag.get(&(k as u8)).unwrap();
        let deps: u32 = node.dependencies.iter().fold(0, |a, k| a | 1 << k);
        let dependents: u32 = node.dependents.iter().fold(0, |a, k| a | 1 << k);
        let want_deps = g.deps[k];
        let want_dependents: u32 = (0..g.n)
            .filter(|j| remaining >> j & 1 == 1 && g.deps[*j] >> k & 1 == 1)
            .fold(0, |a, j| a | 1 << j);
        if deps != want_deps || dependents != want_dependents {
            ctx.viol("C23/prune/edges-of-surviving-node-changed", g, json!({"call": w, "node": k, "deps": deps, "dependents": dependents}));
        }
        if want_dependents == 0 {
            tips |= 1 << k;
        }
        if want_deps == 0 {
            roots |= 1 << k;
        }
    }
    let got_tips: u32 = dag.tips().fold(0, |a, (k, _)| a | 1 << k);
    let got_roots: u32 = dag.roots().fold(0, |a, (k, _)| a | 1 << k);
    if got_tips != tips || got_roots != roots {
        ctx.viol("C23/prune/tips-or-roots-inconsistent", g, json!({"call": w, "tips": got_tips, "want_tips": tips, "roots": got_roots, "want_roots": roots}));
    }
    if expect_removed != 0 {
        ctx.rep.count("prune_by.with-removal");
    }
}

/// merge: split `g` into two overlapping sub-graphs, merge b into a, compare with the union.
fn check_merge(ctx: &mut Ctx, g: &G, rng: &mut Rng) {
    let all = (1u32 << g.n) - 1;
    let na = (rng.u32() & all) | (1 << rng.usize(g.n));
    let nb = (rng.u32() & all) | (1 << rng.usize(g.n));
    let mut sub = |mask: u32, rng: &mut Rng| -> (G, Dag<u8, u8>) {
        let mut deps = vec![0u32; g.n];
        for k in 0..g.n {
            if mask >> k & 1 == 1 {
                deps[k] = g.deps[k] & mask;
                // drop a random subset of the edges now and then
                if rng.chance(1, 4) {
                    deps[k] &= rng.u32();
                }
            }
        }
        let sg = G { n: g.n, deps };
        let mut dag = Dag::new();
        let mut nodes: Vec<u8> = (0..g.n as u8).filter(|k| mask >> k & 1 == 1).collect();
        rng.shuffle(&mut nodes);
        for k in &nodes {
            dag.node(*k, *k);
        }
        let mut e = sg.edges();
        rng.shuffle(&mut e);
        for (f, t) in e {
            dag.dependency(f, t);
        }
        (sg, dag)
    };
    let (ga, mut a) = sub(na, rng);
    let (gb, b) = sub(nb, rng);
    let b_roots = (0..g.n).filter(|k| nb >> k & 1 == 1 && gb.deps[*k] == 0).count();
    a.merge(b);
    ctx.rep.count("merge.calls");
    if b_roots > 1 {
        ctx.rep.count("merge.other-has-several-roots");
    }
    let want_nodes = na | nb;
    let got_nodes: u32 = (0..g.n as u8).filter(|k| a.contains(k)).fold(0, |x, k| x | 1 << k);
    let w = json!({"a": {"nodes": na, "g": ga.json()}, "b": {"nodes": nb, "g": gb.json()}, "other_roots": b_roots});
    if got_nodes != want_nodes {
        let sig = if b_roots > 1 {
            "C23/merge/node-missing/other-has-several-roots"
        } else {
            "C23/merge/node-set-not-union"
        };
        ctx.viol(sig, g, json!({"split": w, "got_nodes": got_nodes, "want_nodes": want_nodes}));
        return;
    }
    let mut tips = 0u32;
    let mut roots = 0u32;
    for k in 0..g.n {
        if want_nodes >> k & 1 == 0 {
            continue;
        }
        let node = a.get(&(k as u8)).unwrap();
        let deps: u32 = node.dependencies.iter().fold(0, |x, k| x | 1 << k);
        let dependents: u32 = node.dependents.iter().fold(0, |x, k| x | 1 << k);
        let want_deps = ga.deps[k] | gb.deps[k];
        let want_dependents: u32 = (0..g.n)
            .filter(|j| (ga.deps[*j] | gb.deps[*j]) >> k & 1 == 1)
            .fold(0, |x, j| x | 1 << j);
        if deps != want_deps || dependents != want_dependents {
            let sig = if b_roots > 1 {
                "C23/merge/edge-missing/other-has-several-roots"
            } else {
                "C23/merge/edge-set-not-union"
            };
            ctx.viol(sig, g, json!({"split": w, "node": k, "deps": deps, "want_deps": want_deps, "dependents": dependents, "want_dependents": want_dependents}));
            return;
        }
        if want_dependents == 0 {
            tips |= 1 << k;
        }
        if want_deps == 0 {
            roots |= 1 << k;
        }
    }
    let got_tips: u32 = a.tips().fold(0, |x, (k, _)| x | 1 << k);
    let got_roots: u32 = a.roots().fold(0, |x, (k, _)| x | 1 << k);
    if got_tips != tips || got_roots != roots {
        ctx.viol("C23/merge/tips-or-roots-inconsistent", g, json!({"split": w, "tips": got_tips, "want_tips": tips, "roots": got_roots, "want_roots": roots}));
    }
}

fn check_graph(rep: &mut Reporter, g: &G, rng: &mut Rng, all_breaks: bool) {
    rep.eval();
    let mut ctx = Ctx { rep };
    let dag = build(g, rng);
    let mut rank: Vec<u8> = (0..g.n as u8).collect();
    rng.shuffle(&mut rank);
    check_sorted(&mut ctx, g, &dag, &rank);
    let all = (1u32 << g.n) - 1;
    let roots_mask: u32 = (0..g.n).filter(|k| g.deps[*k] == 0).map(|k| 1u32 << k).sum();
    let breaks: Vec<u32> = if all_breaks {
        (0..=all).collect()
    } else {
        let mut v = vec![0, all];
        for _ in 0..6 {
            v.push(rng.u32() & all);
        }
        for k in 0..g.n {
            v.push(1 << k);
        }
        v
    };
    for brk in &breaks {
        check_fold(&mut ctx, g, &dag, roots_mask, *brk);
        check_prune(&mut ctx, g, &dag, *brk, &rank, (brk % 3) as u8);
    }
    // fold from root subsets / arbitrary start nodes (as cob evaluation does from one root)
    for _ in 0..3 {
        let sub = rng.u32() & all;
        if sub != 0 {
            check_fold(&mut ctx, g, &dag, sub, rng.u32() & all);
        }
    }
    for _ in 0..4 {
        check_merge(&mut ctx, g, rng);
    }
    let edges: u32 = g.deps.iter().map(|d| d.count_ones()).sum();
    if g.n >= 3 && edges >= 2 {
        ctx.rep.nontrivial(g.hash());
    }
    if roots_mask.count_ones() > 1 {
        ctx.rep.count("graphs.multi-root");
    }
    if ctx.rep.wants_sample() && g.n >= 4 && edges >= 3 {
        let s = json!({"graph": g.json(), "sorted": dag.sorted().into_iter().collect::<Vec<_>>(), "break_sets_tried": breaks.len()});
        ctx.rep.sample(s);
    }
}

pub fn run(args: &Args) {
    let mut rep = Reporter::new("C23");
    if let Some(path) = &args.replay {
        let w = vcommon::load_replay(path);
        let g = &w["graph"];
        let n = g["n"].as_u64().unwrap() as usize;
        let mut deps = vec![0u32; n];
        for e in g["edges(from depends-on to)"].as_array().unwrap() {
            deps[e[0].as_u64().unwrap() as usize] |= 1 << e[1].as_u64().unwrap();
        }
        let g = G { n, deps };
        for s in 0..64 {
            let mut rng = Rng::new(args.seed ^ s);
            check_graph(&mut rep, &g, &mut rng, true);
        }
        rep.finish();
        return;
    }
    let miri = args.mode.as_deref() == Some("miri");
    // exhaustive part: every position-DAG × every relabelling, n <= N
    let exhaustive_n = if miri { 3 } else if args.thorough { 5 } else { 4 };
    let mut idx = 0u64;
    let mut rng = Rng::new(vcommon::mix(args.seed, "C23", args.shard));
    let mut exhaustive_graphs = 0u64;
    for n in 1..=exhaustive_n {
        let perms = permutations(n);
        let nedges = n * (n - 1) / 2;
        for mask in 0..(1u32 << nedges) {
            for perm in &perms {
                idx += 1;
                if idx % args.shards != args.shard {
                    continue;
                }
                let g = from_mask(n, mask, perm);
                check_graph(&mut rep, &g, &mut rng, true);
                exhaustive_graphs += 1;
            }
        }
    }
    rep.add("exhaustive.graphs", exhaustive_graphs);
    rep.max("exhaustive.n", exhaustive_n as u64);
    // quick tier: a sample of n = 5
    if !args.thorough && !miri {
        let perms = permutations(5);
        for k in 0..args.budget(3_000, 0) {
            let mut r = Rng::new(args.case_seed(k));
            let pi = r.usize(perms.len());
            let g = from_mask(5, r.u32() & 1023, &perms[pi]);
            check_graph(&mut rep, &g, &mut r, true);
        }
    }
    // random larger graphs
    let n_random = if miri { args.budget(20, 20) } else { args.budget(6_000, 400_000) };
    for k in 0..n_random {
        let mut r = Rng::new(args.case_seed(1_000_000 + k));
        let g = random_graph(&mut r, if miri { 7 } else { 14 });
        check_graph(&mut rep, &g, &mut r, false);
        rep.count("random.graphs");
    }
    let _ = BTreeMap::<u8, u8>::new();
    let _ = BTreeSet::<u8>::new();
    rep.finish();
}
