//! C06 — Rejected collaborative-object changes leave no trace in the state.
//!
//! Self-differential with exact ids: evaluate the full history H, then re-point the refs at
//! `tips(eval(H).history)` — the surviving, parent-closed set, *the same commits* — and evaluate
//! again. The two states must be identical. Generator ground truth (bad signatures, actions the
//! type rejects unconditionally) gives the "dropped together with dependents" clause.
use radicle::cob::issue::Issue;
use radicle::cob::patch::Patch;
use radicle::git::Oid;
use vcommon::{json, Args, Reporter, Rng, Value};

use crate::gen::{self, Hist, Knobs};
use crate::world::{eval, Snap, World};

fn first_diff(a: &Value, b: &Value, path: &str) -> String {
    match (a, b) {
        (Value::Object(x), Value::Object(y)) => {
            for (k, v) in x {
                match y.get(k) {
                    None => return format!("{path}/{k}"),
                    Some(w) if w != v => return first_diff(v, w, &format!("{path}/{k}")),
                    _ => {}
                }
            }
            for k in y.keys() {
                if !x.contains_key(k) {
                    return format!("{path}/{k}");
                }
            }
            path.to_string()
        }
        _ => path.to_string(),
    }
}

/// Top-level field of the first difference (stable signature component).
fn diff_field(a: &Value, b: &Value) -> String {
    let p = first_diff(a, b, "");
    p.split('/').nth(1).unwrap_or("?").to_string()
}

pub fn check_hist<T>(rep: &mut Reporter, w: &World, h: &Hist, kind: &str)
where
    T: radicle::cob::Evaluate<radicle::storage::git::Repository> + serde::Serialize,
{
    rep.eval();
    let n = h.ops.len();
    let ns: Vec<usize> = (0..24).collect();
    w.set_refs(&h.typename, &h.id, &h.prefix_tips(n), &ns);
    let e1: Snap = match eval::<T>(w, &h.typename, &h.id) {
        Ok(Some(s)) => s,
        other => {
            rep.inconclusive("evaluation of the full history failed", json!({"result": format!("{other:?}"), "history": h.json(w)}));
            return;
        }
    };
    // clause: rejected changes and their dependents are absent from the history
    let doomed = h.doomed();
    for i in &doomed {
        if e1.entries.contains(&h.ops[*i].oid) {
            let o = &h.ops[*i];
            let sig = if o.bad_sig {
                format!("C06/{kind}/change-with-invalid-signature-in-history")
            } else if o.sure_reject {
                format!("C06/{kind}/rejected-change-in-history")
            } else {
                format!("C06/{kind}/dependent-of-rejected-change-in-history")
            };
            rep.violation(&sig, json!({"op": i, "history": h.json(w)}));
            return;
        }
    }
    let pruned = n - e1.entries.len();
    // clause: state == evaluation of the history without them
    let tips: Vec<Oid> = e1.tips.iter().copied().collect();
    w.set_refs(&h.typename, &h.id, &tips, &ns);
    let e2: Snap = match eval::<T>(w, &h.typename, &h.id) {
        Ok(Some(s)) => s,
        other => {
            rep.inconclusive("evaluation of the reduced history failed", json!({"result": format!("{other:?}")}));
            return;
        }
    };
    if e2.entries != e1.entries {
        rep.violation(&format!("C06/{kind}/reduced-history-evaluates-to-different-change-set"), json!({"history": h.json(w),
            "only_in_full": e1.entries.difference(&e2.entries).map(|o| h.index_of(o)).collect::<Vec<_>>(),
            "only_in_reduced": e2.entries.difference(&e1.entries).map(|o| h.index_of(o)).collect::<Vec<_>>()}));
    } else if e2.state != e1.state {
        let field = diff_field(&e1.state, &e2.state);
        rep.violation(&format!("C06/{kind}/rejected-change-left-trace-in/{field}"), json!({"history": h.json(w), "diff_at": first_diff(&e1.state, &e2.state, ""),
            "rejected_ops": (0..n).filter(|i| !e1.entries.contains(&h.ops[*i].oid)).collect::<Vec<_>>()}));
    }
    if pruned > 0 {
        rep.count(&format!("{kind}.histories-with-pruning"));
        rep.nontrivial(vcommon::fnv(h.id.to_string().as_bytes()));
        if h.ops.iter().any(|o| o.sure_reject && o.partial_ok) {
            rep.count(&format!("{kind}.pruned-change-had-acceptable-earlier-action"));
        }
        if h.ops.iter().any(|o| o.bad_sig) {
            rep.count(&format!("{kind}.with-invalid-signature"));
        }
        if doomed.iter().any(|i| !h.ops[*i].sure_reject) {
            rep.count(&format!("{kind}.with-dependents-of-rejected"));
        }
    }
    for o in &h.ops {
        for kd in &o.kinds {
            if kd.starts_with("reject:") {
                rep.count(&format!("fed:{kd}"));
            }
        }
    }
    rep.add(&format!("{kind}.changes-written"), n as u64);
    rep.add(&format!("{kind}.changes-accepted"), e1.entries.len() as u64);
    if rep.wants_sample() && pruned > 1 {
        rep.sample(json!({"history": h.json(w), "accepted": e1.entries.len(), "state": e1.state}));
    }
    w.clear_refs(&h.typename, &h.id);
}

/// Self-differential for an identity history: full refs vs refs at the surviving tips.
fn check_identity(rep: &mut Reporter, w: &World, ops: &[(Oid, Vec<usize>)]) {
    use radicle::cob::identity::{Identity, TYPENAME};
    rep.eval();
    let typename = TYPENAME.clone();
    let id = radicle::cob::ObjectId::from(ops[0].0);
    let ns: Vec<usize> = (0..24).collect();
    let mut is_parent = vec![false; ops.len()];
    for (_, ps) in ops {
        for p in ps {
            is_parent[*p] = true;
        }
    }
    let tips: Vec<Oid> = (0..ops.len()).filter(|i| !is_parent[*i]).map(|i| ops[i].0).collect();
    w.set_refs(&typename, &id, &tips, &ns);
    let Ok(Some(e1)) = eval::<Identity>(w, &typename, &id) else {
        rep.inconclusive("identity evaluation failed", json!({}));
        return;
    };
    let t2: Vec<Oid> = e1.tips.iter().copied().collect();
    w.set_refs(&typename, &id, &t2, &ns);
    let Ok(Some(e2)) = eval::<Identity>(w, &typename, &id) else {
        rep.inconclusive("identity evaluation (reduced) failed", json!({}));
        return;
    };
    let idx = |o: &Oid| ops.iter().position(|x| x.0 == *o);
    let hist = || json!(ops.iter().enumerate().map(|(i, (o, p))| json!({"i": i, "oid": o.to_string(), "parents": p})).collect::<Vec<_>>());
    if e2.entries != e1.entries {
        // Classify: heartwood's identity evaluator tolerates an `UnexpectedState` error of a change X
        // only while X has concurrent changes in the graph. If every minimal change that disappeared
        // has NO surviving concurrent change (so in the reduced history its error became fatal) but had
        // one in the full history (necessarily a rejected one), the difference is that known mechanism.
        let n = ops.len();
        let mut anc: Vec<std::collections::BTreeSet<usize>> = vec![Default::default(); n];
        for i in 0..n {
            for p in ops[i].1.clone() {
                let a = anc[p].clone();
                anc[i].insert(p);
                anc[i].extend(a);
            }
        }
        let concurrent = |x: usize, y: usize| x != y && !anc[x].contains(&y) && !anc[y].contains(&x);
        let gone: Vec<usize> = e1.entries.difference(&e2.entries).filter_map(idx).collect();
        let minimal: Vec<usize> = gone.iter().copied().filter(|x| !anc[*x].iter().any(|a| gone.contains(a))).collect();
        let surviving: Vec<usize> = e1.entries.iter().filter_map(idx).collect();
        let known_shape = e2.entries.is_subset(&e1.entries)
            && !minimal.is_empty()
            && minimal.iter().all(|x| !surviving.iter().any(|s| !gone.contains(s) && concurrent(*x, *s)) && (0..n).any(|r| !surviving.contains(&r) && concurrent(*x, r)));
        let sig = if known_shape {
            "C06/identity/change-survives-only-while-a-rejected-concurrent-change-exists"
        } else {
            "C06/identity/reduced-history-evaluates-to-different-change-set"
        };
        rep.violation(sig, json!({"note": "history generated by the C04 generator with this case seed; ops listed by index", "ops": hist(), "minimal_disappeared": minimal,
            "only_in_full": e1.entries.difference(&e2.entries).map(idx).collect::<Vec<_>>(), "only_in_reduced": e2.entries.difference(&e1.entries).map(idx).collect::<Vec<_>>()}));
    } else if e2.state != e1.state {
        rep.violation(&format!("C06/identity/rejected-change-left-trace-in/{}", diff_field(&e1.state, &e2.state)), json!({"ops": hist(), "diff_at": first_diff(&e1.state, &e2.state, "")}));
    }
    if e1.entries.len() < ops.len() {
        rep.count("identity.histories-with-pruning");
        rep.nontrivial(vcommon::fnv(id.to_string().as_bytes()));
    }
    rep.add("identity.changes-written", ops.len() as u64);
    rep.add("identity.changes-accepted", e1.entries.len() as u64);
}

pub fn run(args: &Args) {
    let mut rep = Reporter::new("C06");
    let n = args.budget(1_600, 16_000);
    let mut w = World::new(2, 5, 1, "c06");
    for kcase in 0..n {
        let mut rng = Rng::new(args.case_seed(kcase));
        if kcase % 40 == 39 {
            // fresh world now and then keeps the repository small
            w = World::new(1 + rng.usize(3), 5, 1, "c06");
        }
        let knobs = Knobs {
            nops: 4 + rng.usize(if args.thorough { 22 } else { 14 }),
            ts_mode: rng.below(3) as u8,
            p_multi_reject: 150,
            p_bad_sig: 40,
            p_branch: 200,
            p_child_of_doomed: 150,
            unprivileged: false,
        };
        match kcase % 3 {
            2 => {
                // identity histories from the C04 generator (fresh repository each)
                let mut scratch = Reporter::new("C06-gen");
                if let Some((wi, ops)) = crate::c04::one(&mut scratch, args.case_seed(kcase), args.thorough, false) {
                    check_identity(&mut rep, &wi, &ops);
                }
            }
            0 => {
                let h = gen::gen_issue(&w, &mut rng, &knobs);
                check_hist::<Issue>(&mut rep, &w, &h, "issue");
            }
            _ => {
                let h = gen::gen_patch(&w, &mut rng, &knobs);
                check_hist::<Patch>(&mut rep, &w, &h, "patch");
            }
        }
    }
    rep.finish();
}
