//! C07 — Issue and patch actions obey the authorization rules.
//!
//! Histories are generated incrementally; after every change the real evaluator is run on the
//! prefix. When the newest change was applied last (so the previous prefix state is exactly the
//! state it was applied to) the field-wise difference of the two states is attributed to the
//! change's author and compared with the author's role. The oracle never consults
//! `authorization()`.
use radicle::cob::issue::Issue;
use radicle::cob::patch::Patch;
use vcommon::{json, Args, Reporter, Rng, Value};

use crate::gen::{IssueGen, Knobs, PatchGen};
use crate::world::{eval, strip, Snap, World};

struct Who {
    key: String, // z6Mk...
    did: String, // did:key:z6Mk...
    delegate: bool,
    object_author: bool,
}

/// Compare two thread JSON objects; returns a violation description if an existing comment was
/// edited or redacted by someone who is neither its author nor a delegate.
fn thread_rule(prev: &Value, cur: &Value, who: &Who, rep: &mut Reporter, ctx: &str) -> Option<String> {
    let (Some(pc), Some(cc)) = (prev["comments"].as_object(), cur["comments"].as_object()) else { return None };
    for (cid, pv) in pc {
        if pv.is_null() {
            continue;
        }
        let cv = cc.get(cid).unwrap_or(&Value::Null);
        let author = pv["author"].as_str().unwrap_or("");
        let privileged = who.delegate || author == who.key;
        if cv.is_null() {
            rep.count(&format!("observed.{ctx}comment-redacted"));
            if !privileged {
                return Some(format!("{ctx}comment-redacted-by-non-author"));
            }
        } else if cv["edits"] != pv["edits"] || cv["body"] != pv["body"] {
            rep.count(&format!("observed.{ctx}comment-edited"));
            if !privileged {
                return Some(format!("{ctx}comment-edited-by-non-author"));
            }
        }
    }
    None
}

fn issue_rules(prev: &Value, cur: &Value, who: &Who, rep: &mut Reporter) -> Option<String> {
    for f in ["assignees", "labels"] {
        if prev[f] != cur[f] {
            rep.count(&format!("observed.issue.{f}-changed"));
            if !who.delegate {
                return Some(format!("issue/{f}-changed-by-non-delegate"));
            }
        }
    }
    for f in ["title", "state"] {
        if prev[f] != cur[f] {
            rep.count(&format!("observed.issue.{f}-changed"));
            if !who.delegate && !who.object_author {
                return Some(format!("issue/{f}-changed-by-non-author"));
            }
        }
    }
    thread_rule(&prev["thread"], &cur["thread"], who, rep, "issue/").map(|s| s)
}

fn patch_rules(prev: &Value, cur: &Value, who: &Who, rep: &mut Reporter) -> Option<String> {
    for f in ["assignees", "labels", "merges"] {
        if prev[f] != cur[f] {
            rep.count(&format!("observed.patch.{f}-changed"));
            if !who.delegate {
                return Some(format!("patch/{f}-changed-by-non-delegate"));
            }
        }
    }
    for f in ["title", "target", "state"] {
        if prev[f] != cur[f] {
            rep.count(&format!("observed.patch.{f}-changed"));
            if !who.delegate && !who.object_author {
                return Some(format!("patch/{f}-changed-by-non-author"));
            }
        }
    }
    let (Some(pr), Some(cr)) = (prev["revisions"].as_object(), cur["revisions"].as_object()) else { return None };
    for (rid, pv) in pr {
        if pv.is_null() {
            continue;
        }
        let cv = cr.get(rid).unwrap_or(&Value::Null);
        if cv.is_null() {
            // whole revision redacted (by its author or a delegate per heartwood's rules; revisions
            // are outside the statement): nested comments/reviews disappear with it
            rep.count("observed.patch.revision-redacted");
            continue;
        }
        if let Some(v) = thread_rule(&pv["discussion"], &cv["discussion"], who, rep, "patch/revision-") {
            return Some(v);
        }
        let (Some(pvs), Some(cvs)) = (pv["reviews"].as_object(), cv["reviews"].as_object()) else { continue };
        for (reviewer, prv) in pvs {
            let author_did = prv["author"]["id"].as_str().unwrap_or("");
            let privileged = who.delegate || author_did == who.did || *reviewer == who.key;
            match cvs.get(reviewer) {
                None => {
                    rep.count("observed.patch.review-redacted");
                    if !privileged {
                        return Some("patch/review-redacted-by-non-author".into());
                    }
                }
                Some(crv) => {
                    if crv["id"] != prv["id"] {
                        // redacted and replaced by a new review of the same reviewer
                        rep.count("observed.patch.review-replaced");
                        if !privileged {
                            return Some("patch/review-redacted-by-non-author".into());
                        }
                        continue;
                    }
                    if crv["summary"] != prv["summary"] || crv["verdict"] != prv["verdict"] || crv["labels"] != prv["labels"] {
                        rep.count("observed.patch.review-edited");
                        if !privileged {
                            return Some("patch/review-edited-by-non-author".into());
                        }
                    }
                    if let Some(v) = thread_rule(&prv["comments"], &crv["comments"], who, rep, "patch/review-") {
                        return Some(v);
                    }
                }
            }
        }
    }
    None
}

#[allow(clippy::too_many_arguments)]
fn step_check(
    rep: &mut Reporter,
    w: &World,
    kind: &str,
    hist_json: &dyn Fn() -> Value,
    op_idx: usize,
    op_oid: radicle::git::Oid,
    actor: usize,
    object_author: usize,
    prev: &Snap,
    cur: &Snap,
    kinds: &[&'static str],
) -> bool {
    rep.eval();
    let key = w.actors[actor].public_key().to_string();
    let who = Who { did: format!("did:key:{key}"), key, delegate: actor < w.ndelegates, object_author: actor == object_author };
    let role = if who.delegate { "delegate" } else if who.object_author { "object-author" } else { "other" };
    let accepted = cur.entries.contains(&op_oid);
    for k in kinds {
        rep.count(&format!("fed.{kind}.{k}.by-{role}"));
        if accepted {
            rep.count(&format!("accepted.{kind}.{k}"));
        }
    }
    let a = strip(&prev.state, &["timeline"]);
    let b = strip(&cur.state, &["timeline"]);
    if !accepted {
        rep.count("changes-rejected");
        // rejected: no effect whatsoever (including bookkeeping)
        if cur.entries != prev.entries {
            rep.violation(&format!("C07/{kind}/rejected-change-altered-history"), json!({"op": op_idx, "history": hist_json()}));
            return false;
        }
        if cur.state != prev.state {
            rep.violation(&format!("C07/{kind}/rejected-change-had-effect"), json!({"op": op_idx, "before": a, "after": b, "history": hist_json()}));
            return false;
        }
        return true;
    }
    rep.count("changes-accepted");
    let applied_last = cur.order.last() == Some(&op_oid) && cur.entries.len() == prev.entries.len() + 1;
    if !applied_last {
        rep.count("skipped.change-not-applied-last");
        return true;
    }
    rep.count("attributed.change-applied-last");
    if !who.delegate {
        rep.count("attributed.by-non-delegate");
    }
    let v = if kind == "issue" { issue_rules(&a, &b, &who, rep) } else { patch_rules(&a, &b, &who, rep) };
    if let Some(v) = v {
        rep.violation(&format!("C07/{v}"), json!({"op": op_idx, "actor": actor, "role": role, "before": a, "after": b, "history": hist_json()}));
        return false;
    }
    true
}

fn one(rep: &mut Reporter, w: &World, seed: u64, patch: bool, thorough: bool) {
    let mut rng = Rng::new(seed);
    let knobs = Knobs {
        nops: 5 + rng.usize(if thorough { 26 } else { 11 }),
        ts_mode: rng.below(3) as u8,
        p_multi_reject: 0,
        p_bad_sig: 10,
        p_branch: 150,
        p_child_of_doomed: 0,
        unprivileged: true,
    };
    let ns: Vec<usize> = (0..24).collect();
    if !patch {
        let mut g = IssueGen::new(w, &mut rng, &knobs);
        w.set_refs(&g.hist.typename, &g.hist.id, &g.hist.prefix_tips(1), &ns);
        let Ok(Some(mut prev)) = eval::<Issue>(w, &g.hist.typename, &g.hist.id) else {
            rep.inconclusive("root issue does not evaluate", json!({}));
            return;
        };
        for _ in 1..knobs.nops {
            let i = g.step(w, &mut rng);
            w.set_refs(&g.hist.typename, &g.hist.id, &g.hist.prefix_tips(i + 1), &ns);
            let cur = match eval::<Issue>(w, &g.hist.typename, &g.hist.id) {
                Ok(Some(c)) => c,
                other => {
                    rep.inconclusive("issue evaluation failed", json!({"r": format!("{other:?}")}));
                    return;
                }
            };
            let op = g.hist.ops[i].clone();
            if !cur.entries.contains(&op.oid) {
                g.mark_doomed(i);
            }
            let hj = || g.hist.json(w);
            if !step_check(rep, w, "issue", &hj, i, op.oid, op.actor, g.hist.author, &prev, &cur, &op.kinds) {
                break;
            }
            prev = cur;
        }
        if g.hist.ops.len() > 4 {
            rep.nontrivial(vcommon::fnv(g.hist.id.to_string().as_bytes()));
        }
        if rep.wants_sample() && g.hist.ops.len() > 8 {
            rep.sample(json!({"history": g.hist.json(w), "final_state": prev.state}));
        }
        w.clear_refs(&g.hist.typename, &g.hist.id);
    } else {
        let mut g = PatchGen::new(w, &mut rng, &knobs);
        w.set_refs(&g.hist.typename, &g.hist.id, &g.hist.prefix_tips(1), &ns);
        let Ok(Some(mut prev)) = eval::<Patch>(w, &g.hist.typename, &g.hist.id) else {
            rep.inconclusive("root patch does not evaluate", json!({}));
            return;
        };
        for _ in 1..knobs.nops {
            let i = g.step(w, &mut rng);
            w.set_refs(&g.hist.typename, &g.hist.id, &g.hist.prefix_tips(i + 1), &ns);
            let cur = match eval::<Patch>(w, &g.hist.typename, &g.hist.id) {
                Ok(Some(c)) => c,
                other => {
                    rep.inconclusive("patch evaluation failed", json!({"r": format!("{other:?}")}));
                    return;
                }
            };
            let op = g.hist.ops[i].clone();
            if !cur.entries.contains(&op.oid) {
                g.mark_doomed(i);
            }
            let hj = || g.hist.json(w);
            if !step_check(rep, w, "patch", &hj, i, op.oid, op.actor, g.hist.author, &prev, &cur, &op.kinds) {
                break;
            }
            prev = cur;
        }
        if g.hist.ops.len() > 4 {
            rep.nontrivial(vcommon::fnv(g.hist.id.to_string().as_bytes()));
        }
        w.clear_refs(&g.hist.typename, &g.hist.id);
    }
}

pub fn run(args: &Args) {
    let mut rep = Reporter::new("C07");
    let n = args.budget(2_400, 24_000);
    let mut w = World::new(2, 6, 1, "c07");
    for k in 0..n {
        if k % 40 == 39 {
            let mut r = Rng::new(args.case_seed(k) ^ 0x77);
            w = World::new(1 + r.usize(3), 6, 1, "c07");
        }
        one(&mut rep, &w, args.case_seed(k), k % 2 == 1, args.thorough);
    }
    rep.finish();
}
