//! C09 — The COB cache answers exactly like direct evaluation.
//!
//! Issues and patches are created and updated (i) behind the cache's back with the low-level
//! change writer, followed by the real post-fetch updater `worker::fetch::cache_cobs` (hook) with
//! the corresponding `RefUpdate`s, and (ii) through the cached high-level API. After every
//! operation every query is asked of `Cache<_, StoreWriter>` and of `Cache::no_cache(repo)` and
//! the answers are compared.
use std::collections::BTreeSet;

use radicle::cob::cache::{self, StoreWriter};
use radicle::cob::issue::{self, Issues};
use radicle::cob::patch::{self, Patches};
use radicle::cob::{ObjectId, TypeName};
use radicle::git::Oid;
use radicle::storage::RefUpdate;
use vcommon::{guarded, json, Args, Reporter, Rng, Value};

use crate::gen::{IssueGen, Knobs, PatchGen};
use crate::world::{random_oid, World};

fn j<T: serde::Serialize, E: std::fmt::Display>(r: Result<T, E>) -> Value {
    match r {
        Ok(v) => json!({"ok": serde_json::to_value(v).unwrap_or(Value::Null)}),
        Err(e) => json!({"err": e.to_string()}),
    }
}

/// Normalise a result for comparison: errors compare equal to errors (messages differ by backend).
fn norm(v: &Value) -> Value {
    if v.get("err").is_some() { json!("ERR") } else { v.clone() }
}

fn list_json<I, T, E>(it: Result<I, E>) -> Value
where
    I: Iterator<Item = Result<(ObjectId, T), E>>,
    T: serde::Serialize,
    E: std::fmt::Display,
{
    match it {
        Err(e) => json!({"err": e.to_string()}),
        Ok(it) => {
            let mut items: Vec<(String, Value)> = vec![];
            for r in it {
                match r {
                    Ok((id, o)) => items.push((id.to_string(), serde_json::to_value(o).unwrap())),
                    Err(e) => items.push(("ERR".into(), json!(e.to_string()))),
                }
            }
            items.sort_by(|a, b| a.0.cmp(&b.0));
            json!({"ok": items})
        }
    }
}

struct Objects {
    issues: Vec<ObjectId>,
    patches: Vec<ObjectId>,
}

/// Ids nested anywhere in the patches (for find_by_revision).
fn harvest_ids(v: &Value, out: &mut BTreeSet<String>, redacted: &mut BTreeSet<String>) {
    if let Some(m) = v.as_object() {
        for (k, val) in m {
            if k.len() == 40 && k.chars().all(|c| c.is_ascii_hexdigit()) {
                out.insert(k.clone());
                if val.is_null() {
                    redacted.insert(k.clone());
                }
            }
            harvest_ids(val, out, redacted);
        }
    } else if let Some(a) = v.as_array() {
        for x in a {
            harvest_ids(x, out, redacted);
        }
    } else if let Some(s) = v.as_str() {
        if s.len() == 40 && s.chars().all(|c| c.is_ascii_hexdigit()) {
            out.insert(s.to_string());
        }
    }
}

fn compare_all(rep: &mut Reporter, w: &World, store: &StoreWriter, objs: &Objects, rng: &mut Rng, trail: &[Value]) -> bool {
    let r = guarded(|| -> Result<Vec<(String, Value, Value)>, String> {
        let mut out = vec![];
        let pc = patch::Cache::open(Patches::open(&w.repo).map_err(|e| e.to_string())?, store.clone());
        let pd = patch::Cache::no_cache(&w.repo).map_err(|e| e.to_string())?;
        let ic = issue::Cache::open(Issues::open(&w.repo).map_err(|e| e.to_string())?, store.clone());
        let id = issue::Cache::no_cache(&w.repo).map_err(|e| e.to_string())?;
        use issue::cache::Issues as _;
        use patch::cache::Patches as _;
        // get
        let mut ids: Vec<ObjectId> = objs.patches.clone();
        ids.push(ObjectId::from(random_oid(rng)));
        for pid in &ids {
            out.push((format!("patch.get"), j(pc.get(pid)), j(pd.get(pid))));
        }
        let mut ids: Vec<ObjectId> = objs.issues.clone();
        ids.push(ObjectId::from(random_oid(rng)));
        for iid in &ids {
            out.push((format!("issue.get"), j(ic.get(iid)), j(id.get(iid))));
        }
        // list / by status / counts / is_empty
        out.push(("patch.list".into(), list_json(pc.list()), list_json(pd.list())));
        for st in [patch::Status::Open, patch::Status::Draft, patch::Status::Archived, patch::Status::Merged] {
            out.push((format!("patch.list_by_status"), list_json(pc.list_by_status(&st)), list_json(pd.list_by_status(&st))));
        }
        out.push(("patch.counts".into(), j(pc.counts()), j(pd.counts())));
        out.push(("patch.is_empty".into(), j(pc.is_empty()), j(pd.is_empty())));
        out.push(("issue.list".into(), list_json(ic.list()), list_json(id.list())));
        for st in [issue::State::Open, issue::State::Closed { reason: issue::CloseReason::Solved }, issue::State::Closed { reason: issue::CloseReason::Other }] {
            out.push((format!("issue.list_by_status"), list_json(ic.list_by_status(&st)), list_json(id.list_by_status(&st))));
        }
        out.push(("issue.counts".into(), j(ic.counts()), j(id.counts())));
        out.push(("issue.is_empty".into(), j(ic.is_empty()), j(id.is_empty())));
        // find_by_revision with every id that occurs anywhere inside the patches
        let mut all = BTreeSet::new();
        let mut redacted = BTreeSet::new();
        if let Ok(l) = pd.list() {
            for (_, p) in l.flatten() {
                harvest_ids(&serde_json::to_value(&p).unwrap(), &mut all, &mut redacted);
            }
        }
        let revision_keys: BTreeSet<String> = {
            let mut s = BTreeSet::new();
            if let Ok(l) = pd.list() {
                for (_, p) in l.flatten() {
                    if let Some(m) = serde_json::to_value(&p).unwrap()["revisions"].as_object() {
                        s.extend(m.keys().cloned());
                    }
                }
            }
            s
        };
        all.insert(random_oid(rng).to_string());
        for idstr in &all {
            let oid: Oid = idstr.parse().unwrap();
            let rid = patch::RevisionId::from(oid);
            let kind = if redacted.contains(idstr) && revision_keys.contains(idstr) {
                "patch.find_by_revision(redacted-revision-id)"
            } else if revision_keys.contains(idstr) {
                "patch.find_by_revision(revision-id)"
            } else {
                "patch.find_by_revision(other-nested-or-unknown-id)"
            };
            let f = |r: Option<patch::ByRevision>| r.map(|b| json!({"id": b.id.to_string(), "revision_id": b.revision_id.to_string(), "patch": serde_json::to_value(&b.patch).unwrap(), "revision": serde_json::to_value(&b.revision).unwrap()}));
            out.push((kind.to_string(), j(pc.find_by_revision(&rid).map(f)), j(pd.find_by_revision(&rid).map(f))));
        }
        Ok(out)
    });
    let results = match r {
        Ok(Ok(v)) => v,
        Ok(Err(e)) => {
            rep.inconclusive("cache handles could not be opened", json!({"e": e}));
            return false;
        }
        Err(p) => {
            rep.violation(&format!("C09/panic/{}", vcommon::panic_site(&p)), json!({"panic": p, "operations": trail}));
            return false;
        }
    };
    for (q, cached, direct) in results {
        rep.eval();
        rep.count(&format!("query.{q}"));
        if norm(&cached) != norm(&direct) {
            let shape = if cached.get("err").is_some() { "cache-errors-where-direct-answers" } else if direct.get("err").is_some() { "cache-answers-where-direct-errors" } else { "answers-differ" };
            rep.violation(&format!("C09/{q}/{shape}"), json!({"query": q, "cached": cached, "direct": direct, "operations": trail}));
            return false;
        }
    }
    true
}

fn refname(ns: &radicle::crypto::PublicKey, t: &TypeName, id: &ObjectId) -> radicle::git::RefString {
    radicle::git::RefString::try_from(format!("refs/namespaces/{ns}/refs/cobs/{t}/{id}")).unwrap()
}

fn one(rep: &mut Reporter, seed: u64, thorough: bool) {
    rep.case(seed);
    let mut rng = Rng::new(seed);
    let nd = 1 + rng.usize(3);
    let w = World::new(nd, nd + 2, 1 + rng.usize(nd), "c09");
    let Ok(store) = cache::Store::<cache::Write>::memory().and_then(|s| s.with_migrations(cache::migrate::ignore)) else {
        rep.inconclusive("cache store", json!({}));
        return;
    };
    let mut store: StoreWriter = store;
    let rid = w.repo.id;
    let knobs = Knobs { nops: 99, ts_mode: 0, p_multi_reject: 0, p_bad_sig: 0, p_branch: 100, p_child_of_doomed: 0, unprivileged: false };
    let mut issues: Vec<IssueGen> = vec![];
    let mut patches: Vec<PatchGen> = vec![];
    let mut objs = Objects { issues: vec![], patches: vec![] };
    let mut trail: Vec<Value> = vec![];
    let nsteps = 6 + rng.usize(if thorough { 30 } else { 12 });
    let mut statuses = BTreeSet::new();
    for step in 0..nsteps {
        let choice = rng.below(12);
        // refs before
        let mut updates: Vec<RefUpdate> = vec![];
        let ns = w.namespaces[0];
        if choice <= 1 || (issues.is_empty() && patches.is_empty()) {
            if rng.bool() {
                let g = IssueGen::new(&w, &mut rng, &knobs);
                let name = refname(&ns, &g.hist.typename, &g.hist.id);
                w.raw().reference(name.as_str(), *g.hist.ops[0].oid, true, "verif").unwrap();
                updates.push(RefUpdate::Created { name, oid: g.hist.ops[0].oid });
                objs.issues.push(g.hist.id);
                trail.push(json!({"step": step, "op": "fetched new issue", "id": g.hist.id.to_string()}));
                issues.push(g);
            } else {
                let g = PatchGen::new(&w, &mut rng, &knobs);
                let name = refname(&ns, &g.hist.typename, &g.hist.id);
                w.raw().reference(name.as_str(), *g.hist.ops[0].oid, true, "verif").unwrap();
                updates.push(RefUpdate::Created { name, oid: g.hist.ops[0].oid });
                objs.patches.push(g.hist.id);
                trail.push(json!({"step": step, "op": "fetched new patch", "id": g.hist.id.to_string()}));
                patches.push(g);
            }
        } else if choice <= 8 {
            // 1-3 more changes on an existing object, then one ref update to the new tip(s)
            let on_patch = !patches.is_empty() && (issues.is_empty() || rng.chance(2, 3));
            let n = 1 + rng.usize(3);
            if issues.is_empty() && patches.is_empty() {
                continue;
            }
            if on_patch {
                let k = rng.usize(patches.len());
                let g = &mut patches[k];
                let old = g.hist.prefix_tips(g.hist.ops.len());
                let mut kinds = vec![];
                for _ in 0..n {
                    let i = g.step(&w, &mut rng);
                    kinds.extend(g.hist.ops[i].kinds.clone());
                }
                let tips = g.hist.prefix_tips(g.hist.ops.len());
                // all tips under distinct namespaces
                for (t, tip) in tips.iter().enumerate() {
                    let name = refname(&w.namespaces[t % w.namespaces.len()], &g.hist.typename, &g.hist.id);
                    w.raw().reference(name.as_str(), **tip, true, "verif").unwrap();
                    updates.push(RefUpdate::Updated { name, old: old.first().copied().unwrap_or(*tip), new: *tip });
                }
                trail.push(json!({"step": step, "op": "fetched patch update", "id": g.hist.id.to_string(), "actions": kinds}));
            } else {
                let k = rng.usize(issues.len());
                let g = &mut issues[k];
                let old = g.hist.prefix_tips(g.hist.ops.len());
                let mut kinds = vec![];
                for _ in 0..n {
                    let i = g.step(&w, &mut rng);
                    kinds.extend(g.hist.ops[i].kinds.clone());
                }
                let tips = g.hist.prefix_tips(g.hist.ops.len());
                for (t, tip) in tips.iter().enumerate() {
                    let name = refname(&w.namespaces[t % w.namespaces.len()], &g.hist.typename, &g.hist.id);
                    w.raw().reference(name.as_str(), **tip, true, "verif").unwrap();
                    updates.push(RefUpdate::Updated { name, old: old.first().copied().unwrap_or(*tip), new: *tip });
                }
                trail.push(json!({"step": step, "op": "fetched issue update", "id": g.hist.id.to_string(), "actions": kinds}));
            }
        } else if choice == 9 && (!issues.is_empty() || !patches.is_empty()) {
            // the object disappears: all its refs are deleted
            let on_patch = !patches.is_empty() && (issues.is_empty() || rng.bool());
            let (t, id): (TypeName, ObjectId) = if on_patch {
                let k = rng.usize(patches.len());
                let g = patches.remove(k);
                objs.patches.retain(|x| *x != g.hist.id);
                (g.hist.typename.clone(), g.hist.id)
            } else {
                let k = rng.usize(issues.len());
                let g = issues.remove(k);
                objs.issues.retain(|x| *x != g.hist.id);
                (g.hist.typename.clone(), g.hist.id)
            };
            let glob = format!("refs/namespaces/*/refs/cobs/{t}/{id}");
            let names: Vec<(String, git2::Oid)> = w.raw().references_glob(&glob).unwrap().filter_map(|r| r.ok()).filter_map(|r| Some((r.name()?.to_string(), r.target()?))).collect();
            for (n, o) in names {
                w.raw().find_reference(&n).unwrap().delete().unwrap();
                updates.push(RefUpdate::Deleted { name: radicle::git::RefString::try_from(n).unwrap(), oid: o.into() });
            }
            trail.push(json!({"step": step, "op": "object removed (refs deleted)", "id": id.to_string()}));
        } else {
            // through the cached high-level API
            let signer = &w.actors[rng.usize(w.ndelegates)];
            let r = guarded(|| -> Result<Value, String> {
                if rng.bool() {
                    let mut pc = patch::Cache::open(Patches::open(&w.repo).map_err(|e| e.to_string())?, store.clone());
                    if objs.patches.is_empty() || rng.chance(1, 3) {
                        let p = pc.create(format!("api patch {step}"), "desc", patch::MergeTarget::Delegates, w.code[0], w.code[1], &[], signer).map_err(|e| e.to_string())?;
                        Ok(json!({"op": "api: patch create", "id": p.id.to_string(), "new_patch": p.id.to_string()}))
                    } else {
                        let pid = *rng.pick(&objs.patches);
                        let mut p = pc.get_mut(&pid).map_err(|e| e.to_string())?;
                        let st = rng.pick(&[patch::Lifecycle::Draft, patch::Lifecycle::Open, patch::Lifecycle::Archived]).clone();
                        p.lifecycle(st, signer).map_err(|e| e.to_string())?;
                        Ok(json!({"op": "api: patch lifecycle", "id": pid.to_string()}))
                    }
                } else {
                    let mut ic = issue::Cache::open(Issues::open(&w.repo).map_err(|e| e.to_string())?, store.clone());
                    if objs.issues.is_empty() || rng.chance(1, 3) {
                        let i = ic.create(format!("api issue {step}"), "desc", &[], &[], [], signer).map_err(|e| e.to_string())?;
                        Ok(json!({"op": "api: issue create", "id": i.id().to_string(), "new_issue": i.id().to_string()}))
                    } else {
                        let iid = *rng.pick(&objs.issues);
                        let mut i = ic.get_mut(&iid).map_err(|e| e.to_string())?;
                        let st = if rng.bool() { issue::State::Open } else { issue::State::Closed { reason: issue::CloseReason::Solved } };
                        i.lifecycle(st, signer).map_err(|e| e.to_string())?;
                        Ok(json!({"op": "api: issue lifecycle", "id": iid.to_string()}))
                    }
                }
            });
            match r {
                Ok(Ok(v)) => {
                    if let Some(p) = v["new_patch"].as_str() {
                        objs.patches.push(p.parse().unwrap());
                    }
                    if let Some(p) = v["new_issue"].as_str() {
                        objs.issues.push(p.parse().unwrap());
                    }
                    rep.count("op.through-cached-api");
                    trail.push(v);
                }
                Ok(Err(e)) => {
                    rep.count("op.cached-api-error(skipped)");
                    trail.push(json!({"op": "api error", "e": e}));
                }
                Err(p) => {
                    rep.violation(&format!("C09/panic/{}", vcommon::panic_site(&p)), json!({"panic": p, "operations": trail}));
                    return;
                }
            }
        }
        if !updates.is_empty() {
            rep.count("op.fetched-update-through-cache_cobs");
            if let Err(e) = radicle_node::worker::verif::cache_cobs(&rid, &updates, &w.repo, &mut store) {
                rep.inconclusive("cache_cobs failed", json!({"e": e.to_string(), "operations": trail}));
                return;
            }
        }
        if !compare_all(rep, &w, &store, &objs, &mut rng, &trail) {
            return;
        }
        // which statuses exist right now
        if let Ok(pd) = patch::Cache::no_cache(&w.repo) {
            use patch::cache::Patches as _;
            if let Ok(c) = pd.counts() {
                if c.open > 0 { statuses.insert("open"); }
                if c.draft > 0 { statuses.insert("draft"); }
                if c.archived > 0 { statuses.insert("archived"); }
                if c.merged > 0 { statuses.insert("merged"); }
            }
        }
    }
    for s in &statuses {
        rep.count(&format!("patch-status-populated.{s}"));
    }
    rep.nontrivial(seed);
    if rep.wants_sample() {
        rep.sample(json!({"operations": trail}));
    }
}

pub fn run(args: &Args) {
    let mut rep = Reporter::new("C09");
    if let Some(path) = &args.replay {
        let w = vcommon::load_replay(path);
        one(&mut rep, w["case_seed"].as_u64().unwrap_or(args.seed), args.thorough);
        rep.finish();
        return;
    }
    for k in 0..args.budget(480, 4_800) {
        one(&mut rep, args.case_seed(k), args.thorough);
    }
    rep.finish();
}
