//! C08 — A patch is merged only by a threshold of agreeing delegates.
use std::collections::BTreeSet;

use radicle::cob::patch::Patch;
use radicle::cob::{ObjectId, TypeName};
use radicle::git::Oid;
use vcommon::{json, Args, Reporter, Rng, Value};

use crate::world::{eval, Snap, World};

#[derive(Clone, Debug)]
struct Op {
    oid: Oid,
    actor: usize,
    parents: Vec<usize>,
    ts: i64,
    actions: Vec<Value>,
}

fn prefix_tips(ops: &[Op], k: usize) -> Vec<Oid> {
    let mut is_parent = vec![false; k];
    for o in &ops[..k] {
        for p in &o.parents {
            is_parent[*p] = true;
        }
    }
    (0..k).filter(|i| !is_parent[*i]).map(|i| ops[i].oid).collect()
}

fn case_json(w: &World, ops: &[Op], head_moves: &[Value]) -> Value {
    json!({"ndelegates": w.ndelegates, "threshold": w.threshold, "code": "0..3 = chain m0<-m1<-m2<-m3, 4 = side commit off m0",
        "code_oids": w.code.iter().map(|c| c.to_string()).collect::<Vec<_>>(),
        "delegate_heads_now": w.heads, "head_moves": head_moves,
        "ops": ops.iter().enumerate().map(|(i, o)| json!({"i": i, "oid": o.oid.to_string(), "actor": o.actor, "parents": o.parents, "ts": o.ts, "actions": o.actions})).collect::<Vec<_>>()})
}

/// Oracle for one evaluated prefix.
fn check_merged(rep: &mut Reporter, w: &World, ops: &[Op], snap: &Snap, head_moves: &[Value]) -> bool {
    let st = &snap.state["state"];
    if st["status"] != "merged" {
        return true;
    }
    rep.count("merged-states-checked");
    let r = st["revision"].as_str().unwrap_or("").to_string();
    let c = st["commit"].as_str().unwrap_or("").to_string();
    let cidx = w.code.iter().position(|x| x.to_string() == c);
    // distinct delegates with a merge of exactly (r, c) anywhere in the surviving history, whose
    // default branch contains c right now
    let mut supporters = BTreeSet::new();
    let mut any_recorded = BTreeSet::new();
    for o in ops.iter().filter(|o| snap.entries.contains(&o.oid)) {
        if o.actor >= w.ndelegates {
            continue;
        }
        for a in &o.actions {
            if a["type"] == "merge" && a["revision"] == r.as_str() && a["commit"] == c.as_str() {
                any_recorded.insert(o.actor);
                if let Some(ci) = cidx {
                    if World::code_is_ancestor_or_equal(ci, w.heads[o.actor]) {
                        supporters.insert(o.actor);
                    }
                }
            }
        }
    }
    if w.threshold >= 2 {
        rep.count("merged-states-checked.threshold>=2");
    }
    if any_recorded.len() < w.threshold {
        rep.violation("C08/merged-with-fewer-agreeing-delegates-than-threshold", json!({"merged": st, "delegates_with_that_merge": any_recorded, "case": case_json(w, ops, head_moves)}));
        return false;
    }
    if supporters.len() < w.threshold {
        rep.violation("C08/merged-commit-not-on-enough-delegates-default-branches", json!({"merged": st, "delegates_with_that_merge": any_recorded, "of-which-branch-contains-commit": supporters, "case": case_json(w, ops, head_moves)}));
        return false;
    }
    true
}

fn one(rep: &mut Reporter, seed: u64, thorough: bool) {
    rep.case(seed);
    let mut rng = Rng::new(seed);
    let nd = 1 + rng.usize(4);
    let threshold = 1 + rng.usize(nd);
    let nactors = nd + 2;
    let mut w = World::new(nd, nactors, threshold, "c08");
    let typename: TypeName = radicle::cob::patch::TYPENAME.clone();
    let author = rng.usize(nactors);
    let mut ops: Vec<Op> = vec![];
    let mut head_moves: Vec<Value> = vec![];
    let root_actions = vec![
        json!({"type": "revision", "description": "root", "base": w.code[0].to_string(), "oid": w.code[1].to_string()}),
        json!({"type": "edit", "title": "t", "target": "delegates"}),
    ];
    let root = w.change(&typename, Some(w.id_head), vec![], vec![], author, false, &root_actions, 1_700_000_000);
    ops.push(Op { oid: root, actor: author, parents: vec![], ts: 1_700_000_000, actions: root_actions });
    let id = ObjectId::from(root);
    let mut revisions: Vec<(Oid, usize)> = vec![(root, author)];
    let ns: Vec<usize> = (0..24).collect();
    w.set_refs(&typename, &id, &prefix_tips(&ops, 1), &ns);
    let Ok(Some(mut prev)) = eval::<Patch>(&w, &typename, &id) else {
        rep.inconclusive("root patch does not evaluate", json!({}));
        return;
    };
    let nops = 4 + rng.usize(if thorough { 20 } else { 12 });
    let ts_mode = rng.below(3);
    let mut saw_merged = false;
    let mut saw_conflict = false;
    // a favourite (revision, commit) pair most delegates agree on
    let fav_commit = 1 + rng.usize(2);
    for _ in 1..nops {
        let i = ops.len();
        let tips: Vec<usize> = {
            let mut is_parent = vec![false; i];
            for o in &ops {
                for p in &o.parents {
                    is_parent[*p] = true;
                }
            }
            (0..i).filter(|j| !is_parent[*j]).collect()
        };
        let parents = if rng.chance(1, 6) { vec![rng.usize(i)] } else if tips.len() > 1 && rng.chance(1, 3) { vec![*rng.pick(&tips)] } else { tips };
        let ts = 1_700_000_000 + match ts_mode { 0 => i as i64 * 10, 1 => i as i64 / 3, _ => rng.below(3) as i64 };
        let (actor, actions): (usize, Vec<Value>) = match rng.below(20) {
            0..=9 => {
                // merge by a delegate (sometimes by a non-delegate)
                let actor = if rng.chance(1, 8) { nd + rng.usize(nactors - nd) } else { rng.usize(nd) };
                let (rev, commit) = if rng.chance(2, 3) { (revisions[0].0, fav_commit) } else { (rng.pick(&revisions).0, rng.usize(w.code.len())) };
                (actor, vec![json!({"type": "merge", "revision": rev.to_string(), "commit": w.code[commit].to_string()})])
            }
            10 | 11 => {
                let actor = rng.usize(nactors);
                let c = rng.usize(w.code.len());
                (actor, vec![json!({"type": "revision", "description": format!("r{i}"), "base": w.code[0].to_string(), "oid": w.code[c].to_string()})])
            }
            12 => {
                // redact a non-root revision by its author or a delegate
                if revisions.len() > 1 {
                    let (r, a) = revisions[1 + rng.usize(revisions.len() - 1)];
                    let actor = if rng.bool() { a } else { rng.usize(nd) };
                    (actor, vec![json!({"type": "revision.redact", "revision": r.to_string()})])
                } else {
                    (author, vec![json!({"type": "lifecycle", "state": {"status": "draft"}})])
                }
            }
            13 => {
                // move a delegate's default branch (not a change; environment event)
                let d = rng.usize(nd);
                let idx = rng.usize(w.code.len());
                w.set_head(d, idx);
                head_moves.push(json!({"before_op": i, "delegate": d, "to_code": idx}));
                rep.count("fed.default-branch-moved");
                // re-evaluate the same prefix under the new branches
                let cur = match eval::<Patch>(&w, &typename, &id) {
                    Ok(Some(c)) => c,
                    _ => return,
                };
                rep.eval();
                if !check_merged(rep, &w, &ops, &cur, &head_moves) {
                    return;
                }
                prev = cur;
                continue;
            }
            _ => {
                // lifecycle by author or delegate (1-2 actions)
                let actor = if rng.bool() { author } else { rng.usize(nd) };
                let n = 1 + rng.usize(2);
                let acts = (0..n).map(|_| json!({"type": "lifecycle", "state": {"status": *rng.pick(&["open", "draft", "archived"])}})).collect();
                (actor, acts)
            }
        };
        let parent_oids: Vec<Oid> = parents.iter().map(|p| ops[*p].oid).collect();
        let oid = w.change(&typename, Some(w.id_head), parent_oids, vec![], actor, false, &actions, ts);
        ops.push(Op { oid, actor, parents, ts, actions: actions.clone() });
        w.set_refs(&typename, &id, &prefix_tips(&ops, i + 1), &ns);
        let cur = match eval::<Patch>(&w, &typename, &id) {
            Ok(Some(c)) => c,
            other => {
                rep.inconclusive("patch evaluation failed", json!({"r": format!("{other:?}")}));
                return;
            }
        };
        rep.eval();
        let accepted = cur.entries.contains(&oid);
        for a in &actions {
            let t = a["type"].as_str().unwrap_or("?");
            rep.count(&format!("fed.{t}"));
            if accepted {
                rep.count(&format!("accepted.{t}"));
                if t == "revision" {
                    revisions.push((oid, actor));
                }
            }
        }
        if !check_merged(rep, &w, &ops, &cur, &head_moves) {
            return;
        }
        if cur.state["state"]["status"] == "merged" {
            saw_merged = true;
        }
        if cur.state["state"]["conflicts"].as_array().map(|a| !a.is_empty()).unwrap_or(false) {
            saw_conflict = true;
        }
        // lifecycle-only change applied last on a merged patch: still merged, same revision/commit
        let lifecycle_only = actions.iter().all(|a| a["type"] == "lifecycle");
        let applied_last = accepted && cur.order.last() == Some(&oid) && cur.entries.len() == prev.entries.len() + 1;
        if lifecycle_only && prev.state["state"]["status"] == "merged" && (applied_last || !accepted) {
            rep.count("lifecycle-on-merged-patch-checked");
            if cur.state["state"] != prev.state["state"] {
                rep.violation("C08/lifecycle-action-moved-merged-patch", json!({"op": i, "before": prev.state["state"], "after": cur.state["state"], "case": case_json(&w, &ops, &head_moves)}));
                return;
            }
        }
        prev = cur;
    }
    if saw_merged {
        rep.count("histories-that-reached-merged");
        rep.nontrivial(seed);
    }
    if saw_conflict {
        rep.count("histories-with-conflicting-merges");
    }
    if rep.wants_sample() && saw_merged && ops.len() > 6 {
        rep.sample(json!({"case": case_json(&w, &ops, &head_moves), "final_state": prev.state["state"], "merges": prev.state["merges"]}));
    }
}

pub fn run(args: &Args) {
    let mut rep = Reporter::new("C08");
    if let Some(path) = &args.replay {
        let w = vcommon::load_replay(path);
        one(&mut rep, w["case_seed"].as_u64().unwrap_or(args.seed), args.thorough);
        rep.finish();
        return;
    }
    for k in 0..args.budget(3_200, 32_000) {
        one(&mut rep, args.case_seed(k), args.thorough);
    }
    rep.finish();
}
