//! History generators for issues and patches (used by C05–C08).
use std::collections::BTreeSet;

use radicle::cob::{ObjectId, TypeName};
use radicle::git::Oid;
use vcommon::{json, Rng, Value};

use crate::world::{did_json, random_oid, World};

#[derive(Clone, Debug)]
pub struct OpRec {
    pub oid: Oid,
    pub actor: usize,
    pub parents: Vec<usize>,
    pub ts: i64,
    pub actions: Vec<Value>,
    pub bad_sig: bool,
    /// ground truth: this change is certainly rejected (bad signature or an action the type rejects
    /// unconditionally), independent of evaluation order
    pub sure_reject: bool,
    /// the sure-reject change carries an earlier action that would be acceptable on its own
    pub partial_ok: bool,
    pub kinds: Vec<&'static str>,
}

pub struct Hist {
    pub typename: TypeName,
    pub id: ObjectId,
    pub ops: Vec<OpRec>,
    pub author: usize,
}

impl Hist {
    pub fn json(&self, w: &World) -> Value {
        json!({
            "type": self.typename.to_string(),
            "object": self.id.to_string(),
            "ndelegates": w.ndelegates, "threshold": w.threshold, "object_author": self.author,
            "ops": self.ops.iter().enumerate().map(|(i, o)| json!({
                "i": i, "oid": o.oid.to_string(), "actor": o.actor, "parents": o.parents, "ts": o.ts,
                "actions": o.actions, "bad_sig": o.bad_sig, "sure_reject": o.sure_reject})).collect::<Vec<_>>()
        })
    }
    /// Tips of the first `k` ops (a parent-closed set since parents always precede).
    pub fn prefix_tips(&self, k: usize) -> Vec<Oid> {
        let mut is_parent = vec![false; k];
        for o in &self.ops[..k] {
            for p in &o.parents {
                is_parent[*p] = true;
            }
        }
        (0..k).filter(|i| !is_parent[*i]).map(|i| self.ops[i].oid).collect()
    }
    /// Indices of ops that are sure-rejected or descend from one.
    pub fn doomed(&self) -> BTreeSet<usize> {
        let mut d = BTreeSet::new();
        for (i, o) in self.ops.iter().enumerate() {
            if o.sure_reject || o.parents.iter().any(|p| d.contains(p)) {
                d.insert(i);
            }
        }
        d
    }
    pub fn index_of(&self, oid: &Oid) -> Option<usize> {
        self.ops.iter().position(|o| o.oid == *oid)
    }
    /// Number of pairs of ops that are causally unordered.
    pub fn has_concurrency(&self) -> bool {
        let n = self.ops.len();
        let mut anc: Vec<BTreeSet<usize>> = vec![BTreeSet::new(); n];
        for i in 0..n {
            for p in self.ops[i].parents.clone() {
                let a = anc[p].clone();
                anc[i].insert(p);
                anc[i].extend(a);
            }
        }
        for i in 0..n {
            for j in 0..i {
                if !anc[i].contains(&j) {
                    return true;
                }
            }
        }
        false
    }
    pub fn has_timestamp_tie(&self) -> bool {
        let mut seen = BTreeSet::new();
        self.ops.iter().any(|o| !seen.insert(o.ts))
    }
}

#[derive(Clone, Debug)]
pub struct Knobs {
    pub nops: usize,
    /// 0: strictly increasing, 1: many ties, 2: random small range
    pub ts_mode: u8,
    /// per-mille probability that a change is a multi-action change ending in a sure-reject action
    pub p_multi_reject: u64,
    /// per-mille probability of an invalid signature
    pub p_bad_sig: u64,
    /// per-mille probability to fork off a random earlier op instead of extending the tips
    pub p_branch: u64,
    /// per-mille probability to hang a change off a doomed op
    pub p_child_of_doomed: u64,
    /// allow actions by actors that are not entitled to them (C07)
    pub unprivileged: bool,
}

struct Tracker {
    /// (comment id = op oid, author actor, op index)
    comments: Vec<(Oid, usize, usize)>,
    fresh: u64,
}

fn pick_ts(rng: &mut Rng, k: &Knobs, i: usize) -> i64 {
    let base = 1_700_000_000i64;
    match k.ts_mode {
        0 => base + i as i64 * 10 + 1,
        1 => base + (i as i64 / 3),
        _ => base + rng.below(4) as i64,
    }
}

fn pick_parents(rng: &mut Rng, k: &Knobs, ops: &[OpRec], doomed: &BTreeSet<usize>) -> Vec<usize> {
    let n = ops.len();
    // tips of the non-doomed ops
    let mut is_parent = vec![false; n];
    for (i, o) in ops.iter().enumerate() {
        if doomed.contains(&i) {
            continue;
        }
        for p in &o.parents {
            is_parent[*p] = true;
        }
    }
    let tips: Vec<usize> = (0..n).filter(|i| !doomed.contains(i) && !is_parent[*i]).collect();
    if !doomed.is_empty() && rng.below(1000) < k.p_child_of_doomed {
        let d: Vec<usize> = doomed.iter().copied().collect();
        let mut ps = vec![*rng.pick(&d)];
        if rng.bool() {
            ps.push(*rng.pick(&tips));
        }
        ps.sort();
        ps.dedup();
        return ps;
    }
    if rng.below(1000) < k.p_branch {
        let alive: Vec<usize> = (0..n).filter(|i| !doomed.contains(i)).collect();
        return vec![*rng.pick(&alive)];
    }
    // extend: all tips (merge) or one of them
    if tips.len() > 1 && rng.chance(1, 2) {
        return vec![*rng.pick(&tips)];
    }
    tips
}

fn fresh_did(rng: &mut Rng) -> Value {
    let mut b = [0u8; 32];
    rng.fill(&mut b);
    json!(radicle::identity::Did::from(radicle::crypto::PublicKey::from(b)).to_string())
}

fn title(t: &mut Tracker) -> String {
    t.fresh += 1;
    format!("title-{}", t.fresh)
}

/// One acceptable-looking issue action for `actor`; returns (action, kind).
fn issue_action(w: &World, rng: &mut Rng, t: &mut Tracker, actor: usize, author: usize, k: &Knobs) -> (Value, &'static str) {
    let is_delegate = actor < w.ndelegates;
    let privileged_ok = is_delegate || k.unprivileged;
    let own: Vec<&(Oid, usize, usize)> = t.comments.iter().filter(|c| c.1 == actor).collect();
    loop {
        match rng.below(12) {
            0 | 1 => {
                t.fresh += 1;
                let reply = if rng.bool() { Some(rng.pick(&t.comments).0) } else { None };
                let mut a = json!({"type": "comment", "body": format!("body-{}", t.fresh)});
                if let Some(r) = reply {
                    a["replyTo"] = json!(r.to_string());
                }
                return (a, "comment");
            }
            2 => {
                // edit a comment: own, or (unprivileged mode / delegate) somebody else's
                let target = if !own.is_empty() && (rng.chance(2, 3) || !privileged_ok) { Some(own[rng.usize(own.len())].0) } else if privileged_ok { Some(rng.pick(&t.comments).0) } else { None };
                if let Some(id) = target {
                    t.fresh += 1;
                    return (json!({"type": "comment.edit", "id": id.to_string(), "body": format!("edited-{}", t.fresh), "embeds": []}), "comment.edit");
                }
            }
            3 => {
                let cands: Vec<Oid> = if privileged_ok && rng.bool() { t.comments.iter().skip(1).map(|c| c.0).collect() } else { own.iter().filter(|c| c.2 != 0).map(|c| c.0).collect() };
                if !cands.is_empty() && rng.chance(1, 2) {
                    return (json!({"type": "comment.redact", "id": rng.pick(&cands).to_string()}), "comment.redact");
                }
            }
            4 => {
                let id = rng.pick(&t.comments).0;
                return (json!({"type": "comment.react", "id": id.to_string(), "reaction": "👍", "active": rng.chance(3, 4)}), "comment.react");
            }
            5 | 6 => {
                if actor == author || privileged_ok {
                    return (json!({"type": "edit", "title": title(t)}), "edit");
                }
            }
            7 => {
                if actor == author || privileged_ok {
                    let st = if rng.bool() { json!({"status": "open"}) } else { json!({"status": "closed", "reason": if rng.bool() { "solved" } else { "other" }}) };
                    return (json!({"type": "lifecycle", "state": st}), "lifecycle");
                }
            }
            8 | 9 => {
                if privileged_ok {
                    let n = rng.usize(3);
                    let ds: Vec<Value> = (0..n).map(|_| if rng.bool() { did_json(&w.actors[rng.usize(w.actors.len())]) } else { fresh_did(rng) }).collect();
                    return (json!({"type": "assign", "assignees": ds}), "assign");
                }
            }
            _ => {
                if privileged_ok {
                    let n = rng.usize(3);
                    t.fresh += 1;
                    let ls: Vec<String> = (0..n).map(|j| format!("l{}", (t.fresh + j as u64) % 5)).collect();
                    return (json!({"type": "label", "labels": ls}), "label");
                }
            }
        }
    }
}

/// An issue action that is rejected no matter when it is applied, for this actor.
fn issue_sure_reject(w: &World, rng: &mut Rng, t: &mut Tracker, actor: usize, author: usize, after_comment: bool) -> (Value, &'static str) {
    let is_delegate = actor < w.ndelegates;
    loop {
        match rng.below(5) {
            0 => return (json!({"type": "edit", "title": format!("bad\ntitle-{}", { t.fresh += 1; t.fresh })}), "reject:title-newline"),
            1 => return (json!({"type": "comment", "body": "reply to nothing", "replyTo": random_oid(rng).to_string()}), "reject:reply-to-missing"),
            // (for a delegate this reaches `thread::edit`, which records the op in the timeline before
            // failing; after another comment action of the same op that trips heartwood's own
            // debug assertion, so the combination is not generated)
            2 if !after_comment => return (json!({"type": "comment.edit", "id": random_oid(rng).to_string(), "body": "x", "embeds": []}), "reject:edit-missing-comment"),
            3 if !is_delegate => return (json!({"type": "assign", "assignees": [fresh_did(rng)]}), "reject:unauthorized-assign"),
            4 if !is_delegate => {
                t.fresh += 1;
                return (json!({"type": "label", "labels": [format!("fresh-{}", t.fresh)]}), "reject:unauthorized-label");
            }
            _ => {
                let _ = author;
            }
        }
    }
}

/// Incremental issue-history generator: `step` writes one more change; the caller may mark it
/// doomed (e.g. after observing that the real evaluator rejected it) so that later changes do
/// not build on it by accident.
pub struct IssueGen {
    pub hist: Hist,
    t: Tracker,
    pub doomed: BTreeSet<usize>,
    pub k: Knobs,
}

impl IssueGen {
    pub fn new(w: &World, rng: &mut Rng, k: &Knobs) -> IssueGen {
        let typename: TypeName = radicle::cob::issue::TYPENAME.clone();
        let author = rng.usize(w.actors.len());
        let mut t = Tracker { comments: vec![], fresh: rng.below(1 << 40) };
        // root: comment + title (+ label when the author is a delegate)
        let mut actions = vec![json!({"type": "comment", "body": "root body"}), json!({"type": "edit", "title": title(&mut t)})];
        if author < w.ndelegates && rng.bool() {
            actions.push(json!({"type": "label", "labels": ["l1"]}));
        }
        let ts0 = pick_ts(rng, k, 0);
        let root = w.change(&typename, Some(w.id_head), vec![], vec![], author, false, &actions, ts0);
        let ops = vec![OpRec { oid: root, actor: author, parents: vec![], ts: ts0, actions, bad_sig: false, sure_reject: false, partial_ok: false, kinds: vec!["root"] }];
        t.comments.push((root, author, 0));
        let id = ObjectId::from(root);
        IssueGen { hist: Hist { typename, id, ops, author }, t, doomed: BTreeSet::new(), k: k.clone() }
    }

    /// The last written change turned out to be rejected: forget what it would have created.
    pub fn mark_doomed(&mut self, idx: usize) {
        self.doomed.insert(idx);
        self.t.comments.retain(|c| c.2 != idx);
    }

    pub fn step(&mut self, w: &World, rng: &mut Rng) -> usize {
        let k = self.k.clone();
        let i = self.hist.ops.len();
        let author = self.hist.author;
        let actor = rng.usize(w.actors.len());
        let parents = pick_parents(rng, &k, &self.hist.ops, &self.doomed);
        let ts = pick_ts(rng, &k, i);
        let bad_sig = rng.below(1000) < k.p_bad_sig;
        let mut actions = vec![];
        let mut kinds = vec![];
        let mut sure = bad_sig;
        let mut partial_ok = false;
        let roll = rng.below(1000);
        if roll < k.p_multi_reject {
            // 1-2 acceptable actions followed by a sure reject (never two comment-producing ones)
            let n_ok = 1 + rng.usize(2);
            let mut produced_comment = false;
            for _ in 0..n_ok {
                let (a, kind) = issue_action(w, rng, &mut self.t, actor, author, &Knobs { unprivileged: false, ..k.clone() });
                let is_comment = kind.starts_with("comment");
                if is_comment && produced_comment {
                    continue;
                }
                produced_comment |= is_comment;
                actions.push(a);
                kinds.push(kind);
                partial_ok = true;
            }
            let (a, kind) = issue_sure_reject(w, rng, &mut self.t, actor, author, produced_comment);
            actions.push(a);
            kinds.push(kind);
            sure = true;
        } else if roll < k.p_multi_reject + k.p_multi_reject / 2 {
            let (a, kind) = issue_sure_reject(w, rng, &mut self.t, actor, author, false);
            actions.push(a);
            kinds.push(kind);
            sure = true;
        } else {
            let (a, kind) = issue_action(w, rng, &mut self.t, actor, author, &k);
            actions.push(a);
            kinds.push(kind);
        }
        let parent_oids: Vec<Oid> = parents.iter().map(|p| self.hist.ops[*p].oid).collect();
        let oid = w.change(&self.hist.typename, Some(w.id_head), parent_oids, vec![], actor, bad_sig, &actions, ts);
        let child_of_doomed = parents.iter().any(|p| self.doomed.contains(p));
        if sure || child_of_doomed {
            self.doomed.insert(i);
        } else if kinds.contains(&"comment") {
            self.t.comments.push((oid, actor, i));
        }
        self.hist.ops.push(OpRec { oid, actor, parents, ts, actions, bad_sig, sure_reject: sure, partial_ok, kinds });
        i
    }
}

pub fn gen_issue(w: &World, rng: &mut Rng, k: &Knobs) -> Hist {
    let mut g = IssueGen::new(w, rng, k);
    for _ in 1..k.nops {
        g.step(w, rng);
    }
    g.hist
}

// ------------------------------------------------------------------------------------------------
// Patches

struct PTracker {
    /// (revision id, author, op index)
    revisions: Vec<(Oid, usize, usize)>,
    /// (review id, revision, author, op index)
    reviews: Vec<(Oid, Oid, usize, usize)>,
    /// (revision, comment id, author, op index)
    rcomments: Vec<(Oid, Oid, usize, usize)>,
    /// (review, comment id, author, op index)
    vcomments: Vec<(Oid, Oid, usize, usize)>,
    fresh: u64,
}

fn patch_action(w: &World, rng: &mut Rng, t: &mut PTracker, actor: usize, author: usize, k: &Knobs) -> (Value, &'static str) {
    let is_delegate = actor < w.ndelegates;
    let privileged_ok = is_delegate || k.unprivileged;
    loop {
        t.fresh += 1;
        let f = t.fresh;
        match rng.below(20) {
            0 => {
                let c = rng.usize(w.code.len());
                return (json!({"type": "revision", "description": format!("rev-{f}"), "base": w.code[0].to_string(), "oid": w.code[c].to_string()}), "revision");
            }
            1 => {
                let own: Vec<Oid> = t.revisions.iter().filter(|r| r.1 == actor || privileged_ok).map(|r| r.0).collect();
                if !own.is_empty() {
                    return (json!({"type": "revision.edit", "revision": rng.pick(&own).to_string(), "description": format!("rev-edit-{f}")}), "revision.edit");
                }
            }
            2 => {
                let own: Vec<Oid> = t.revisions.iter().skip(1).filter(|r| r.1 == actor || privileged_ok).map(|r| r.0).collect();
                if !own.is_empty() && rng.chance(1, 2) {
                    return (json!({"type": "revision.redact", "revision": rng.pick(&own).to_string()}), "revision.redact");
                }
            }
            3 | 4 => {
                let r = rng.pick(&t.revisions).0;
                let mut a = json!({"type": "revision.comment", "revision": r.to_string(), "body": format!("rc-{f}")});
                let replies: Vec<Oid> = t.rcomments.iter().filter(|c| c.0 == r).map(|c| c.1).collect();
                if !replies.is_empty() && rng.bool() {
                    a["replyTo"] = json!(rng.pick(&replies).to_string());
                }
                return (a, "revision.comment");
            }
            5 => {
                let cands: Vec<&(Oid, Oid, usize, usize)> = t.rcomments.iter().filter(|c| c.2 == actor || privileged_ok).collect();
                if !cands.is_empty() {
                    let c = cands[rng.usize(cands.len())];
                    return (json!({"type": "revision.comment.edit", "revision": c.0.to_string(), "comment": c.1.to_string(), "body": format!("rce-{f}"), "embeds": []}), "revision.comment.edit");
                }
            }
            6 => {
                let cands: Vec<&(Oid, Oid, usize, usize)> = t.rcomments.iter().filter(|c| c.2 == actor || privileged_ok).collect();
                if !cands.is_empty() && rng.chance(1, 2) {
                    let c = cands[rng.usize(cands.len())];
                    return (json!({"type": "revision.comment.redact", "revision": c.0.to_string(), "comment": c.1.to_string()}), "revision.comment.redact");
                }
            }
            7 | 8 => {
                let r = rng.pick(&t.revisions).0;
                return (json!({"type": "review", "revision": r.to_string(), "summary": format!("sum-{f}"), "verdict": if rng.bool() { "accept" } else { "reject" }}), "review");
            }
            9 => {
                let cands: Vec<&(Oid, Oid, usize, usize)> = t.reviews.iter().filter(|c| c.2 == actor || privileged_ok).collect();
                if !cands.is_empty() {
                    let c = cands[rng.usize(cands.len())];
                    return (json!({"type": "review.edit", "review": c.0.to_string(), "summary": format!("sum-edit-{f}"), "verdict": "accept"}), "review.edit");
                }
            }
            10 => {
                let cands: Vec<&(Oid, Oid, usize, usize)> = t.reviews.iter().filter(|c| c.2 == actor || privileged_ok).collect();
                if !cands.is_empty() && rng.chance(1, 2) {
                    let c = cands[rng.usize(cands.len())];
                    return (json!({"type": "review.redact", "review": c.0.to_string()}), "review.redact");
                }
            }
            11 => {
                if !t.reviews.is_empty() {
                    let r = rng.pick(&t.reviews).0;
                    return (json!({"type": "review.comment", "review": r.to_string(), "body": format!("vc-{f}")}), "review.comment");
                }
            }
            12 => {
                let cands: Vec<&(Oid, Oid, usize, usize)> = t.vcomments.iter().filter(|c| c.2 == actor || privileged_ok).collect();
                if !cands.is_empty() {
                    let c = cands[rng.usize(cands.len())];
                    if rng.bool() {
                        return (json!({"type": "review.comment.edit", "review": c.0.to_string(), "comment": c.1.to_string(), "body": format!("vce-{f}"), "embeds": []}), "review.comment.edit");
                    } else {
                        return (json!({"type": "review.comment.redact", "review": c.0.to_string(), "comment": c.1.to_string()}), "review.comment.redact");
                    }
                }
            }
            13 | 14 => {
                if actor == author || privileged_ok {
                    return (json!({"type": "edit", "title": format!("ptitle-{f}"), "target": "delegates"}), "edit");
                }
            }
            15 => {
                if actor == author || privileged_ok {
                    let st = *rng.pick(&["open", "draft", "archived"]);
                    return (json!({"type": "lifecycle", "state": {"status": st}}), "lifecycle");
                }
            }
            16 => {
                if privileged_ok {
                    let n = rng.usize(3);
                    let ds: Vec<Value> = (0..n).map(|_| did_json(&w.actors[rng.usize(w.actors.len())])).collect();
                    return (json!({"type": "assign", "assignees": ds}), "assign");
                }
            }
            17 => {
                if privileged_ok {
                    let n = rng.usize(3);
                    let ls: Vec<String> = (0..n).map(|j| format!("l{}", (f + j as u64) % 5)).collect();
                    return (json!({"type": "label", "labels": ls}), "label");
                }
            }
            _ => {
                if privileged_ok {
                    let r = rng.pick(&t.revisions).0;
                    let c = rng.usize(w.code.len());
                    return (json!({"type": "merge", "revision": r.to_string(), "commit": w.code[c].to_string()}), "merge");
                }
            }
        }
    }
}

fn patch_sure_reject(w: &World, rng: &mut Rng, t: &mut PTracker, actor: usize) -> (Value, &'static str) {
    let is_delegate = actor < w.ndelegates;
    loop {
        t.fresh += 1;
        match rng.below(5) {
            0 => return (json!({"type": "revision.edit", "revision": random_oid(rng).to_string(), "description": "x"}), "reject:edit-missing-revision"),
            1 => return (json!({"type": "revision.comment", "revision": random_oid(rng).to_string(), "body": "x"}), "reject:comment-on-missing-revision"),
            2 if !is_delegate => return (json!({"type": "merge", "revision": t.revisions[0].0.to_string(), "commit": w.code[1].to_string()}), "reject:unauthorized-merge"),
            3 if !is_delegate => return (json!({"type": "assign", "assignees": [fresh_did(rng)]}), "reject:unauthorized-assign"),
            4 if !is_delegate => return (json!({"type": "label", "labels": [format!("fresh-{}", t.fresh)]}), "reject:unauthorized-label"),
            _ => {}
        }
    }
}

pub struct PatchGen {
    pub hist: Hist,
    t: PTracker,
    pub doomed: BTreeSet<usize>,
    pub k: Knobs,
}

impl PatchGen {
    pub fn new(w: &World, rng: &mut Rng, k: &Knobs) -> PatchGen {
        let typename: TypeName = radicle::cob::patch::TYPENAME.clone();
        let author = rng.usize(w.actors.len());
        let mut t = PTracker { revisions: vec![], reviews: vec![], rcomments: vec![], vcomments: vec![], fresh: rng.below(1 << 40) };
        let actions = vec![
            json!({"type": "revision", "description": "root revision", "base": w.code[0].to_string(), "oid": w.code[1].to_string()}),
            json!({"type": "edit", "title": "root title", "target": "delegates"}),
        ];
        let ts0 = pick_ts(rng, k, 0);
        let root = w.change(&typename, Some(w.id_head), vec![], vec![], author, false, &actions, ts0);
        let ops = vec![OpRec { oid: root, actor: author, parents: vec![], ts: ts0, actions, bad_sig: false, sure_reject: false, partial_ok: false, kinds: vec!["root"] }];
        t.revisions.push((root, author, 0));
        PatchGen { hist: Hist { typename, id: ObjectId::from(root), ops, author }, t, doomed: BTreeSet::new(), k: k.clone() }
    }

    pub fn mark_doomed(&mut self, idx: usize) {
        self.doomed.insert(idx);
        self.t.revisions.retain(|c| c.2 != idx);
        self.t.reviews.retain(|c| c.3 != idx);
        self.t.rcomments.retain(|c| c.3 != idx);
        self.t.vcomments.retain(|c| c.3 != idx);
    }

    fn track(&mut self, oid: Oid, actor: usize, i: usize, a: &Value, kind: &str) {
        let get = |k: &str| -> Option<Oid> { a[k].as_str().and_then(|s| s.parse::<Oid>().ok()) };
        match kind {
            "revision" => self.t.revisions.push((oid, actor, i)),
            "review" => self.t.reviews.push((oid, get("revision").unwrap(), actor, i)),
            "revision.comment" => self.t.rcomments.push((get("revision").unwrap(), oid, actor, i)),
            "review.comment" => self.t.vcomments.push((get("review").unwrap(), oid, actor, i)),
            _ => {}
        }
    }

    pub fn step(&mut self, w: &World, rng: &mut Rng) -> usize {
        let k = self.k.clone();
        let i = self.hist.ops.len();
        let author = self.hist.author;
        let actor = rng.usize(w.actors.len());
        let parents = pick_parents(rng, &k, &self.hist.ops, &self.doomed);
        let ts = pick_ts(rng, &k, i);
        let bad_sig = rng.below(1000) < k.p_bad_sig;
        let mut actions = vec![];
        let mut kinds = vec![];
        let mut sure = bad_sig;
        let mut partial_ok = false;
        let roll = rng.below(1000);
        let produces = |k: &str| matches!(k, "revision" | "review" | "revision.comment" | "review.comment" | "revision.comment.edit" | "revision.comment.redact" | "review.comment.edit" | "review.comment.redact");
        if roll < k.p_multi_reject {
            let n_ok = 1 + rng.usize(2);
            let mut produced = false;
            for _ in 0..n_ok {
                let (a, kind) = patch_action(w, rng, &mut self.t, actor, author, &Knobs { unprivileged: false, ..k.clone() });
                if produces(kind) && produced {
                    continue;
                }
                produced |= produces(kind);
                actions.push(a);
                kinds.push(kind);
                partial_ok = true;
            }
            let (a, kind) = patch_sure_reject(w, rng, &mut self.t, actor);
            actions.push(a);
            kinds.push(kind);
            sure = true;
        } else if roll < k.p_multi_reject + k.p_multi_reject / 2 {
            let (a, kind) = patch_sure_reject(w, rng, &mut self.t, actor);
            actions.push(a);
            kinds.push(kind);
            sure = true;
        } else {
            let (a, kind) = patch_action(w, rng, &mut self.t, actor, author, &k);
            actions.push(a);
            kinds.push(kind);
        }
        let parent_oids: Vec<Oid> = parents.iter().map(|p| self.hist.ops[*p].oid).collect();
        let oid = w.change(&self.hist.typename, Some(w.id_head), parent_oids, vec![], actor, bad_sig, &actions, ts);
        let child_of_doomed = parents.iter().any(|p| self.doomed.contains(p));
        if sure || child_of_doomed {
            self.doomed.insert(i);
        } else {
            for (a, kd) in actions.clone().iter().zip(kinds.clone()) {
                self.track(oid, actor, i, a, kd);
            }
        }
        self.hist.ops.push(OpRec { oid, actor, parents, ts, actions, bad_sig, sure_reject: sure, partial_ok, kinds });
        i
    }
}

pub fn gen_patch(w: &World, rng: &mut Rng, k: &Knobs) -> Hist {
    let mut g = PatchGen::new(w, rng, k);
    for _ in 1..k.nops {
        g.step(w, rng);
    }
    g.hist
}
