fn main() {}
