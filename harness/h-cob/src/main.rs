//! Monitors over collaborative objects (real storage, real evaluators): C04–C09.
mod c04;
mod c05;
mod c06;
mod c07;
mod c08;
mod c09;
mod gen;
mod world;

fn main() {
    vcommon::install_panic_hook();
    let args = vcommon::Args::parse();
    match args.prop.as_str() {
        "C04" => c04::run(&args),
        "C05" => c05::run(&args),
        "C06" => c06::run(&args),
        "C07" => c07::run(&args),
        "C08" => c08::run(&args),
        "C09" => c09::run(&args),
        p => {
            eprintln!("h-cob: unknown property {p}");
            std::process::exit(2);
        }
    }
}
