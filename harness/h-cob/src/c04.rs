//! C04 — Identity revisions need a majority of valid delegate signatures.
//!
//! Histories of identity changes are written with the low-level change writer (any parents, any
//! signer, valid / invalid / foreign signatures) and evaluated by the real `Identity` evaluator at
//! every prefix. The oracle re-verifies signatures itself and does its own majority arithmetic
//! over the public accessors of the evaluated `Identity`.
use std::collections::BTreeSet;

use radicle::cob::identity::{Identity, Verdict, TYPENAME};
use radicle::cob::{Embed, ObjectId};
use radicle::crypto::PublicKey;
use signature::Signer as _;
use radicle::git::Oid;
use radicle::identity::Doc;
use vcommon::{json, Args, Reporter, Rng, Value};

use crate::world::{did, eval_typed, strip, World};

#[derive(Clone, Debug)]
struct Op {
    oid: Oid,
    actor: usize,
    parents: Vec<usize>,
    ts: i64,
    actions: Vec<Value>,
    note: Vec<String>,
}

struct Case {
    ops: Vec<Op>,
    nd: usize,
    threshold: usize,
    nactors: usize,
}

impl Case {
    fn json(&self) -> Value {
        json!({"initial_delegates": self.nd, "threshold": self.threshold, "actors": self.nactors,
            "note": "op 0 is the root written by Repository::init; the last actor is never part of any document",
            "ops": self.ops.iter().enumerate().map(|(i, o)| json!({"i": i, "oid": o.oid.to_string(), "actor": o.actor, "parents": o.parents, "ts": o.ts, "actions": o.actions, "note": o.note})).collect::<Vec<_>>()})
    }
    fn prefix_tips(&self, k: usize) -> Vec<Oid> {
        let mut is_parent = vec![false; k];
        for o in &self.ops[..k] {
            for p in &o.parents {
                is_parent[*p] = true;
            }
        }
        (0..k).filter(|i| !is_parent[*i]).map(|i| self.ops[i].oid).collect()
    }
}

/// Own check of one adopted revision: number of valid accepting signatures by delegates of `parent`.
fn valid_signatures(rev: &radicle::cob::identity::Revision, parent_doc: &Doc) -> usize {
    let mut seen: BTreeSet<PublicKey> = BTreeSet::new();
    for (key, verdict) in rev.verdicts() {
        if let Verdict::Accept(sig) = verdict {
            let is_delegate = parent_doc.delegates().iter().any(|d| **d == *key);
            if is_delegate && key.verify(rev.blob.as_bytes(), sig).is_ok() {
                seen.insert(*key);
            }
        }
    }
    seen.len()
}

fn check_state(rep: &mut Reporter, case: &Case, k: usize, id: &Identity) -> bool {
    // (1) + (3): walk current -> root
    let mut cur = id.current;
    let mut chain = BTreeSet::new();
    let mut steps = 0;
    loop {
        chain.insert(cur);
        let Some(rev) = id.revision(&cur) else {
            rep.violation("C04/accepted-revision-missing-or-redacted", json!({"prefix": k, "revision": cur.to_string(), "case": case.json()}));
            return false;
        };
        if rev.state != radicle::cob::identity::State::Accepted {
            rep.violation("C04/revision-on-current-chain-not-accepted", json!({"prefix": k, "revision": cur.to_string(), "state": rev.state.to_string(), "case": case.json()}));
            return false;
        }
        let Some(parent) = rev.parent else {
            if cur != id.root {
                rep.violation("C04/current-chain-does-not-end-at-root", json!({"prefix": k, "case": case.json()}));
                return false;
            }
            break;
        };
        let Some(prev) = id.revision(&parent) else {
            rep.violation("C04/accepted-revision-missing-or-redacted", json!({"prefix": k, "revision": parent.to_string(), "case": case.json()}));
            return false;
        };
        let need = prev.doc.delegates().len() / 2 + 1;
        let have = valid_signatures(rev, &prev.doc);
        rep.count("adoptions-checked");
        if prev.doc.delegates().len() >= 3 {
            rep.count("adoptions-checked.with-3+-delegates");
        }
        if have < need {
            rep.violation(
                "C04/adopted-with-fewer-valid-delegate-signatures-than-majority",
                json!({"prefix": k, "revision": cur.to_string(), "valid_signatures": have, "majority_needed": need, "delegates_of_replaced_doc": prev.doc.delegates().len(), "case": case.json()}),
            );
            return false;
        }
        cur = parent;
        steps += 1;
        if steps > 1000 {
            rep.violation("C04/parent-cycle", json!({"case": case.json()}));
            return false;
        }
    }
    // every accepted revision lies on the chain (an accepted one was never replaced by a non-successor)
    for rev in id.revisions() {
        if rev.state == radicle::cob::identity::State::Accepted && !chain.contains(&rev.id) {
            rep.violation("C04/accepted-revision-replaced-by-non-successor", json!({"prefix": k, "revision": rev.id.to_string(), "case": case.json()}));
            return false;
        }
    }
    true
}

/// Generate (and, with `checks`, judge) one identity history. Returns the world and the changes
/// written so that C06 can run its self-differential on the same kind of history.
pub fn one(rep: &mut Reporter, seed: u64, thorough: bool, checks: bool) -> Option<(World, Vec<(Oid, Vec<usize>)>)> {
    let r = one_inner(rep, seed, thorough, checks);
    r.map(|(w, c)| (w, c.ops.iter().map(|o| (o.oid, o.parents.clone())).collect()))
}

fn one_inner(rep: &mut Reporter, seed: u64, thorough: bool, checks: bool) -> Option<(World, Case)> {
    rep.case(seed);
    let mut rng = Rng::new(seed);
    let nd = 1 + rng.usize(5);
    let nactors = nd + 3; // nd delegates, 2 candidates, 1 pure stranger
    let stranger = nactors - 1;
    let threshold = 1 + rng.usize(nd);
    let w = World::new(nd, nactors, threshold, "c04");
    let typename = TYPENAME.clone();
    let oid0 = w.id_head;
    let object = ObjectId::from(oid0);
    let mut case = Case { ops: vec![Op { oid: oid0, actor: 0, parents: vec![], ts: 0, actions: vec![], note: vec!["root".into()] }], nd, threshold, nactors };
    let ns: Vec<usize> = (0..24).collect();
    let nops = 3 + rng.usize(if thorough { 22 } else { 12 });
    let multi_ok = !cfg!(debug_assertions); // heartwood debug-asserts on multi-action identity ops
    let ts_mode = rng.below(3);
    // per-case hostility: 0 = mostly honest flows (so that adoptions happen), 2 = mostly hostile
    let hostility = rng.below(3);
    let hostile = |rng: &mut Rng, base: u64| -> bool { rng.below(100) < base * (1 + hostility * 2) };
    // evaluated state of the previous prefix
    w.set_refs(&typename, &object, &case.prefix_tips(1), &ns);
    let Ok(Some((mut prev, mut prev_snap))) = eval_typed::<Identity>(&w, &typename, &object) else {
        rep.inconclusive("root identity does not evaluate", json!({}));
        return None;
    };
    rep.eval();
    let mut fresh = 0u64;
    let mut nontrivial = false;
    let mut doomed: BTreeSet<usize> = BTreeSet::new();
    for _ in 1..nops {
        // ---- choose actor
        let cur_doc = prev.current().doc.clone();
        let cur_delegates: Vec<usize> = (0..nactors).filter(|a| cur_doc.is_delegate(&did(&w.actors[*a]))).collect();
        let actor = if hostile(&mut rng, 5) { stranger } else if hostile(&mut rng, 5) { rng.usize(nactors) } else { *rng.pick(&cur_delegates) };
        // ---- parents: tips, or fork
        let i = case.ops.len();
        let tips: Vec<usize> = {
            let mut is_parent = vec![false; i];
            for (j, o) in case.ops.iter().enumerate() {
                if doomed.contains(&j) {
                    continue;
                }
                for p in &o.parents {
                    is_parent[*p] = true;
                }
            }
            (0..i).filter(|j| !is_parent[*j] && !doomed.contains(j)).collect()
        };
        let parents: Vec<usize> = if hostile(&mut rng, 5) { vec![rng.usize(i)] } else if tips.len() > 1 && rng.chance(1, 3) { vec![*rng.pick(&tips)] } else { tips.clone() };
        let ts = 1_700_000_000 + match ts_mode { 0 => case.ops.len() as i64 * 10, 1 => case.ops.len() as i64 / 3, _ => rng.below(3) as i64 };
        // ---- action(s)
        let revs: Vec<radicle::cob::identity::Revision> = prev.revisions().cloned().collect();
        let active: Vec<&radicle::cob::identity::Revision> = revs.iter().filter(|r| r.is_active()).collect();
        let nact = if multi_ok && rng.chance(1, 6) { 2 } else { 1 };
        let mut actions = vec![];
        let mut note = vec![];
        let mut embeds: Vec<Embed<Oid>> = vec![];
        for _ in 0..nact {
            fresh += 1;
            let choice = if active.is_empty() { if hostile(&mut rng, 6) { 8 + rng.below(4) } else { 0 } } else if hostile(&mut rng, 6) { 8 + rng.below(4) } else if rng.chance(1, 4) { 0 } else { 5 };
            if choice <= 3 {
                // propose a revision: edit the current document
                let base = if hostile(&mut rng, 4) { rng.pick(&revs).clone() } else { prev.current().clone() };
                let cand_a = nd;
                let cand_b = nd + 1;
                let f = fresh;
                let edited = base.doc.clone().with_edits(|raw| match rng.below(5) {
                    0 => raw.delegate(did(&w.actors[cand_a])),
                    1 => raw.delegate(did(&w.actors[cand_b])),
                    2 => {
                        if raw.delegates.len() > 1 {
                            let j = rng.usize(raw.delegates.len());
                            raw.delegates.remove(j);
                            raw.threshold = raw.threshold.min(raw.delegates.len());
                        } else {
                            raw.delegate(did(&w.actors[cand_a]));
                        }
                    }
                    3 => raw.threshold = 1 + rng.usize(raw.delegates.len()),
                    _ => {
                        let pid = radicle::identity::doc::PayloadId::project();
                        if let Some(p) = raw.payload.get_mut(&pid) {
                            if let Some(obj) = p.as_object_mut() {
                                obj.insert("description".into(), json!(format!("desc-{f}")));
                            }
                        }
                    }
                });
                let Ok(doc) = edited else { continue };
                let (blob, bytes) = doc.encode().unwrap();
                let written = w.raw().blob(&bytes).unwrap();
                assert_eq!(written, *blob);
                let sig_mode = if hostile(&mut rng, 5) { rng.below(2) } else { 7 };
                let signature = match sig_mode {
                    0 => { let s: radicle::crypto::Signature = w.actors[actor].sign(b"something else"); s }
                    1 => doc.signature_of(&w.actors[(actor + 1) % nactors]).unwrap(),
                    _ => doc.signature_of(&w.actors[actor]).unwrap(),
                };
                if sig_mode <= 1 {
                    rep.count("fed.revision-with-invalid-signature");
                    note.push("revision: invalid signature".into());
                }
                embeds.push(Embed { name: "radicle.json".into(), content: blob });
                actions.push(json!({"type": "revision", "title": format!("rev-{f}"), "description": "d", "blob": blob.to_string(), "parent": base.id.to_string(), "signature": signature.to_string()}));
                note.push(format!("propose on {}", if base.id == prev.current { "current" } else { "non-current" }));
            } else if choice <= 7 {
                // accept
                let unvoted: Vec<&&radicle::cob::identity::Revision> = active.iter().filter(|r| !r.verdicts().any(|(k, _)| k == w.actors[actor].public_key())).collect();
                let target = if hostile(&mut rng, 4) || active.is_empty() { rng.pick(&revs).clone() } else if !unvoted.is_empty() { (**rng.pick(&unvoted)).clone() } else { (*rng.pick(&active)).clone() };
                let mode = if hostile(&mut rng, 8) { rng.below(3) } else { 9 };
                let signature = match mode {
                    0 => { let s: radicle::crypto::Signature = w.actors[actor].sign(b"not the blob"); s }
                    1 => prev.current().doc.signature_of(&w.actors[actor]).unwrap(), // valid signature, wrong document
                    2 => target.doc.signature_of(&w.actors[stranger]).unwrap(),       // somebody else's signature
                    _ => target.doc.signature_of(&w.actors[actor]).unwrap(),
                };
                if mode <= 2 {
                    rep.count("fed.accept-with-invalid-signature");
                    note.push("accept: invalid signature".into());
                }
                if target.verdicts().any(|(k, _)| k == w.actors[actor].public_key()) {
                    rep.count("fed.duplicate-verdict");
                }
                actions.push(json!({"type": "revision.accept", "revision": target.id.to_string(), "signature": signature.to_string()}));
            } else if choice == 8 {
                let target = if active.is_empty() { rng.pick(&revs).clone() } else { (*rng.pick(&active)).clone() };
                actions.push(json!({"type": "revision.reject", "revision": target.id.to_string()}));
            } else if choice <= 10 {
                let target = rng.pick(&revs).clone();
                if target.is_accepted() {
                    rep.count("fed.edit-of-accepted-revision");
                }
                actions.push(json!({"type": "revision.edit", "revision": target.id.to_string(), "title": format!("edited-{fresh}"), "description": "e"}));
            } else {
                let target = rng.pick(&revs).clone();
                if target.is_accepted() {
                    rep.count("fed.redact-of-accepted-revision");
                }
                actions.push(json!({"type": "revision.redact", "revision": target.id.to_string()}));
            }
        }
        if actions.is_empty() {
            continue;
        }
        if actions.len() > 1 {
            rep.count("fed.multi-action-change");
        }
        let actor_is_current_delegate = cur_delegates.contains(&actor);
        if !actor_is_current_delegate {
            rep.count("fed.change-by-non-delegate-of-current-doc");
        }
        let parent_oids: Vec<Oid> = parents.iter().map(|p| case.ops[*p].oid).collect();
        let oid = w.change_with_embeds(&typename, None, parent_oids, vec![], actor, false, &actions, ts, embeds);
        let idx = case.ops.len();
        case.ops.push(Op { oid, actor, parents, ts, actions, note });
        // ---- evaluate the new prefix
        w.set_refs(&typename, &object, &case.prefix_tips(idx + 1), &ns);
        let (cur, cur_snap) = match eval_typed::<Identity>(&w, &typename, &object) {
            Ok(Some(x)) => x,
            other => {
                rep.inconclusive("identity evaluation failed", json!({"result": format!("{:?}", other.map(|o| o.map(|_| ()))), "case": case.json()}));
                return None;
            }
        };
        rep.eval();
        rep.count("changes-written");
        if std::env::var("VERIF_DEBUG").is_ok() {
            eprintln!("== op {idx} actor {actor} parents={:?} in-history={} ts={} {}", case.ops[idx].parents, cur_snap.entries.contains(&oid), case.ops[idx].ts, serde_json::to_string(&case.ops[idx].actions).unwrap());
            eprintln!("   current={} order={:?}", &cur.current.to_string()[..7], cur_snap.order.iter().map(|o| case.ops.iter().position(|x| x.oid == *o)).collect::<Vec<_>>());
            for r in cur.revisions() {
                eprintln!("   rev {} parent={:?} state={} verdicts={:?}", &r.id.to_string()[..7], r.parent.map(|p| p.to_string()[..7].to_string()), r.state, r.verdicts().map(|(k, v)| (w.actors.iter().position(|a| a.public_key() == k), matches!(v, Verdict::Accept(_)))).collect::<Vec<_>>());
            }
        }
        if cur_snap.entries.contains(&oid) {
            rep.count("changes-accepted-into-history");
        } else {
            doomed.insert(idx);
            if std::env::var("VERIF_DEBUG").is_ok() {
                eprintln!("REJECTED op {idx} actor {actor} delegate={actor_is_current_delegate} parents={:?} {}", case.ops[idx].parents, serde_json::to_string(&case.ops[idx].actions).unwrap());
            }
        }
        if checks && !check_state(rep, &case, idx + 1, &cur) {
            return None;
        }
        if cur.current != prev.current {
            rep.count("adoptions-observed");
            nontrivial = true;
        }
        // (2)/(4): a change by a key that is not a delegate of the current document changes nothing.
        // Compared only when the new change is applied last, so that the previous prefix state is
        // exactly the state it was applied to.
        let a = strip(&prev_snap.state, &["timeline"]);
        let b = strip(&cur_snap.state, &["timeline"]);
        let applied_last = cur_snap.state["timeline"].as_array().and_then(|t| t.last()).and_then(|v| v.as_str()) == Some(&oid.to_string()) || !cur_snap.entries.contains(&oid);
        if checks && !actor_is_current_delegate && applied_last {
            rep.count("checked.non-delegate-change-applied-last");
            if a != b {
                let resurrected: Vec<usize> = cur_snap.entries.difference(&prev_snap.entries).filter(|o| **o != oid).filter_map(|o| case.ops.iter().position(|x| x.oid == *o)).collect();
                // known mechanism: the new change is *concurrent* to every minimal revived change, whose
                // `UnexpectedState` error is tolerated only while a concurrent change exists
                let anc_of = |x: usize| -> BTreeSet<usize> {
                    let mut out = BTreeSet::new();
                    let mut stack = case.ops[x].parents.clone();
                    while let Some(p) = stack.pop() {
                        if out.insert(p) {
                            stack.extend(case.ops[p].parents.clone());
                        }
                    }
                    out
                };
                let minimal: Vec<usize> = resurrected.iter().copied().filter(|x| !anc_of(*x).iter().any(|a| resurrected.contains(a))).collect();
                let new_anc = anc_of(idx);
                let all_concurrent = minimal.iter().all(|x| !new_anc.contains(x) && !anc_of(*x).contains(&idx));
                let sig = if !resurrected.is_empty() && all_concurrent {
                    "C04/non-delegate-change-alters-identity/by-reviving-concurrent-branch"
                } else if !resurrected.is_empty() {
                    "C04/non-delegate-change-alters-identity/by-reviving-other-changes"
                } else if actor == stranger {
                    "C04/stranger-change-alters-identity"
                } else {
                    "C04/non-delegate-of-current-document-alters-identity"
                };
                rep.violation(sig, json!({"op": idx, "revived_ops": resurrected, "before": a, "after": b, "case": case.json()}));
                return None;
            }
        }
        // accepted revisions are never edited or redacted. The comparison with the previous evaluation is
        // only an exact attribution to this change when the new evaluation applies exactly the changes
        // the previous one applied, in the same order, and then this one: a change that is ordered
        // *before* a concurrent branch and makes that branch invalid (so that the branch is pruned and
        // the change ends up last) gives a different, equally legal, evaluation of a different history.
        let dedup = |t: &Value| -> Vec<String> {
            let mut out: Vec<String> = vec![];
            for v in t.as_array().map(|a| a.as_slice()).unwrap_or(&[]) {
                let s = v.as_str().unwrap_or("").to_string();
                if out.last() != Some(&s) {
                    out.push(s);
                }
            }
            out
        };
        let extends = {
            let mut p = dedup(&prev_snap.state["timeline"]);
            let c = dedup(&cur_snap.state["timeline"]);
            if cur_snap.entries.contains(&oid) {
                p.push(oid.to_string());
            }
            p == c
        };
        if checks && applied_last && !extends {
            rep.count("checked.accepted-revisions.skipped-evaluation-does-not-extend-previous");
        }
        if checks && applied_last && extends {
            rep.count("checked.accepted-revisions-unchanged-by-last-change");
            for r in prev.revisions().filter(|r| r.is_accepted()) {
                match cur.revision(&r.id) {
                    None => {
                        rep.violation("C04/accepted-revision-redacted", json!({"op": idx, "revision": r.id.to_string(), "case": case.json()}));
                        return None;
                    }
                    Some(r2) if r2.title != r.title || r2.description != r.description || r2.doc != r.doc => {
                        rep.violation("C04/accepted-revision-edited", json!({"op": idx, "revision": r.id.to_string(), "case": case.json()}));
                        return None;
                    }
                    _ => {}
                }
            }
        }
        prev = cur;
        prev_snap = cur_snap;
    }
    if nontrivial {
        rep.nontrivial(seed);
    }
    if rep.wants_sample() && nontrivial && case.ops.len() > 5 {
        rep.sample(json!({"case": case.json(), "final_current": prev.current.to_string(), "revisions": prev.revisions().count()}));
    }
    Some((w, case))
}

pub fn run(args: &Args) {
    let mut rep = Reporter::new("C04");
    if let Some(path) = &args.replay {
        let w = vcommon::load_replay(path);
        let seed = w["case_seed"].as_u64().unwrap_or(args.seed);
        one(&mut rep, seed, args.thorough, true);
        rep.finish();
        return;
    }
    for k in 0..args.budget(1_600, 16_000) {
        one(&mut rep, args.case_seed(k), args.thorough, true);
    }
    rep.finish();
}
