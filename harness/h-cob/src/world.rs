//! Shared COB fixture: a real repository, a set of actors whose keys the harness owns, a low-level
//! change writer (arbitrary parents / timestamps / signers / action lists) and evaluation helpers.
use std::collections::{BTreeMap, BTreeSet};

use radicle::cob::{self, change, ObjectId, TypeName};
use radicle::crypto::test::signer::MockSigner;
use radicle::crypto::PublicKey;
use signature::Signer as _;
use radicle::git::Oid;
use radicle::identity::doc::{RawDoc, Visibility};
use radicle::identity::{Did, Doc, Project};
use radicle::node::device::Device;
use radicle::node::Alias;
use radicle::storage::git::{Repository, Storage};
use radicle::storage::{ReadRepository, SignRepository, WriteRepository};
use radicle_cob::signatures::ExtendedSignature;
use vcommon::{json, Value};

pub type Dev = Device<MockSigner>;

pub fn device(tag: u8, i: u8) -> Dev {
    let mut seed = [tag; 32];
    seed[0] = i;
    seed[31] = i.wrapping_mul(37).wrapping_add(tag);
    Device::mock_from_seed(seed)
}

pub fn did(d: &Dev) -> Did {
    Did::from(*d.public_key())
}

/// Signs the wrong bytes with the right key: the signature does not verify.
pub struct BadSigner<'a>(pub &'a Dev);

impl signature::Signer<ExtendedSignature> for BadSigner<'_> {
    fn try_sign(&self, msg: &[u8]) -> Result<ExtendedSignature, signature::Error> {
        let mut m = msg.to_vec();
        m.push(0x42);
        let sig: radicle::crypto::Signature = self.0.sign(&m);
        Ok(ExtendedSignature::new(*self.0.public_key(), sig))
    }
}

pub struct World {
    pub _tmp: tempfile::TempDir,
    pub storage: Storage,
    pub repo: Repository,
    /// actors[0..ndelegates] are the delegates of the initial identity document
    pub actors: Vec<Dev>,
    pub ndelegates: usize,
    pub threshold: usize,
    /// identity head commit (the `resource` issue/patch changes commit to)
    pub id_head: Oid,
    pub doc: Doc,
    counter: std::cell::Cell<u64>,
    /// spare keys used only as ref namespaces
    pub namespaces: Vec<PublicKey>,
    /// code commits: code[0..4] is the chain m0 <- m1 <- m2 <- m3, code[4] a side commit off m0
    pub code: Vec<Oid>,
    /// index into `code` of each delegate's `refs/heads/master`
    pub heads: Vec<usize>,
}

impl World {
    pub fn new(ndelegates: usize, nactors: usize, threshold: usize, tag: &str) -> World {
        let tmp = vcommon::scratch_dir();
        let actors: Vec<Dev> = (0..nactors as u8).map(|i| device(5, i)).collect();
        let storage = Storage::open(
            tmp.path().join("storage"),
            radicle::git::UserInfo { alias: Alias::new("verif"), key: *actors[0].public_key() },
        )
        .expect("storage");
        let project = Project::new(
            format!("cob-{tag}").try_into().expect("name"),
            "verif".into(),
            radicle::git::refname!("master"),
        )
        .expect("project");
        let doc = RawDoc::new(project, actors[..ndelegates].iter().map(did).collect(), threshold, Visibility::Public)
            .verified()
            .expect("doc");
        // pin the commit time of the root change (and of the signed refs), so that object ids -- and
        // with them every id-ordered tie-break in the evaluator -- are a function of the case seed
        std::env::set_var("GIT_COMMITTER_DATE", "1600000000");
        let (repo, id_head) = Repository::init(&doc, &storage, &actors[0]).expect("init");
        repo.sign_refs(&actors[0]).expect("sign_refs");
        repo.set_identity_head().expect("identity head");
        let namespaces = (0..24u8).map(|i| *device(6, i).public_key()).collect();
        let mut code: Vec<Oid> = vec![];
        let mk = |label: &str, parents: &[Oid]| -> Oid {
            let raw = repo.raw();
            let sig = git2::Signature::new("verif", "verif@localhost", &git2::Time::new(1_600_000_000, 0)).unwrap();
            let tree = raw.find_tree(raw.treebuilder(None).unwrap().write().unwrap()).unwrap();
            let ps: Vec<git2::Commit> = parents.iter().map(|p| raw.find_commit(**p).unwrap()).collect();
            let prefs: Vec<&git2::Commit> = ps.iter().collect();
            raw.commit(None, &sig, &sig, label, &tree, &prefs).unwrap().into()
        };
        for i in 0..4 {
            let p: Vec<Oid> = code.last().copied().into_iter().collect();
            code.push(mk(&format!("m{i}"), &p));
        }
        code.push(mk("side", &[code[0]]));
        let mut heads = vec![];
        for d in 0..ndelegates {
            let h = (d + 2).min(3);
            heads.push(h);
            let name = format!("refs/namespaces/{}/refs/heads/master", actors[d].public_key());
            repo.raw().reference(&name, *code[h], true, "verif").unwrap();
        }
        World { _tmp: tmp, storage, repo, actors, ndelegates, threshold, id_head, doc, counter: 0.into(), namespaces, code, heads }
    }

    pub fn raw(&self) -> &git2::Repository {
        self.repo.raw()
    }

    /// Move delegate `d`'s default branch to `code[idx]`.
    pub fn set_head(&mut self, d: usize, idx: usize) {
        let name = format!("refs/namespaces/{}/refs/heads/master", self.actors[d].public_key());
        self.repo.raw().reference(&name, *self.code[idx], true, "verif").unwrap();
        self.heads[d] = idx;
    }

    /// Is `code[c]` equal to or an ancestor of `code[h]`? (chain m0..m3 = 0..3, 4 = side commit off m0)
    pub fn code_is_ancestor_or_equal(c: usize, h: usize) -> bool {
        if c == h {
            return true;
        }
        match (c, h) {
            (4, _) => false,
            (c, 4) => c == 0,
            (c, h) => c < h,
        }
    }

    /// Write one change commit. `actions` are the JSON encodings of the type's actions.
    pub fn change(
        &self,
        typename: &TypeName,
        resource: Option<Oid>,
        tips: Vec<Oid>,
        related: Vec<Oid>,
        actor: usize,
        bad_signature: bool,
        actions: &[Value],
        ts: i64,
    ) -> Oid {
        self.change_with_embeds(typename, resource, tips, related, actor, bad_signature, actions, ts, vec![])
    }

    #[allow(clippy::too_many_arguments)]
    pub fn change_with_embeds(
        &self,
        typename: &TypeName,
        resource: Option<Oid>,
        tips: Vec<Oid>,
        related: Vec<Oid>,
        actor: usize,
        bad_signature: bool,
        actions: &[Value],
        ts: i64,
        embeds: Vec<radicle::cob::Embed<Oid>>,
    ) -> Oid {
        use change::Storage as _;
        std::env::set_var("GIT_COMMITTER_DATE", ts.to_string());
        let n = self.counter.get();
        self.counter.set(n + 1);
        let contents: Vec<Vec<u8>> = actions.iter().map(|a| serde_json::to_vec(a).unwrap()).collect();
        let template = change::Template {
            type_name: typename.clone(),
            tips,
            message: format!("verif change {n}"),
            embeds,
            contents: nonempty::NonEmpty::from_vec(contents).expect("at least one action"),
        };
        let entry = if bad_signature {
            self.raw().store(resource, related, &BadSigner(&self.actors[actor]), template)
        } else {
            self.raw().store(resource, related, &self.actors[actor], template)
        }
        .expect("store change");
        entry.id
    }

    /// Point the object's refs at exactly `tips` (one namespace per tip, in the given namespace order).
    pub fn set_refs(&self, typename: &TypeName, id: &ObjectId, tips: &[Oid], ns_order: &[usize]) {
        self.clear_refs(typename, id);
        for (i, tip) in tips.iter().enumerate() {
            let ns = self.namespaces[ns_order[i % ns_order.len()] % self.namespaces.len()];
            let name = format!("refs/namespaces/{ns}/refs/cobs/{typename}/{id}");
            self.raw().reference(&name, **tip, true, "verif").expect("set ref");
        }
    }

    pub fn clear_refs(&self, typename: &TypeName, id: &ObjectId) {
        let glob = format!("refs/namespaces/*/refs/cobs/{typename}/{id}");
        let names: Vec<String> = self
            .raw()
            .references_glob(&glob)
            .unwrap()
            .filter_map(|r| r.ok().and_then(|r| r.name().map(|s| s.to_string())))
            .collect();
        for n in names {
            self.raw().find_reference(&n).unwrap().delete().unwrap();
        }
    }
}

/// What an evaluation returned, in comparable form.
#[derive(Clone, Debug, PartialEq)]
pub struct Snap {
    pub state: Value,
    pub entries: BTreeSet<Oid>,
    pub edges: BTreeSet<(Oid, Oid)>,
    pub tips: BTreeSet<Oid>,
    /// order in which the evaluator applies the surviving changes (root first), recomputed from the
    /// returned history with the evaluator's own traversal (used only to decide whether the newest
    /// change was applied last, never as an oracle)
    pub order: Vec<Oid>,
}

pub fn snap<T: serde::Serialize>(obj: &cob::CollaborativeObject<T>) -> Snap {
    let h = obj.history();
    let g = h.graph();
    let mut entries = BTreeSet::new();
    let mut edges = BTreeSet::new();
    for k in g.sorted() {
        entries.insert(k);
        if let Some(n) = g.get(&k) {
            for d in &n.dependencies {
                edges.insert((k, *d));
            }
        }
    }
    let root: Oid = **obj.id();
    let mut order = vec![root];
    if let Some(r) = g.get(&root) {
        let children: Vec<Oid> = r.dependents.iter().copied().collect();
        let mut copy = g.clone();
        copy.prune_by(
            &children,
            |k, _, _| {
                order.push(*k);
                std::ops::ControlFlow::Continue(())
            },
            |x, y| x.1.timestamp.cmp(&y.1.timestamp).then(x.0.cmp(y.0)),
        );
    }
    Snap { state: serde_json::to_value(obj.object()).expect("serialize state"), entries, edges, tips: h.tips(), order }
}

/// Evaluate an object of type T through the real `cob::get`.
pub fn eval<T>(w: &World, typename: &TypeName, id: &ObjectId) -> Result<Option<Snap>, String>
where
    T: cob::Evaluate<Repository> + serde::Serialize,
{
    match vcommon::guarded(|| cob::get::<T, _>(&w.repo, typename, id)) {
        Ok(Ok(Some(o))) => Ok(Some(snap(&o))),
        Ok(Ok(None)) => Ok(None),
        Ok(Err(e)) => Err(e.to_string()),
        Err(p) => Err(format!("PANIC: {p}")),
    }
}

/// Evaluate and hand back the typed object as well.
pub fn eval_typed<T>(w: &World, typename: &TypeName, id: &ObjectId) -> Result<Option<(T, Snap)>, String>
where
    T: cob::Evaluate<Repository> + serde::Serialize + Clone,
{
    match vcommon::guarded(|| cob::get::<T, _>(&w.repo, typename, id)) {
        Ok(Ok(Some(o))) => Ok(Some((o.object().clone(), snap(&o)))),
        Ok(Ok(None)) => Ok(None),
        Ok(Err(e)) => Err(e.to_string()),
        Err(p) => Err(format!("PANIC: {p}")),
    }
}

/// Tips of a parent-closed set of ops given as (oid, parents).
pub fn tips_of(ops: &[(Oid, Vec<Oid>)]) -> Vec<Oid> {
    let mut parents = BTreeSet::new();
    for (_, ps) in ops {
        parents.extend(ps.iter().copied());
    }
    ops.iter().map(|(o, _)| *o).filter(|o| !parents.contains(o)).collect()
}

pub fn oid_json(o: &Oid) -> Value {
    json!(o.to_string())
}

pub fn did_json(d: &Dev) -> Value {
    json!(did(d).to_string())
}

pub fn random_oid(rng: &mut vcommon::Rng) -> Oid {
    let b = rng.bytes(20);
    Oid::try_from(&b[..]).unwrap()
}

/// Remove keys that are evaluation-order bookkeeping rather than object state.
pub fn strip(v: &Value, keys: &[&str]) -> Value {
    match v {
        Value::Object(m) => Value::Object(m.iter().filter(|(k, _)| !keys.contains(&k.as_str())).map(|(k, v)| (k.clone(), strip(v, keys))).collect()),
        Value::Array(a) => Value::Array(a.iter().map(|v| strip(v, keys)).collect()),
        other => other.clone(),
    }
}

#[allow(dead_code)]
pub fn _unused(_: BTreeMap<u8, u8>) {}
