//! C05 — Collaborative object state is a function of the change set.
//!
//! The same set of change commits is loaded (a) through every permutation / duplication of the tip
//! references (a `Store` wrapper that only reorders `objects()`), observed with a recording
//! evaluator that logs the exact apply order and concurrent sets, and (b) by the real Issue / Patch
//! evaluators through different placements of the references: tips under permuted namespaces,
//! extra references to interior changes, references added one by one. All results must be equal.
use std::collections::BTreeMap;

use radicle::cob::issue::Issue;
use radicle::cob::patch::Patch;
use radicle::cob::{self, change, object, Entry, ObjectId, TypeName};
use radicle::git::Oid;
use radicle::storage::git::Repository;
use radicle_cob::signatures::ExtendedSignature;
use vcommon::{json, Args, Reporter, Rng, Value};

use crate::gen::{self, Hist, Knobs};
use crate::world::{eval, Snap, World};

// ---- (a) recording evaluator behind a reordering store -----------------------------------------

struct Wrap<'a> {
    repo: &'a Repository,
    /// permutation / duplication applied to the enumerated references
    order: std::cell::RefCell<Vec<usize>>,
}

impl cob::Store for Wrap<'_> {}

impl change::Storage for Wrap<'_> {
    type StoreError = <Repository as change::Storage>::StoreError;
    type LoadError = <Repository as change::Storage>::LoadError;
    type ObjectId = Oid;
    type Parent = Oid;
    type Signatures = ExtendedSignature;

    fn store<G>(&self, resource: Option<Oid>, related: Vec<Oid>, signer: &G, template: change::Template<Oid>) -> Result<Entry, Self::StoreError>
    where
        G: signature::Signer<ExtendedSignature>,
    {
        self.repo.store(resource, related, signer, template)
    }
    fn load(&self, id: Oid) -> Result<Entry, Self::LoadError> {
        change::Storage::load(self.repo, id)
    }
    fn parents_of(&self, id: &Oid) -> Result<Vec<Oid>, Self::LoadError> {
        self.repo.parents_of(id)
    }
}

impl object::Storage for Wrap<'_> {
    type ObjectsError = <Repository as object::Storage>::ObjectsError;
    type TypesError = <Repository as object::Storage>::TypesError;
    type UpdateError = <Repository as object::Storage>::UpdateError;
    type RemoveError = <Repository as object::Storage>::RemoveError;
    type Namespace = <Repository as object::Storage>::Namespace;

    fn objects(&self, typename: &TypeName, object_id: &ObjectId) -> Result<object::Objects, Self::ObjectsError> {
        let o = self.repo.objects(typename, object_id)?;
        let refs: Vec<object::Reference> = o.iter().cloned().collect();
        let order = self.order.borrow();
        let picked: Vec<object::Reference> = order.iter().filter(|i| **i < refs.len()).map(|i| refs[*i].clone()).collect();
        Ok(picked.into())
    }
    fn types(&self, typename: &TypeName) -> Result<BTreeMap<ObjectId, object::Objects>, Self::TypesError> {
        self.repo.types(typename)
    }
    fn update(&self, ns: &Self::Namespace, t: &TypeName, o: &ObjectId, e: &cob::EntryId) -> Result<(), Self::UpdateError> {
        self.repo.update(ns, t, o, e)
    }
    fn remove(&self, ns: &Self::Namespace, t: &TypeName, o: &ObjectId) -> Result<(), Self::RemoveError> {
        object::Storage::remove(self.repo, ns, t, o)
    }
}

/// Logs (change, sorted concurrent set) in apply order; rejects changes by a fixed predicate of the
/// change id so that pruning is exercised too.
#[derive(Debug, Clone, PartialEq)]
struct Rec {
    log: Vec<(Oid, Vec<Oid>)>,
    reject_mod: u8,
}

#[derive(Debug)]
struct RecErr;
impl std::fmt::Display for RecErr {
    fn fmt(&self, f: &mut std::fmt::Formatter<'_>) -> std::fmt::Result {
        write!(f, "rejected by recording evaluator")
    }
}
impl std::error::Error for RecErr {}

thread_local! { static REJECT_MOD: std::cell::Cell<u8> = const { std::cell::Cell::new(0) }; }

impl<R> cob::Evaluate<R> for Rec {
    type Error = RecErr;
    fn init(entry: &Entry, _store: &R) -> Result<Self, RecErr> {
        Ok(Rec { log: vec![(entry.id, vec![])], reject_mod: REJECT_MOD.with(|m| m.get()) })
    }
    fn apply<'a, I: Iterator<Item = (&'a Oid, &'a Entry)>>(&mut self, entry: &Entry, concurrent: I, _store: &R) -> Result<(), RecErr> {
        let mut c: Vec<Oid> = concurrent.map(|(k, _)| *k).collect();
        c.sort();
        self.log.push((entry.id, c));
        if self.reject_mod > 0 && entry.id.as_bytes()[0] % self.reject_mod == 0 {
            return Err(RecErr);
        }
        Ok(())
    }
}

fn rec_eval(w: &World, h: &Hist, order: Vec<usize>) -> Result<(Vec<(Oid, Vec<Oid>)>, Vec<Oid>), String> {
    let wrap = Wrap { repo: &w.repo, order: std::cell::RefCell::new(order) };
    match vcommon::guarded(|| cob::get::<Rec, _>(&wrap, &h.typename, &h.id)) {
        Ok(Ok(Some(o))) => {
            let mut entries: Vec<Oid> = o.history().graph().sorted().into_iter().collect();
            entries.sort();
            Ok((o.object().log.clone(), entries))
        }
        Ok(Ok(None)) => Err("object not found".into()),
        Ok(Err(e)) => Err(e.to_string()),
        Err(p) => Err(format!("PANIC {p}")),
    }
}

fn permutations(n: usize, rng: &mut Rng, max: usize) -> Vec<Vec<usize>> {
    let mut out = vec![];
    if n <= 5 {
        fn go(cur: &mut Vec<usize>, n: usize, out: &mut Vec<Vec<usize>>) {
            if cur.len() == n {
                out.push(cur.clone());
                return;
            }
            for k in 0..n {
                if !cur.contains(&k) {
                    cur.push(k);
                    go(cur, n, out);
                    cur.pop();
                }
            }
        }
        go(&mut vec![], n, &mut out);
    } else {
        for _ in 0..max {
            let mut p: Vec<usize> = (0..n).collect();
            rng.shuffle(&mut p);
            out.push(p);
        }
    }
    out
}

fn variant_json(name: &str, detail: Value) -> Value {
    json!({"variant": name, "detail": detail})
}

fn check<T>(rep: &mut Reporter, w: &World, h: &Hist, rng: &mut Rng, kind: &str)
where
    T: cob::Evaluate<Repository> + serde::Serialize,
{
    rep.eval();
    let n = h.ops.len();
    let tips = h.prefix_tips(n);
    let ns: Vec<usize> = (0..24).collect();
    w.set_refs(&h.typename, &h.id, &tips, &ns);
    let base: Snap = match eval::<T>(w, &h.typename, &h.id) {
        Ok(Some(s)) => s,
        other => {
            rep.inconclusive("base evaluation failed", json!({"r": format!("{other:?}")}));
            return;
        }
    };
    let concurrent = h.has_concurrency();
    let tie = h.has_timestamp_tie();
    if concurrent {
        rep.count(&format!("{kind}.with-concurrent-branches"));
    }
    if concurrent && tie {
        rep.count(&format!("{kind}.with-concurrent-branches-and-timestamp-tie"));
        rep.nontrivial(vcommon::fnv(h.id.to_string().as_bytes()));
    }
    if tips.len() >= 2 {
        rep.count(&format!("{kind}.with-several-tips"));
    }
    let mut compare = |rep: &mut Reporter, name: &str, detail: Value, got: Result<Option<Snap>, String>| -> bool {
        rep.count(&format!("variant.{name}"));
        match got {
            Ok(Some(s)) => {
                if s.entries != base.entries || s.edges != base.edges || s.tips != base.tips {
                    rep.violation(&format!("C05/{kind}/history-differs/{name}"), json!({"variant": variant_json(name, detail), "history": h.json(w)}));
                    return false;
                }
                if s.state != base.state {
                    rep.violation(&format!("C05/{kind}/state-differs/{name}"), json!({"variant": variant_json(name, detail), "history": h.json(w), "base_state": base.state, "variant_state": s.state}));
                    return false;
                }
                true
            }
            other => {
                rep.violation(&format!("C05/{kind}/evaluation-fails/{name}"), json!({"variant": variant_json(name, detail), "result": format!("{other:?}"), "history": h.json(w)}));
                false
            }
        }
    };
    // (b1) tips under permuted namespaces (enumeration order = namespace order)
    for p in permutations(tips.len(), rng, 8).into_iter().take(24) {
        let t: Vec<Oid> = p.iter().map(|i| tips[*i]).collect();
        w.set_refs(&h.typename, &h.id, &t, &ns);
        if !compare(rep, "tips-under-permuted-namespaces", json!(p), eval::<T>(w, &h.typename, &h.id)) {
            return;
        }
    }
    // (b2) extra references to interior changes / duplicated references (same reachable closure)
    for _ in 0..3 {
        let mut t = tips.clone();
        for _ in 0..1 + rng.usize(4) {
            t.push(h.ops[rng.usize(n)].oid);
        }
        rng.shuffle(&mut t);
        let mut nso = ns.clone();
        rng.shuffle(&mut nso);
        w.set_refs(&h.typename, &h.id, &t, &nso);
        if !compare(rep, "extra-refs-to-interior-changes", json!(t.iter().map(|o| h.index_of(o)).collect::<Vec<_>>()), eval::<T>(w, &h.typename, &h.id)) {
            return;
        }
    }
    // (b3) references received one by one in random order, evaluating in between
    {
        let mut t = tips.clone();
        rng.shuffle(&mut t);
        w.clear_refs(&h.typename, &h.id);
        let mut last = None;
        for k in 1..=t.len() {
            w.set_refs(&h.typename, &h.id, &t[..k], &ns);
            last = Some(eval::<T>(w, &h.typename, &h.id));
        }
        if let Some(l) = last {
            if !compare(rep, "refs-received-one-by-one", json!(t.iter().map(|o| h.index_of(o)).collect::<Vec<_>>()), l) {
                return;
            }
        }
    }
    // (b4) a reference that is not a commit (legal for git, never written by heartwood) under the lowest-
    // resp. the highest-sorting namespace: whatever the answer is (an error, or the object without that
    // reference), it may not depend on which namespace carries the odd reference
    {
        let mut idx: Vec<usize> = (0..w.namespaces.len()).collect();
        idx.sort_by_key(|i| w.namespaces[*i].to_string());
        let (lo, hi) = (idx[0], idx[idx.len() - 1]);
        let mid: Vec<usize> = idx[1..idx.len() - 1].to_vec();
        let blob = w.raw().blob(b"not a change").expect("blob");
        let mut outs: Vec<Result<Option<Snap>, ()>> = vec![];
        for j in [lo, hi] {
            w.set_refs(&h.typename, &h.id, &tips, &mid);
            let name = format!("refs/namespaces/{}/refs/cobs/{}/{}", w.namespaces[j], h.typename, h.id);
            w.raw().reference(&name, blob, true, "verif").expect("odd ref");
            outs.push(eval::<T>(w, &h.typename, &h.id).map_err(|_| ()));
        }
        rep.count("variant.non-commit-reference-under-lowest-vs-highest-namespace");
        if outs[0].is_err() {
            rep.count("variant.non-commit-reference.answer-is-an-error");
        }
        if outs[0] != outs[1] {
            let d = |o: &Result<Option<Snap>, ()>| match o {
                Err(()) => "error".to_string(),
                Ok(None) => "no object".to_string(),
                Ok(Some(s)) => format!("object with {} changes", s.entries.len()),
            };
            rep.violation(&format!("C05/{kind}/answer-depends-on-which-namespace-holds-a-non-commit-reference"),
                json!({"under_lowest_namespace": d(&outs[0]), "under_highest_namespace": d(&outs[1]), "history": h.json(w)}));
            return;
        }
    }
    // (a) recording evaluator behind the reordering store
    w.set_refs(&h.typename, &h.id, &tips, &ns);
    for reject_mod in [0u8, 3] {
        REJECT_MOD.with(|m| m.set(reject_mod));
        let ident: Vec<usize> = (0..tips.len()).collect();
        let Ok(base_log) = rec_eval(w, h, ident) else {
            rep.inconclusive("recording evaluation failed", json!({}));
            return;
        };
        let mut orders = permutations(tips.len(), rng, 12);
        // duplicated references
        let mut dup: Vec<usize> = (0..tips.len()).chain((0..tips.len()).rev()).collect();
        rng.shuffle(&mut dup);
        orders.push(dup);
        for o in orders.into_iter().take(40) {
            rep.count("variant.recording-evaluator-reordered-objects");
            match rec_eval(w, h, o.clone()) {
                Ok(l) if l == base_log => {}
                other => {
                    rep.violation(&format!("C05/{kind}/apply-order-or-concurrent-sets-depend-on-reference-enumeration-order"),
                        json!({"order": o, "reject_mod": reject_mod, "base_log": format!("{:?}", base_log.0), "got": format!("{:?}", other.map(|l| l.0)), "history": h.json(w)}));
                    return;
                }
            }
        }
    }
    REJECT_MOD.with(|m| m.set(0));
    if rep.wants_sample() && concurrent && tie && tips.len() >= 2 {
        rep.sample(json!({"history": h.json(w), "tips": tips.len(), "accepted": base.entries.len()}));
    }
    w.clear_refs(&h.typename, &h.id);
}

pub fn run(args: &Args) {
    let mut rep = Reporter::new("C05");
    let n = args.budget(1_200, 12_000);
    let mut w = World::new(2, 5, 1, "c05");
    for k in 0..n {
        let mut rng = Rng::new(args.case_seed(k));
        if k % 40 == 39 {
            w = World::new(1 + rng.usize(3), 5, 1, "c05");
        }
        let knobs = Knobs {
            nops: 4 + rng.usize(if args.thorough { 18 } else { 12 }),
            ts_mode: 1 + rng.below(2) as u8,
            p_multi_reject: 80,
            p_bad_sig: 30,
            p_branch: 450,
            p_child_of_doomed: 80,
            unprivileged: true,
        };
        if k % 2 == 0 {
            let h = gen::gen_issue(&w, &mut rng, &knobs);
            check::<Issue>(&mut rep, &w, &h, &mut rng, "issue");
        } else {
            let h = gen::gen_patch(&w, &mut rng, &knobs);
            check::<Patch>(&mut rep, &w, &h, &mut rng, "patch");
        }
    }
    rep.finish();
}
