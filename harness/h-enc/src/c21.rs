//! C21 — Textual identifiers round-trip.
//!
//! Types: PublicKey (= NodeId), Did, RepoId, Signature, Alias, UserAgent.
//!  * parse(print(v)) == v through every public text path (Display/FromStr, TryFrom<String>,
//!    serde as JSON string, `Did::encode/decode`, `RepoId::urn/from_urn/canonical/from_canonical`,
//!    `TryFrom<OsString>`);
//!  * print(v) is the canonical form, judged by an own base58btc encoder:
//!    `z<b58(0xed01 ‖ key)>`, `did:key:z…`, `rad:z<b58(oid)>`, `z<b58(sig)>`; for Alias/UserAgent
//!    the text itself;
//!  * other accepted spellings of the same bytes (multibase base16/base32/base64…, RepoId without
//!    the `rad:` prefix) must parse to the same value and print canonically;
//!  * arbitrary / mutated text through every parser under `catch_unwind`: never a panic; whatever
//!    is accepted must print canonically and re-parse to itself.
//!
//! Reading of the statement (rule 1): which texts are accepted is not judged (only "no panic" and
//! the round trip of what was accepted). `Alias::from(&NodeId)` builds a 48-byte alias that its
//! own parser rejects; the quantifier is "valid values … at their length limits", so this is only
//! counted as an observation, not reported as a violation.
use std::ffi::OsString;
use std::str::FromStr;

use radicle::crypto::{PublicKey, Signature};
use radicle::identity::{Did, RepoId};
use radicle::node::{Alias, UserAgent};
use vcommon::{guarded, hex, json, Args, Reporter, Rng, Value};

// ---------------------------------------------------------------------------------------------
// own encoders (reference)

const B58: &[u8; 58] = b"123456789ABCDEFGHJKLMNPQRSTUVWXYZabcdefghijkmnopqrstuvwxyz";

pub fn b58(input: &[u8]) -> String {
    let zeros = input.iter().take_while(|b| **b == 0).count();
    let mut digits: Vec<u8> = vec![]; // little endian base-58 digits
    for &byte in &input[zeros..] {
        let mut carry = byte as u32;
        for d in digits.iter_mut() {
            carry += (*d as u32) << 8;
            *d = (carry % 58) as u8;
            carry /= 58;
        }
        while carry > 0 {
            digits.push((carry % 58) as u8);
            carry /= 58;
        }
    }
    let mut s = "1".repeat(zeros);
    s.extend(digits.iter().rev().map(|d| B58[*d as usize] as char));
    s
}

fn b64(input: &[u8], url: bool, pad: bool) -> String {
    let abc: &[u8; 64] = if url { b"ABCDEFGHIJKLMNOPQRSTUVWXYZabcdefghijklmnopqrstuvwxyz0123456789-_" } else { b"ABCDEFGHIJKLMNOPQRSTUVWXYZabcdefghijklmnopqrstuvwxyz0123456789+/" };
    let mut s = String::new();
    for c in input.chunks(3) {
        let n = (c[0] as u32) << 16 | (*c.get(1).unwrap_or(&0) as u32) << 8 | *c.get(2).unwrap_or(&0) as u32;
        s.push(abc[(n >> 18) as usize & 63] as char);
        s.push(abc[(n >> 12) as usize & 63] as char);
        if c.len() > 1 {
            s.push(abc[(n >> 6) as usize & 63] as char);
        } else if pad {
            s.push('=');
        }
        if c.len() > 2 {
            s.push(abc[n as usize & 63] as char);
        } else if pad {
            s.push('=');
        }
    }
    s
}

fn b32(input: &[u8], upper: bool) -> String {
    let abc: &[u8; 32] = if upper { b"ABCDEFGHIJKLMNOPQRSTUVWXYZ234567" } else { b"abcdefghijklmnopqrstuvwxyz234567" };
    let mut s = String::new();
    let (mut acc, mut bits) = (0u32, 0u32);
    for &b in input {
        acc = (acc << 8) | b as u32;
        bits += 8;
        while bits >= 5 {
            s.push(abc[(acc >> (bits - 5)) as usize & 31] as char);
            bits -= 5;
        }
    }
    if bits > 0 {
        s.push(abc[(acc << (5 - bits)) as usize & 31] as char);
    }
    s
}

/// Other multibase spellings of the same bytes: (base name, text).
fn alt_spellings(bytes: &[u8]) -> Vec<(&'static str, String)> {
    vec![
        ("base16", format!("f{}", hex(bytes))),
        ("base16upper", format!("F{}", hex(bytes).to_uppercase())),
        ("base32", format!("b{}", b32(bytes, false))),
        ("base32upper", format!("B{}", b32(bytes, true))),
        ("base64", format!("m{}", b64(bytes, false, false))),
        ("base64pad", format!("M{}", b64(bytes, false, true))),
        ("base64url", format!("u{}", b64(bytes, true, false))),
        ("base64urlpad", format!("U{}", b64(bytes, true, true))),
    ]
}

fn pk_bytes(pk: &PublicKey) -> [u8; 32] {
    let mut b = [0u8; 32];
    b.copy_from_slice(&pk[..]);
    b
}

fn canon_pk(b: &[u8; 32]) -> String {
    let mut v = vec![0xed, 0x01];
    v.extend(b);
    format!("z{}", b58(&v))
}

fn canon_rid(oid: &[u8]) -> String {
    format!("rad:z{}", b58(oid))
}

// ---------------------------------------------------------------------------------------------
// round trips of valid values

fn quoted(s: &str) -> String {
    serde_json::to_string(s).unwrap_or_default()
}

fn rt_public_key(rep: &mut Reporter, b: [u8; 32]) {
    rep.eval();
    let v = PublicKey::from(b);
    let want = canon_pk(&b);
    let r = guarded(|| {
        let s = v.to_string();
        let mut bad = vec![];
        if s != want || v.to_human() != want || String::from(v) != want {
            bad.push("print-not-canonical");
        }
        if PublicKey::from_str(&s).ok() != Some(v) {
            bad.push("from_str");
        }
        if PublicKey::try_from(s.clone()).ok() != Some(v) {
            bad.push("try_from-string");
        }
        if serde_json::to_string(&v).ok() != Some(quoted(&want)) || serde_json::from_str::<PublicKey>(&quoted(&s)).ok() != Some(v) {
            bad.push("serde");
        }
        (s, bad)
    });
    match r {
        Err(p) => rep.violation(&format!("C21/panic/PublicKey/{}", vcommon::panic_site(&p)), json!({"type": "PublicKey", "bytes": hex(&b), "panic": p})),
        Ok((_, bad)) if bad.is_empty() => rep.count("roundtrip:PublicKey"),
        Ok((s, bad)) => rep.violation(&format!("C21/PublicKey/roundtrip/{}", bad[0]), json!({"type": "PublicKey", "bytes": hex(&b), "printed": s, "expected": want, "failed": bad})),
    }
    let mut full = vec![0xed, 0x01];
    full.extend(b);
    for (base, text) in alt_spellings(&full) {
        let t = text.clone();
        match guarded(move || PublicKey::from_str(&t)) {
            Err(p) => rep.violation(&format!("C21/panic/PublicKey::from_str/{}", vcommon::panic_site(&p)), json!({"text": text, "panic": p})),
            Ok(Err(_)) => rep.count(&format!("alt-spelling-rejected:PublicKey:{base}")),
            Ok(Ok(p)) => {
                rep.count("alt-spelling-accepted:PublicKey");
                if p != v || p.to_string() != want {
                    rep.violation("C21/PublicKey/alternative-spelling-parses-or-prints-differently", json!({"type": "PublicKey", "text": text, "printed": p.to_string(), "expected": want}));
                }
            }
        }
    }
}

fn rt_did(rep: &mut Reporter, b: [u8; 32]) {
    rep.eval();
    let v = Did::from(PublicKey::from(b));
    let want = format!("did:key:{}", canon_pk(&b));
    let r = guarded(|| {
        let s = v.to_string();
        let mut bad = vec![];
        if s != want || v.encode() != want || String::from(v) != want {
            bad.push("print-not-canonical");
        }
        if Did::from_str(&s).ok() != Some(v) || Did::decode(&s).ok() != Some(v) {
            bad.push("from_str");
        }
        if Did::try_from(s.clone()).ok() != Some(v) {
            bad.push("try_from-string");
        }
        if serde_json::to_string(&v).ok() != Some(quoted(&want)) || serde_json::from_str::<Did>(&quoted(&s)).ok() != Some(v) {
            bad.push("serde");
        }
        if pk_bytes(v.as_key()) != b {
            bad.push("key-bytes");
        }
        (s, bad)
    });
    match r {
        Err(p) => rep.violation(&format!("C21/panic/Did/{}", vcommon::panic_site(&p)), json!({"type": "Did", "bytes": hex(&b), "panic": p})),
        Ok((_, bad)) if bad.is_empty() => rep.count("roundtrip:Did"),
        Ok((s, bad)) => rep.violation(&format!("C21/Did/roundtrip/{}", bad[0]), json!({"type": "Did", "bytes": hex(&b), "printed": s, "expected": want, "failed": bad})),
    }
    let mut full = vec![0xed, 0x01];
    full.extend(b);
    for (base, text) in alt_spellings(&full) {
        let text = format!("did:key:{text}");
        let t = text.clone();
        match guarded(move || Did::from_str(&t)) {
            Err(p) => rep.violation(&format!("C21/panic/Did::from_str/{}", vcommon::panic_site(&p)), json!({"text": text, "panic": p})),
            Ok(Err(_)) => rep.count(&format!("alt-spelling-rejected:Did:{base}")),
            Ok(Ok(p)) => {
                rep.count("alt-spelling-accepted:Did");
                if p != v || p.to_string() != want {
                    rep.violation("C21/Did/alternative-spelling-parses-or-prints-differently", json!({"type": "Did", "text": text, "printed": p.to_string(), "expected": want}));
                }
            }
        }
    }
}

fn rt_repo_id(rep: &mut Reporter, oid: [u8; 20]) {
    rep.eval();
    let Ok(g) = git2::Oid::from_bytes(&oid) else { return };
    let v = RepoId::from(g);
    let want = canon_rid(&oid);
    let bare = want["rad:".len()..].to_string();
    let r = guarded(|| {
        let s = v.to_string();
        let mut bad = vec![];
        if s != want || v.urn() != want || v.canonical() != bare {
            bad.push("print-not-canonical");
        }
        if RepoId::from_str(&s).ok() != Some(v) || RepoId::from_urn(&s).ok() != Some(v) {
            bad.push("from_str");
        }
        if RepoId::from_canonical(&bare).ok() != Some(v) || RepoId::from_str(&bare).ok() != Some(v) {
            bad.push("from_canonical");
        }
        if RepoId::try_from(OsString::from(bare.clone())).ok() != Some(v) {
            bad.push("try_from-osstring");
        }
        if serde_json::to_string(&v).ok() != Some(quoted(&want)) || serde_json::from_str::<RepoId>(&quoted(&s)).ok() != Some(v) {
            bad.push("serde");
        }
        (s, bad)
    });
    match r {
        Err(p) => rep.violation(&format!("C21/panic/RepoId/{}", vcommon::panic_site(&p)), json!({"type": "RepoId", "bytes": hex(&oid), "panic": p})),
        Ok((_, bad)) if bad.is_empty() => rep.count("roundtrip:RepoId"),
        Ok((s, bad)) => rep.violation(&format!("C21/RepoId/roundtrip/{}", bad[0]), json!({"type": "RepoId", "bytes": hex(&oid), "printed": s, "expected": want, "failed": bad})),
    }
    for (base, text) in alt_spellings(&oid) {
        for text in [format!("rad:{text}"), text.clone()] {
            let t = text.clone();
            match guarded(move || RepoId::from_str(&t)) {
                Err(p) => rep.violation(&format!("C21/panic/RepoId::from_str/{}", vcommon::panic_site(&p)), json!({"text": text, "panic": p})),
                Ok(Err(_)) => rep.count(&format!("alt-spelling-rejected:RepoId:{base}")),
                Ok(Ok(p)) => {
                    rep.count("alt-spelling-accepted:RepoId");
                    if p != v || p.to_string() != want {
                        rep.violation("C21/RepoId/alternative-spelling-parses-or-prints-differently", json!({"type": "RepoId", "text": text, "printed": p.to_string(), "expected": want}));
                    }
                }
            }
        }
    }
}

fn rt_signature(rep: &mut Reporter, b: [u8; 64]) {
    rep.eval();
    let v = Signature::from(b);
    let want = format!("z{}", b58(&b));
    let r = guarded(|| {
        let s = v.to_string();
        let mut bad = vec![];
        if s != want || String::from(v) != want {
            bad.push("print-not-canonical");
        }
        if Signature::from_str(&s).ok() != Some(v) || Signature::try_from(s.clone()).ok() != Some(v) {
            bad.push("from_str");
        }
        if serde_json::to_string(&v).ok() != Some(quoted(&want)) || serde_json::from_str::<Signature>(&quoted(&s)).ok() != Some(v) {
            bad.push("serde");
        }
        (s, bad)
    });
    match r {
        Err(p) => rep.violation(&format!("C21/panic/Signature/{}", vcommon::panic_site(&p)), json!({"type": "Signature", "bytes": hex(&b), "panic": p})),
        Ok((_, bad)) if bad.is_empty() => rep.count("roundtrip:Signature"),
        Ok((s, bad)) => rep.violation(&format!("C21/Signature/roundtrip/{}", bad[0]), json!({"type": "Signature", "bytes": hex(&b), "printed": s, "expected": want, "failed": bad})),
    }
    for (base, text) in alt_spellings(&b) {
        let t = text.clone();
        match guarded(move || Signature::from_str(&t)) {
            Err(p) => rep.violation(&format!("C21/panic/Signature::from_str/{}", vcommon::panic_site(&p)), json!({"text": text, "panic": p})),
            Ok(Err(_)) => rep.count(&format!("alt-spelling-rejected:Signature:{base}")),
            Ok(Ok(p)) => {
                rep.count("alt-spelling-accepted:Signature");
                if p != v || p.to_string() != want {
                    rep.violation("C21/Signature/alternative-spelling-parses-or-prints-differently", json!({"type": "Signature", "text": text, "printed": p.to_string(), "expected": want}));
                }
            }
        }
    }
}

/// The text round trip of an accepted alias / user agent: the text is its own canonical form.
fn check_alias_value(rep: &mut Reporter, text: &str, v: &Alias, origin: &str) {
    let (t, v2) = (text.to_string(), v.clone());
    let r = guarded(move || {
        let mut bad = vec![];
        // The canonical text of an alias is whatever it prints; a parser that normalises its
        // input is allowed by the statement, so the input text `t` is not compared.
        let _ = &t;
        let s = v2.to_string();
        if v2.as_str() != s || String::from(v2.clone()) != s {
            bad.push("print-not-canonical");
        }
        if Alias::from_str(&s).ok().as_ref() != Some(&v2) || Alias::try_from(s.clone()).ok().as_ref() != Some(&v2) {
            bad.push("from_str");
        }
        if Alias::from_str(&s).map(|x| x.to_string()).ok().as_ref() != Some(&s) {
            bad.push("print-not-stable");
        }
        if serde_json::to_string(&v2).ok() != Some(quoted(&s)) || serde_json::from_str::<Alias>(&quoted(&s)).ok().as_ref() != Some(&v2) {
            bad.push("serde");
        }
        if Alias::new(&s) != v2 {
            bad.push("new");
        }
        bad
    });
    match r {
        Err(p) => rep.violation(&format!("C21/panic/Alias/{}", vcommon::panic_site(&p)), json!({"type": "Alias", "text": text, "panic": p})),
        Ok(bad) if bad.is_empty() => rep.count(&format!("roundtrip:Alias:{origin}")),
        Ok(bad) => rep.violation(&format!("C21/Alias/roundtrip/{}", bad[0]), json!({"type": "Alias", "text": text, "failed": bad})),
    }
}

fn check_agent_value(rep: &mut Reporter, text: &str, v: &UserAgent, origin: &str) {
    let (t, v2) = (text.to_string(), v.clone());
    let r = guarded(move || {
        let mut bad = vec![];
        let _ = &t; // see check_alias_value
        let s = v2.to_string();
        if v2.as_str() != s || v2.as_ref() != s {
            bad.push("print-not-canonical");
        }
        if UserAgent::from_str(&s).ok().as_ref() != Some(&v2) {
            bad.push("from_str");
        }
        if UserAgent::from_str(&s).map(|x| x.to_string()).ok().as_ref() != Some(&s) {
            bad.push("print-not-stable");
        }
        if serde_json::to_string(&v2).ok() != Some(quoted(&s)) || serde_json::from_str::<UserAgent>(&quoted(&s)).ok().as_ref() != Some(&v2) {
            bad.push("serde");
        }
        bad
    });
    match r {
        Err(p) => rep.violation(&format!("C21/panic/UserAgent/{}", vcommon::panic_site(&p)), json!({"type": "UserAgent", "text": text, "panic": p})),
        Ok(bad) if bad.is_empty() => rep.count(&format!("roundtrip:UserAgent:{origin}")),
        Ok(bad) => rep.violation(&format!("C21/UserAgent/roundtrip/{}", bad[0]), json!({"type": "UserAgent", "text": text, "failed": bad})),
    }
}

const ALIAS_CHARS: &[&str] = &["a", "Z", "0", "-", "_", ".", "$", "!", "\"", "\\", "/", ":", "@", "~", "é", "ß", "©", "日", "本", "😀", "\u{200B}", "\u{AD}", "\u{FEFF}", "\u{301}", "\u{E000}"];

/// A candidate alias of exactly `len` bytes when possible (multi-byte characters at the boundary).
fn gen_alias_text(rng: &mut Rng, len: usize) -> String {
    let mut s = String::new();
    let mut guard = 0;
    while s.len() < len && guard < 200 {
        guard += 1;
        let c = *rng.pick(ALIAS_CHARS);
        if s.len() + c.len() <= len {
            s.push_str(c);
        }
    }
    s
}

fn rt_alias(rep: &mut Reporter, rng: &mut Rng) {
    rep.eval();
    let len = *rng.pick(&[1usize, 2, 5, 12, 30, 31, 32, 32, 32]);
    let text = gen_alias_text(rng, len);
    let t = text.clone();
    match guarded(move || Alias::from_str(&t)) {
        Err(p) => rep.violation(&format!("C21/panic/Alias::from_str/{}", vcommon::panic_site(&p)), json!({"text": text, "panic": p})),
        Ok(Err(_)) => rep.count("alias.valid-candidate-rejected"),
        Ok(Ok(v)) => {
            if text.len() == 32 {
                rep.count("alias.at-32-byte-limit");
                if !text.is_ascii() {
                    rep.count("alias.at-32-byte-limit.multibyte");
                }
            }
            check_alias_value(rep, &text, &v, "valid");
        }
    }
    // one past the limit (must not panic; acceptance is counted)
    let over = gen_alias_text(rng, 33);
    if over.len() == 33 {
        let o = over.clone();
        match guarded(move || Alias::from_str(&o)) {
            Err(p) => rep.violation(&format!("C21/panic/Alias::from_str/{}", vcommon::panic_site(&p)), json!({"text": over, "panic": p})),
            Ok(Err(_)) => rep.count("alias.33-bytes-rejected"),
            Ok(Ok(v)) => {
                rep.count("alias.33-bytes-accepted");
                check_alias_value(rep, &over, &v, "over-limit");
            }
        }
    }
}

const UA_CLIENT: &[u8] = b"abcXYZ019-_.@!$%&'()*+,;<=>?[]^`{|}~\"#\\";
const UA_VERSION: &[u8] = b"0123456789.-rcabX@+~_:";

fn gen_agent_text(rng: &mut Rng, len: usize) -> String {
    // "/" seg ("/" seg)* "/" of exactly `len` bytes when len >= 3
    let mut s = String::from("/");
    while s.len() + 2 <= len {
        let room = len - s.len() - 1; // bytes available for this segment (closing slash kept)
        let seg_len = if rng.chance(1, 3) { room } else { 1 + rng.usize(room.min(12)) };
        let mut seg = String::new();
        let with_version = seg_len >= 3 && rng.bool();
        let client_len = if with_version { 1 + rng.usize(seg_len - 2) } else { seg_len };
        for _ in 0..client_len {
            seg.push(*rng.pick(UA_CLIENT) as char);
        }
        if with_version {
            seg.push(':');
            for _ in 0..seg_len - client_len - 1 {
                seg.push(*rng.pick(UA_VERSION) as char);
            }
        }
        s.push_str(&seg);
        s.push('/');
        if s.len() == len || rng.chance(1, 3) {
            break;
        }
    }
    s
}

fn rt_agent(rep: &mut Reporter, rng: &mut Rng) {
    rep.eval();
    let len = *rng.pick(&[3usize, 9, 20, 40, 63, 64, 64, 64]);
    let text = if rng.chance(1, 20) { "/radicle/".to_string() } else { gen_agent_text(rng, len) };
    let t = text.clone();
    match guarded(move || UserAgent::from_str(&t)) {
        Err(p) => rep.violation(&format!("C21/panic/UserAgent::from_str/{}", vcommon::panic_site(&p)), json!({"text": text, "panic": p})),
        Ok(Err(_)) => rep.count("useragent.valid-candidate-rejected"),
        Ok(Ok(v)) => {
            if text.len() == 64 {
                rep.count("useragent.at-64-byte-limit");
            }
            if text == "/radicle/" && v != UserAgent::default() {
                rep.violation("C21/UserAgent/default-differs-from-its-text", json!({"text": text}));
            }
            check_agent_value(rep, &text, &v, "valid");
        }
    }
    let over = gen_agent_text(rng, 65);
    if over.len() == 65 {
        let o = over.clone();
        match guarded(move || UserAgent::from_str(&o)) {
            Err(p) => rep.violation(&format!("C21/panic/UserAgent::from_str/{}", vcommon::panic_site(&p)), json!({"text": over, "panic": p})),
            Ok(Err(_)) => rep.count("useragent.65-bytes-rejected"),
            Ok(Ok(v)) => {
                rep.count("useragent.65-bytes-accepted");
                check_agent_value(rep, &over, &v, "over-limit");
            }
        }
    }
}

// ---------------------------------------------------------------------------------------------
// arbitrary text

const NASTY: &[&str] = &[
    "z", "Z", "f", "F", "b", "B", "c", "C", "v", "V", "t", "T", "h", "k", "K", "m", "M", "u", "U", "0", "7", "9", "\u{0}",
    "1", "l", "I", "O", "o", "+", "/", "=", "-", "_", " ", "\t", "\n", "é", "日", "😀", "\u{80}", "\u{FEFF}", "\u{301}", ":", "rad:", "did:key:", "did:", "z6Mk", "%", "\\", "\"",
];

fn mutate_text(rng: &mut Rng, s: &str) -> String {
    let mut m: Vec<char> = s.chars().collect();
    for _ in 0..1 + rng.usize(3) {
        match rng.below(7) {
            0 if !m.is_empty() => {
                let i = rng.usize(m.len());
                m.remove(i);
            }
            1 => {
                let i = rng.usize(m.len() + 1);
                let ins: Vec<char> = rng.pick(NASTY).chars().collect();
                for (k, c) in ins.into_iter().enumerate() {
                    m.insert(i + k, c);
                }
            }
            2 if !m.is_empty() => {
                let i = rng.usize(m.len());
                m[i] = rng.pick(NASTY).chars().next().unwrap_or('z');
            }
            3 => {
                let n = rng.usize(m.len() + 1);
                m.truncate(n);
            }
            4 if !m.is_empty() => {
                let i = rng.usize(m.len());
                m[i] = if m[i].is_lowercase() { m[i].to_ascii_uppercase() } else { m[i].to_ascii_lowercase() };
            }
            5 if !m.is_empty() => {
                // change the multibase prefix (first character, or the one after the last ':')
                let at = m.iter().rposition(|c| *c == ':').map(|p| p + 1).unwrap_or(0).min(m.len() - 1);
                m[at] = rng.pick(NASTY).chars().next().unwrap_or('z');
            }
            _ => {
                let d: Vec<char> = m.clone();
                m.extend(d);
            }
        }
    }
    m.into_iter().collect()
}

fn gen_arbitrary_text(rng: &mut Rng) -> (String, &'static str) {
    let mut kb = [0u8; 32];
    rng.fill(&mut kb);
    let mut ob = [0u8; 20];
    rng.fill(&mut ob);
    let mut sb = [0u8; 64];
    rng.fill(&mut sb);
    match rng.below(12) {
        0 => (mutate_text(rng, &canon_pk(&kb)), "mutated-public-key"),
        1 => (mutate_text(rng, &format!("did:key:{}", canon_pk(&kb))), "mutated-did"),
        2 => (mutate_text(rng, &canon_rid(&ob)), "mutated-repo-id"),
        3 => (mutate_text(rng, &format!("z{}", b58(&sb))), "mutated-signature"),
        4 => {
            let n = 1 + rng.usize(34);
            let t = gen_alias_text(rng, n);
            (mutate_text(rng, &t), "mutated-alias")
        }
        5 => {
            let n = 3 + rng.usize(64);
            let t = gen_agent_text(rng, n);
            (mutate_text(rng, &t), "mutated-user-agent")
        }
        6 => {
            // a multibase prefix followed by characters of mixed alphabets
            let mut s = String::new();
            if rng.bool() {
                s.push_str(*rng.pick(&["", "rad:", "did:key:", "did:key", "rad", "did:web:"]));
            }
            s.push_str(*rng.pick(NASTY));
            for _ in 0..rng.usize(70) {
                if rng.chance(1, 10) {
                    s.push_str(*rng.pick(NASTY));
                } else {
                    s.push(*rng.pick(b"0123456789ABCDEFGHJKLMNPQRSTUVWXYZabcdefghijkmnopqrstuvwxyz+/=-_lIO") as char);
                }
            }
            (s, "multibase-soup")
        }
        7 => {
            // right alphabet, wrong length
            let n = *rng.pick(&[0usize, 1, 19, 21, 31, 33, 34, 35, 63, 65, 100]);
            let bytes = rng.bytes(n);
            let body = match rng.below(4) {
                0 => format!("z{}", b58(&bytes)),
                1 => format!("f{}", hex(&bytes)),
                2 => format!("m{}", b64(&bytes, false, false)),
                _ => format!("b{}", b32(&bytes, false)),
            };
            (format!("{}{body}", rng.pick(&["", "rad:", "did:key:"])), "wrong-length")
        }
        8 => {
            // right length, wrong multicodec
            let mut v = vec![*rng.pick(&[0xedu8, 0xec, 0x00, 0xe7]), *rng.pick(&[0x01u8, 0x00, 0x02])];
            v.extend(kb);
            (format!("{}z{}", rng.pick(&["", "did:key:"]), b58(&v)), "wrong-multicodec")
        }
        9 => (rng.pick(&["", "z", "rad:", "rad:z", "did:key:", "did:key:z", "/", "//", "/:/", "/a:/", "/:a/", " ", "\0", "é", "😀", "rad:é", "did:key:é", "z1", "f", "f0", "m=", "M=", "b=", "0", "9", "1"]).to_string(), "tiny"),
        10 => {
            let n = rng.usize(40);
            (String::from_utf8_lossy(&rng.bytes(n)).to_string(), "random-bytes-lossy")
        }
        _ => {
            // very long inputs
            let unit = *rng.pick(&["z", "1", "a", "/a", "é", "f0"]);
            (format!("{}{}", rng.pick(&["", "z", "rad:z", "did:key:z", "/"]), unit.repeat(200 + rng.usize(2000))), "long")
        }
    }
}

fn arbitrary(rep: &mut Reporter, text: &str, shape: &str) {
    rep.eval();
    rep.count(&format!("shape:{shape}"));
    rep.nontrivial(vcommon::fnv(text.as_bytes()));
    macro_rules! parser {
        ($name:expr, $call:expr) => {{
            let t = text.to_string();
            match guarded(move || $call(&t)) {
                Err(p) => {
                    rep.violation(&format!("C21/panic/{}/{}", $name, vcommon::panic_site(&p)), json!({"kind": "arbitrary", "parser": $name, "text": text, "panic": p}));
                    None
                }
                Ok(r) => r,
            }
        }};
    }
    // PublicKey
    let pk = parser!("PublicKey::from_str", |t: &String| PublicKey::from_str(t).ok());
    let _ = parser!("PublicKey::try_from-string", |t: &String| PublicKey::try_from(t.clone()).ok());
    let pk_serde = parser!("PublicKey::deserialize", |t: &String| serde_json::from_value::<PublicKey>(Value::String(t.clone())).ok());
    if let Some(v) = pk {
        rep.count("arbitrary-accepted:PublicKey");
        let want = canon_pk(&pk_bytes(&v));
        if v.to_string() != want || PublicKey::from_str(&want).ok() != Some(v) || pk_serde != Some(v) {
            rep.violation("C21/PublicKey/accepted-text-does-not-print-canonically", json!({"kind": "arbitrary", "text": text, "printed": v.to_string(), "expected": want}));
        }
    }
    // Did
    let did = parser!("Did::from_str", |t: &String| Did::from_str(t).ok());
    let _ = parser!("Did::decode", |t: &String| Did::decode(t).ok());
    let _ = parser!("Did::deserialize", |t: &String| serde_json::from_value::<Did>(Value::String(t.clone())).ok());
    if let Some(v) = did {
        rep.count("arbitrary-accepted:Did");
        let want = format!("did:key:{}", canon_pk(&pk_bytes(v.as_key())));
        if v.to_string() != want || Did::from_str(&want).ok() != Some(v) {
            rep.violation("C21/Did/accepted-text-does-not-print-canonically", json!({"kind": "arbitrary", "text": text, "printed": v.to_string(), "expected": want}));
        }
    }
    // RepoId
    let rid = parser!("RepoId::from_str", |t: &String| RepoId::from_str(t).ok());
    let _ = parser!("RepoId::from_urn", |t: &String| RepoId::from_urn(t).ok());
    let _ = parser!("RepoId::from_canonical", |t: &String| RepoId::from_canonical(t).ok());
    let _ = parser!("RepoId::try_from-osstring", |t: &String| RepoId::try_from(OsString::from(t.clone())).ok());
    let _ = parser!("RepoId::deserialize", |t: &String| serde_json::from_value::<RepoId>(Value::String(t.clone())).ok());
    if let Some(v) = rid {
        rep.count("arbitrary-accepted:RepoId");
        let want = canon_rid(v.as_bytes());
        if v.to_string() != want || RepoId::from_str(&want).ok() != Some(v) {
            rep.violation("C21/RepoId/accepted-text-does-not-print-canonically", json!({"kind": "arbitrary", "text": text, "printed": v.to_string(), "expected": want}));
        }
    }
    // Signature
    let sig = parser!("Signature::from_str", |t: &String| Signature::from_str(t).ok());
    let _ = parser!("Signature::deserialize", |t: &String| serde_json::from_value::<Signature>(Value::String(t.clone())).ok());
    if let Some(v) = sig {
        rep.count("arbitrary-accepted:Signature");
        let want = format!("z{}", b58(v.as_ref()));
        if v.to_string() != want || Signature::from_str(&want).ok() != Some(v) {
            rep.violation("C21/Signature/accepted-text-does-not-print-canonically", json!({"kind": "arbitrary", "text": text, "printed": v.to_string(), "expected": want}));
        }
    }
    // Alias, UserAgent
    let alias = parser!("Alias::from_str", |t: &String| Alias::from_str(t).ok());
    let _ = parser!("Alias::deserialize", |t: &String| serde_json::from_value::<Alias>(Value::String(t.clone())).ok());
    if let Some(v) = alias {
        rep.count("arbitrary-accepted:Alias");
        check_alias_value(rep, text, &v, "arbitrary");
    }
    let ua = parser!("UserAgent::from_str", |t: &String| UserAgent::from_str(t).ok());
    if let Some(v) = ua {
        rep.count("arbitrary-accepted:UserAgent");
        check_agent_value(rep, text, &v, "arbitrary");
    }
}

fn special_bytes<const N: usize>(rng: &mut Rng) -> [u8; N] {
    let mut b = [0u8; N];
    match rng.below(8) {
        0 => {}
        1 => b = [0xff; N],
        2 => {
            // leading zero bytes (leading '1's in base58)
            rng.fill(&mut b);
            let z = 1 + rng.usize(N / 2);
            for x in b.iter_mut().take(z) {
                *x = 0;
            }
        }
        3 => b[N - 1] = 1,
        _ => rng.fill(&mut b),
    }
    b
}

pub fn run(args: &Args) {
    let mut rep = Reporter::new("C21");
    if let Some(path) = &args.replay {
        let w = vcommon::load_replay(path);
        if let Some(text) = w["text"].as_str() {
            arbitrary(&mut rep, text, "replay");
            // alternative spellings are plain texts as well
        }
        match (w["type"].as_str(), w["bytes"].as_str().and_then(vcommon::unhex)) {
            (Some("PublicKey"), Some(b)) if b.len() == 32 => rt_public_key(&mut rep, b.try_into().unwrap()),
            (Some("Did"), Some(b)) if b.len() == 32 => rt_did(&mut rep, b.try_into().unwrap()),
            (Some("RepoId"), Some(b)) if b.len() == 20 => rt_repo_id(&mut rep, b.try_into().unwrap()),
            (Some("Signature"), Some(b)) if b.len() == 64 => rt_signature(&mut rep, b.try_into().unwrap()),
            _ => {}
        }
        rep.finish();
        return;
    }
    let n = args.budget(1_600_000, 16_000_000);
    for k in 0..n {
        let mut rng = Rng::new(args.case_seed(k));
        match k % 8 {
            0 => rt_public_key(&mut rep, special_bytes::<32>(&mut rng)),
            1 => {
                // a real key (a point on the curve) as well as arbitrary 32 bytes
                let mut seed = [0u8; 32];
                rng.fill(&mut seed);
                let pk = *radicle::node::device::Device::mock_from_seed(seed).public_key();
                rt_public_key(&mut rep, pk_bytes(&pk));
                rt_did(&mut rep, special_bytes::<32>(&mut rng));
                // observation only (see module doc): an alias built from a node id
                let a = Alias::from(&pk);
                if Alias::from_str(a.as_str()).is_err() {
                    rep.count("observation:alias-from-node-id-is-not-parsable");
                }
            }
            2 => rt_repo_id(&mut rep, special_bytes::<20>(&mut rng)),
            3 => rt_signature(&mut rep, special_bytes::<64>(&mut rng)),
            4 => {
                rt_alias(&mut rep, &mut rng);
                rt_agent(&mut rep, &mut rng);
            }
            _ => {
                let (text, shape) = gen_arbitrary_text(&mut rng);
                arbitrary(&mut rep, &text, shape);
                if rep.wants_sample() && k > 40 {
                    rep.sample(json!({"arbitrary_text": text, "shape": shape}));
                }
            }
        }
    }
    rep.finish();
}
