//! C18 — Canonical JSON has a single byte representation.
//!
//! Generated `serde_json::Value`s go through the two public entry points
//! (`cob::store::encoding::encode`, `Doc::encode` with the value as a payload). The emitted bytes
//! are judged by an own tokenizer/checker (`cjson.rs`), floats must be rejected, and
//! decode(out) -> encode must reproduce `out` byte for byte.
//!
//! Reading of the statement (rule 1):
//!  * "keys in byte order" = ascending byte order of the UTF-8 of the (un-escaped, NFC) key strings.
//!  * "JSON escapes for control characters" = no raw byte < 0x20 inside a string (RFC 8259's control
//!    characters). Which escape spelling is used is not judged, except that `\u` escapes must be
//!    lower-case hex (the formatter's documented contract). DEL / C1 controls may appear raw.
//!  * Two keys of one object that collide after NFC: the statement does not say which member
//!    survives, so value-preservation and insertion-order checks are skipped for such inputs
//!    (the byte-form checks and decode->encode still apply).
//!  * An encode error on a float-free value is not forbidden by the statement: reported as
//!    inconclusive, never as a violation.
use std::collections::HashMap;

use radicle::cob::store::encoding::encode;
use radicle::identity::doc::RawDoc;
use serde_json::{Map, Value};
use vcommon::{guarded, json, Args, Reporter, Rng};

use crate::cjson;
use crate::jsgen::{self, Facts};

const DID: &str = "did:key:z6MknSLrJoTcukLrE435hVNQT4JUhbvWLX4kUzqkEStBU8Vi";

const CORPUS: &[&str] = &[
    r#"{"a":0,"a!":0}"#,
    r#"{"a":0,"a b":0}"#,
    r##"{"a\"":0,"a#":0}"##,
    r#"{"a\\":0,"a]":0,"a[":0}"#,
    r#"{"a\t":0,"aA":0}"#,
    r#"{"a\u0000":0,"a0":0,"a":0}"#,
    r##"{"":0," ":0,"!":0,"#":0}"##,
    r#"{"b":0,"a":{"d":0,"c":0},"é":0,"e\u0301x":0,"z":[{"y":0,"x":0}]}"#,
    r#"{"n":[-9223372036854775808,9223372036854775807,18446744073709551615,0]}"#,
    r#"{"f":1.5}"#,
    r#"[1e2]"#,
];

#[derive(Clone, Copy, PartialEq, Debug)]
enum Channel {
    CobEncode,
    DocEncode,
}

impl Channel {
    fn name(self) -> &'static str {
        match self {
            Channel::CobEncode => "cob::store::encoding::encode",
            Channel::DocEncode => "Doc::encode",
        }
    }
}

fn truncate(s: &str) -> String {
    if s.len() > 600 {
        let mut e = 600;
        while !s.is_char_boundary(e) {
            e -= 1;
        }
        format!("{}…(+{} bytes)", &s[..e], s.len() - e)
    } else {
        s.to_string()
    }
}

/// Encode through a channel. Ok(Ok(bytes)) / Ok(Err(msg)) / Err(panic).
fn run_channel(ch: Channel, v: &Value) -> Result<Result<Vec<u8>, String>, String> {
    match ch {
        Channel::CobEncode => guarded(|| encode(v).map_err(|e| e.to_string())),
        Channel::DocEncode => guarded(|| {
            let doc = doc_with_payload(v).map_err(|e| format!("fixture: {e}"))?;
            doc.encode().map(|(_, b)| b).map_err(|e| e.to_string())
        }),
    }
}

fn doc_with_payload(v: &Value) -> Result<radicle::identity::Doc, String> {
    let j = json!({"payload": {"xyz.radicle.project": v, "verif.second": {"k": 1}}, "delegates": [DID], "threshold": 1});
    // N.b. built through Value -> RawDoc so that the payload is taken over unchanged (no text
    // round-trip, floats and non-NFC strings survive).
    let raw: RawDoc = serde_json::from_value(j).map_err(|e| e.to_string())?;
    raw.verified().map_err(|e| e.to_string())
}

/// decode(out) -> encode again, per channel.
fn reencode(ch: Channel, out: &[u8]) -> Result<Result<Vec<u8>, String>, String> {
    match ch {
        Channel::CobEncode => guarded(|| {
            let v: Value = serde_json::from_slice(out).map_err(|e| format!("decode: {e}"))?;
            encode(&v).map_err(|e| format!("encode: {e}"))
        }),
        Channel::DocEncode => guarded(|| {
            let d = RawDoc::from_json(out).map_err(|e| format!("decode: {e}"))?.verified().map_err(|e| format!("decode: {e}"))?;
            d.encode().map(|(_, b)| b).map_err(|e| format!("encode: {e}"))
        }),
    }
}

fn judge(rep: &mut Reporter, v: &Value, ch: Channel, shuffle_seed: u64) {
    rep.eval();
    rep.count(&format!("channel:{}", ch.name()));
    let input_json = serde_json::to_string(v).unwrap_or_default();
    let mut f = Facts::default();
    jsgen::facts(v, 0, &mut f);
    let has_float = f.floats > 0;
    let wit = |extra: Value| {
        let mut w = json!({"channel": ch.name(), "input_json": input_json});
        if let (Some(o), Some(e)) = (w.as_object_mut(), extra.as_object()) {
            for (k, x) in e {
                o.insert(k.clone(), x.clone());
            }
        }
        w
    };
    // region counters (inputs)
    if f.non_nfc_strings > 0 { rep.count("input.has-non-nfc-string"); }
    if f.keys_collide_after_nfc > 0 { rep.count("input.keys-collide-after-nfc"); }
    if f.control_chars > 0 { rep.count("input.has-control-character"); }
    if f.quote_or_backslash > 0 { rep.count("input.has-quote-or-backslash"); }
    if f.key_pairs_prefix > 0 { rep.count("input.has-prefix-related-keys"); }
    if f.key_pairs_escape_sensitive > 0 { rep.count("input.has-key-pair-ordered-differently-when-escaped"); }
    if f.i64_min { rep.count("input.has-i64-min"); }
    if f.i64_max { rep.count("input.has-i64-max"); }
    if f.u64_max { rep.count("input.has-u64-max"); }
    rep.max("input-depth", f.max_depth);

    let out = match run_channel(ch, v) {
        Err(p) => {
            rep.violation(&format!("C18/encode-panicked/{}", vcommon::panic_site(&p)), wit(json!({"panic": p})));
            return;
        }
        Ok(Err(e)) if e.starts_with("fixture: ") => {
            rep.inconclusive("document fixture rejected", wit(json!({"error": e})));
            return;
        }
        Ok(Err(e)) => {
            if has_float {
                rep.count("float.rejected");
                rep.nontrivial(vcommon::fnv(format!("{}|{input_json}", ch.name()).as_bytes()));
            } else {
                rep.inconclusive("encode failed on a float-free value", wit(json!({"error": e})));
            }
            return;
        }
        Ok(Ok(b)) => b,
    };
    let out_text = String::from_utf8_lossy(&out).to_string();
    if has_float {
        rep.violation("C18/float-accepted", wit(json!({"output": truncate(&out_text)})));
        // keep judging the byte form
    }
    rep.count("encoded-ok");

    // (1) byte form, own checker
    let (findings, stats) = cjson::check(&out);
    for fd in &findings {
        let mut extra = json!({"output": truncate(&out_text), "detail": fd.detail});
        if let Some((k1, k2)) = &fd.keys {
            // minimal witness: an object with just the two offending keys
            let mut m = Map::new();
            m.insert(k2.clone(), Value::from(0));
            m.insert(k1.clone(), Value::from(0));
            let minimal = Value::Object(m);
            let mo = encode(&minimal).ok().map(|b| String::from_utf8_lossy(&b).to_string());
            extra["minimal_input_json"] = json!(serde_json::to_string(&minimal).unwrap_or_default());
            extra["minimal_output"] = json!(mo);
            extra["emitted_first"] = json!(k1);
            extra["emitted_second"] = json!(k2);
        }
        rep.violation(fd.sig, wit(extra));
    }
    if stats.objects_multi_key > 0 { rep.count("output.object-with-several-keys"); }
    rep.add("output.key-pairs-order-checked", stats.key_pairs_checked);
    rep.add("output.control-escapes", stats.escapes_control);
    rep.add("output.quote-backslash-escapes", stats.escapes_quote_backslash);
    rep.add("output.strings-nfc-checked", stats.strings);
    if findings.iter().any(|f| f.sig == "C18/output-malformed" || f.sig == "C18/output-not-utf8") {
        return;
    }

    // (2) the output denotes the input value (modulo NFC); skipped when keys collide after NFC
    let collision = f.keys_collide_after_nfc > 0;
    if !has_float && ch == Channel::CobEncode {
        let mut c = false;
        let model = jsgen::nfc_model(v, &mut c);
        match serde_json::from_slice::<Value>(&out) {
            Ok(parsed) => {
                if !c && !collision {
                    if parsed != model {
                        rep.violation("C18/output-denotes-different-value", wit(json!({"output": truncate(&out_text)})));
                    } else {
                        rep.count("value-preserved-modulo-nfc");
                    }
                }
            }
            Err(e) => rep.violation("C18/output-not-decodable", wit(json!({"output": truncate(&out_text), "error": e.to_string()}))),
        }
    }

    // (3) decode -> encode reproduces the bytes
    match reencode(ch, &out) {
        Err(p) => rep.violation(&format!("C18/reencode-panicked/{}", vcommon::panic_site(&p)), wit(json!({"output": truncate(&out_text), "panic": p}))),
        Ok(Err(e)) if e.starts_with("decode: ") => {
            rep.violation("C18/output-not-decodable", wit(json!({"output": truncate(&out_text), "error": e})))
        }
        Ok(Err(e)) => rep.violation("C18/decode-encode/second-encode-fails", wit(json!({"output": truncate(&out_text), "error": e}))),
        Ok(Ok(b2)) => {
            if b2 != out {
                rep.violation(
                    "C18/decode-encode/not-byte-identical",
                    wit(json!({"output": truncate(&out_text), "second_output": truncate(&String::from_utf8_lossy(&b2))})),
                );
            } else {
                rep.count("decode-encode.byte-identical");
            }
        }
    }

    // (4) single representation: the same value with members inserted in another order, and as a
    // HashMap, encodes to the same bytes (skipped on NFC key collisions, see module doc)
    if !collision && !has_float && ch == Channel::CobEncode {
        let mut rng = Rng::new(shuffle_seed);
        let sv = jsgen::shuffled(v, &mut rng);
        match guarded(|| encode(&sv)) {
            Ok(Ok(b)) if b == out => rep.count("insertion-order.same-bytes"),
            Ok(Ok(b)) => rep.violation(
                "C18/bytes-depend-on-member-insertion-order",
                wit(json!({"output": truncate(&out_text), "shuffled_input_json": serde_json::to_string(&sv).unwrap_or_default(), "shuffled_output": truncate(&String::from_utf8_lossy(&b))})),
            ),
            other => rep.violation("C18/bytes-depend-on-member-insertion-order", wit(json!({"shuffled_result": format!("{other:?}")}))),
        }
        if let Value::Object(m) = v {
            let hm: HashMap<String, Value> = m.iter().map(|(k, x)| (k.clone(), x.clone())).collect();
            match guarded(|| encode(&hm)) {
                Ok(Ok(b)) if b == out => rep.count("hashmap.same-bytes"),
                other => rep.violation("C18/bytes-depend-on-container-type", wit(json!({"output": truncate(&out_text), "hashmap_result": format!("{:?}", other.map(|r| r.map(|b| String::from_utf8_lossy(&b).to_string())))}))),
            }
        }
    }

    // non-trivial: something had to be sorted, escaped or normalised
    if f.objects_multi_key > 0 || f.non_nfc_strings > 0 || f.control_chars > 0 || f.quote_or_backslash > 0 {
        rep.nontrivial(vcommon::fnv(format!("{}|{input_json}", ch.name()).as_bytes()));
    }
    if rep.wants_sample() && f.objects_multi_key > 0 && out.len() < 300 && (f.non_nfc_strings > 0 || f.control_chars > 0) {
        rep.sample(json!({"channel": ch.name(), "input_json": input_json, "output": out_text}));
    }
}

pub fn run(args: &Args) {
    let mut rep = Reporter::new("C18");
    if let Some(path) = &args.replay {
        let w = vcommon::load_replay(path);
        let text = w["input_json"].as_str().unwrap_or("null");
        match serde_json::from_str::<Value>(text) {
            Ok(v) => {
                let ch = if w["channel"].as_str() == Some(Channel::DocEncode.name()) { Channel::DocEncode } else { Channel::CobEncode };
                judge(&mut rep, &v, ch, 1);
            }
            Err(e) => rep.inconclusive("replay file: input_json does not parse", json!({"error": e.to_string()})),
        }
        rep.finish();
        return;
    }
    // A few minimal hand-written members of the dangerous key families first (shard 0 only), so
    // that the first witness of a key-order problem is a small one.
    if args.shard == 0 {
        for text in CORPUS {
            let v: Value = serde_json::from_str(text).expect("corpus");
            judge(&mut rep, &v, Channel::CobEncode, 7);
            judge(&mut rep, &v, Channel::DocEncode, 7);
        }
    }
    let n = args.budget(400_000, 12_000_000);
    for k in 0..n {
        let seed = args.case_seed(k);
        let mut rng = Rng::new(seed);
        let want_float = rng.chance(1, 8);
        let allow_collide = rng.chance(1, 6);
        let v = jsgen::gen_value(&mut rng, want_float, allow_collide);
        let ch = if rng.chance(1, 4) { Channel::DocEncode } else { Channel::CobEncode };
        judge(&mut rep, &v, ch, seed ^ 0x5eed);
    }
    rep.finish();
}
