//! Seeded generator of `serde_json::Value`s aimed at the dangerous region of canonical JSON
//! (shared by C18 and C19), plus a tiny NFC reference model of a value.
use serde_json::{Map, Number, Value};
use unicode_normalization::UnicodeNormalization;
use vcommon::Rng;

/// Building blocks of keys and string values.
pub const ATOMS: &[&str] = &[
    "a", "b", "A", "z", "0", "~",
    " ", "!", "\"", "#", "$", "\\", "/", "[", "]",
    "\u{0}", "\u{1}", "\u{8}", "\t", "\n", "\u{b}", "\u{c}", "\r", "\u{1f}",
    "\u{7f}", "\u{80}", "\u{85}", "\u{a0}",
    "é", "e\u{301}", "\u{301}", "\u{300}", "\u{327}", "\u{323}",
    "Å", "\u{212B}", "A\u{30A}", "\u{2126}",
    "\u{1100}", "\u{1161}", "\u{11A8}", "가", "각",
    "\u{FB01}", "\u{0958}", "\u{1E9B}\u{323}", "\u{1D15E}",
    "😀", "\u{FFFF}", "\u{10FFFF}", "\u{2028}", "\u{d7ff}", "\u{e000}", "\u{feff}",
];

/// Suffixes that make keys prefix-related or differ first at a byte around '"' (0x22) / '\\'.
pub const SUFFIXES: &[&str] = &[
    "", " ", "!", "\"", "#", "\\", "\u{0}", "\t", "\n", "\u{1f}", "a", "A", "/", "[", "]", "\u{7f}", "é", "\u{301}", "0", "u", "t", "~",
];

/// Groups of distinct strings with the same NFC form.
pub const NFC_GROUPS: &[&[&str]] = &[
    &["é", "e\u{301}"],
    &["Å", "\u{212B}", "A\u{30A}"],
    &["가", "\u{1100}\u{1161}"],
    &["각", "\u{1100}\u{1161}\u{11A8}", "가\u{11A8}"],
    &["\u{1E69}", "s\u{323}\u{307}", "s\u{307}\u{323}", "\u{1E63}\u{307}"],
    &["\u{2126}", "\u{3A9}"],
    &["\u{0958}", "\u{0915}\u{093C}"],
];

pub const INTS_I: &[i64] = &[0, 1, -1, i64::MIN, i64::MIN + 1, i64::MAX, i64::MAX - 1, i32::MIN as i64, u32::MAX as i64, 255, 256, -9007199254740993];
pub const INTS_U: &[u64] = &[u64::MAX, u64::MAX - 1, i64::MAX as u64 + 1, i64::MAX as u64, 9007199254740993];
pub const FLOATS: &[f64] = &[0.5, -0.0, 0.0, 1.0, 8.0, -1.0, 1e300, 5e-324, 1e21, 123456789012345680000.0, f64::MAX, 18446744073709551616.0, 9223372036854775808.0, 0.1, 1e-7];

pub struct Gen<'a> {
    pub rng: &'a mut Rng,
    /// Remaining node budget of the value being built.
    pub budget: usize,
    pub allow_float: bool,
    /// Whether objects may get keys that collide after NFC (a per-case decision, so that most
    /// cases stay eligible for the value-preservation and insertion-order checks).
    pub allow_collide: bool,
    pub max_depth: usize,
}

impl Gen<'_> {
    pub fn string(&mut self) -> String {
        match self.rng.below(10) {
            0 => String::new(),
            1 => {
                // one member of an NFC group, possibly with context
                let g = *self.rng.pick(NFC_GROUPS);
                let mut s = String::new();
                if self.rng.bool() {
                    s.push_str(*self.rng.pick(ATOMS));
                }
                s.push_str(*self.rng.pick(g));
                if self.rng.bool() {
                    s.push_str(*self.rng.pick(ATOMS));
                }
                s
            }
            _ => {
                let n = 1 + self.rng.usize(5);
                (0..n).map(|_| *self.rng.pick(ATOMS)).collect()
            }
        }
    }

    fn int(&mut self) -> Value {
        match self.rng.below(6) {
            0 => Value::from(*self.rng.pick(INTS_U)),
            1 => Value::from(self.rng.u64()),
            2 => Value::from(self.rng.u64() as i64),
            3 => Value::from(self.rng.irange(-20, 20)),
            _ => Value::from(*self.rng.pick(INTS_I)),
        }
    }

    fn float(&mut self) -> Value {
        let f = if self.rng.chance(1, 4) { (self.rng.f64() - 0.5) * 1e6 } else { *self.rng.pick(FLOATS) };
        Number::from_f64(f).map(Value::Number).unwrap_or(Value::Null)
    }

    fn leaf(&mut self) -> Value {
        let w = if self.allow_float { [1, 1, 4, 5, 3] } else { [1, 1, 4, 5, 0] };
        match self.rng.weighted(&w) {
            0 => Value::Null,
            1 => Value::Bool(self.rng.bool()),
            2 => self.int(),
            3 => Value::String(self.string()),
            _ => self.float(),
        }
    }

    /// Keys of one object: random, prefix/suffix family, NFC-colliding, in random insertion order.
    pub fn keys(&mut self, n: usize) -> Vec<String> {
        let mut ks: Vec<String> = vec![];
        let strategy = if self.allow_collide { self.rng.below(4) } else { self.rng.below(3) };
        match strategy {
            0 => {
                for _ in 0..n {
                    ks.push(self.string());
                }
            }
            1 | 2 => {
                // family: common base + suffixes, sometimes a second level of suffix
                let base = if self.rng.chance(1, 3) { String::new() } else { self.string() };
                for _ in 0..n {
                    let mut k = base.clone();
                    k.push_str(*self.rng.pick(SUFFIXES));
                    if self.rng.chance(1, 3) {
                        k.push_str(*self.rng.pick(SUFFIXES));
                    }
                    ks.push(k);
                }
            }
            _ => {
                // members of NFC groups around a common prefix, plus fillers
                let base = if self.rng.bool() { String::new() } else { self.rng.pick(ATOMS).to_string() };
                let g = *self.rng.pick(NFC_GROUPS);
                for i in 0..n {
                    if i < g.len() && self.rng.chance(3, 4) {
                        ks.push(format!("{base}{}", g[i]));
                    } else {
                        ks.push(self.string());
                    }
                }
            }
        }
        self.rng.shuffle(&mut ks);
        ks
    }

    pub fn value(&mut self, depth: usize) -> Value {
        if self.budget == 0 || depth >= self.max_depth {
            return self.leaf();
        }
        self.budget -= 1;
        match self.rng.weighted(&[4, 2, 5]) {
            0 => self.leaf(),
            1 => {
                let n = self.rng.usize(4);
                Value::Array((0..n).map(|_| self.value(depth + 1)).collect())
            }
            _ => {
                let n = *self.rng.pick(&[0usize, 1, 2, 2, 3, 3, 4, 5, 7]);
                let mut m = Map::new();
                for k in self.keys(n) {
                    let v = self.value(depth + 1);
                    m.insert(k, v);
                }
                Value::Object(m)
            }
        }
    }
}

/// A generated value; `want_float` forces at least one float somewhere.
pub fn gen_value(rng: &mut Rng, want_float: bool, allow_collide: bool) -> Value {
    let budget = *rng.pick(&[3usize, 6, 10, 20, 40]);
    let mut g = Gen { rng, budget, allow_float: want_float, allow_collide, max_depth: 5 };
    // top level is mostly an object (the interesting shape)
    let mut v = if g.rng.chance(1, 8) { g.value(1) } else {
        let n = 1 + g.rng.usize(6);
        let mut m = Map::new();
        for k in g.keys(n) {
            let x = g.value(1);
            m.insert(k, x);
        }
        Value::Object(m)
    };
    if want_float && !contains_float(&v) {
        let f = g.float();
        v = match v {
            Value::Object(mut m) => {
                let k = g.string();
                m.insert(k, f);
                Value::Object(m)
            }
            Value::Array(mut a) => {
                a.push(f);
                Value::Array(a)
            }
            _ => f,
        };
    }
    v
}

pub fn contains_float(v: &Value) -> bool {
    match v {
        Value::Number(n) => n.is_f64(),
        Value::Array(a) => a.iter().any(contains_float),
        Value::Object(m) => m.values().any(contains_float),
        _ => false,
    }
}

pub fn nfc(s: &str) -> String {
    s.nfc().collect()
}

/// Facts about a value used for counters and for deciding which checks apply.
#[derive(Default, Debug, Clone)]
pub struct Facts {
    pub non_nfc_strings: u64,
    pub keys_collide_after_nfc: u64,
    pub control_chars: u64,
    pub quote_or_backslash: u64,
    pub objects_multi_key: u64,
    /// adjacent (in raw byte order) key pairs where one is a proper prefix of the other
    pub key_pairs_prefix: u64,
    /// key pairs (adjacent in raw byte order of the NFC forms) whose order differs between raw bytes
    /// and JSON-escaped quoted bytes (own escaping) — the region the C18 suspicion is about
    pub key_pairs_escape_sensitive: u64,
    pub i64_min: bool,
    pub i64_max: bool,
    pub u64_max: bool,
    pub floats: u64,
    pub max_depth: u64,
}

/// Reference JSON string escaping (RFC 8259 minimal set, lower-case hex), quoted. Only used to
/// *classify* generated inputs for counters, never as an oracle for the emitted bytes.
pub fn escape_quoted(s: &str) -> Vec<u8> {
    let mut o = vec![b'"'];
    for c in s.chars() {
        match c {
            '"' => o.extend(b"\\\""),
            '\\' => o.extend(b"\\\\"),
            '\u{8}' => o.extend(b"\\b"),
            '\t' => o.extend(b"\\t"),
            '\n' => o.extend(b"\\n"),
            '\u{c}' => o.extend(b"\\f"),
            '\r' => o.extend(b"\\r"),
            c if (c as u32) < 0x20 => o.extend(format!("\\u{:04x}", c as u32).bytes()),
            c => o.extend(c.encode_utf8(&mut [0; 4]).bytes()),
        }
    }
    o.push(b'"');
    o
}

pub fn facts(v: &Value, depth: u64, f: &mut Facts) {
    f.max_depth = f.max_depth.max(depth);
    let note_str = |s: &str, f: &mut Facts| {
        if nfc(s) != s {
            f.non_nfc_strings += 1;
        }
        if s.chars().any(|c| (c as u32) < 0x20) {
            f.control_chars += 1;
        }
        if s.contains('"') || s.contains('\\') {
            f.quote_or_backslash += 1;
        }
    };
    match v {
        Value::String(s) => note_str(s, f),
        Value::Number(n) => {
            if n.is_f64() {
                f.floats += 1;
            }
            if n.as_i64() == Some(i64::MIN) {
                f.i64_min = true;
            }
            if n.as_i64() == Some(i64::MAX) {
                f.i64_max = true;
            }
            if n.as_u64() == Some(u64::MAX) {
                f.u64_max = true;
            }
        }
        Value::Array(a) => a.iter().for_each(|x| facts(x, depth + 1, f)),
        Value::Object(m) => {
            let mut ks: Vec<String> = m.keys().map(|k| nfc(k)).collect();
            ks.sort_by(|a, b| a.as_bytes().cmp(b.as_bytes()));
            let before = ks.len();
            ks.dedup();
            if ks.len() != before {
                f.keys_collide_after_nfc += 1;
            }
            if ks.len() >= 2 {
                f.objects_multi_key += 1;
            }
            for i in 0..ks.len() {
                for j in i + 1..ks.len() {
                    // ks[i] < ks[j] in raw bytes
                    if j == i + 1 && ks[j].as_bytes().starts_with(ks[i].as_bytes()) {
                        f.key_pairs_prefix += 1;
                    }
                    if escape_quoted(&ks[i]) > escape_quoted(&ks[j]) {
                        f.key_pairs_escape_sensitive += 1;
                    }
                }
            }
            for (k, x) in m {
                note_str(k, f);
                facts(x, depth + 1, f);
            }
        }
        _ => {}
    }
}

/// NFC reference model of a value: every string and key normalised. `collision` is set when two
/// keys of one object become equal (the model then keeps the last one in iteration order, which is
/// NOT claimed to be what the product does — callers skip value comparisons on collisions).
pub fn nfc_model(v: &Value, collision: &mut bool) -> Value {
    match v {
        Value::String(s) => Value::String(nfc(s)),
        Value::Array(a) => Value::Array(a.iter().map(|x| nfc_model(x, collision)).collect()),
        Value::Object(m) => {
            let mut o = Map::new();
            for (k, x) in m {
                if o.insert(nfc(k), nfc_model(x, collision)).is_some() {
                    *collision = true;
                }
            }
            Value::Object(o)
        }
        other => other.clone(),
    }
}

/// Recursively re-insert object members in a random order (serde_json is built with
/// `preserve_order`, so insertion order is observable by the encoder).
pub fn shuffled(v: &Value, rng: &mut Rng) -> Value {
    match v {
        Value::Array(a) => Value::Array(a.iter().map(|x| shuffled(x, rng)).collect()),
        Value::Object(m) => {
            let mut items: Vec<(&String, &Value)> = m.iter().collect();
            rng.shuffle(&mut items);
            let mut o = Map::new();
            for (k, x) in items {
                o.insert(k.clone(), shuffled(x, rng));
            }
            Value::Object(o)
        }
        other => other.clone(),
    }
}
