//! C20 — Signed refs text round-trips and signatures bind exactly what is accepted.
//!
//! Ground truth of a case: a map name -> oid built by the generator (names accepted by
//! `RefString::try_from`, oids non-zero), a signer seed, and the honest signature over the
//! reference rendering of the canonical text (`<40 hex> <name>\n`, names in byte order).
//!
//! Oracle (independent of `Refs::canonical` / `SignedRefs::verify`):
//!  * `Refs::from_canonical(refs.canonical())` == refs;
//!  * whenever `SignedRefs::verified` / `SignedRefs::load_at` ACCEPTS (refs', key', sig') — honest,
//!    mutated at struct level, mutated at blob level, or loaded from a real git commit — then
//!    `key'.verify(own_canonical(accepted refs), sig')` must hold (ed25519 verification itself is
//!    trusted), and the returned `SignedRefs<Verified>` carries exactly (refs', key', sig').
//!    With an honest signature by `key` over `R`, this is equivalent to: acceptance after changing
//!    any ref, oid or key is a violation, while blob mutations that parse to the same ref set
//!    (hex case, `\r\n`, shortened zero-padded oids, re-ordered lines) are legitimately accepted.
//!
//! Reading of the statement (rule 1): rejection of an honest triple is not forbidden by the
//! statement ("succeeds only when"): reported as inconclusive. The repository-id binding through
//! `refs/rad/root` is exercised on two real repositories but only counted (it belongs to C01).
//! Panics are outside the statement: inconclusive.
use std::collections::BTreeMap;
use std::path::Path;

use radicle::crypto::test::signer::MockSigner;
use radicle::crypto::{PublicKey, Signature};
use radicle::git::{self, RefString};
use radicle::identity::doc::RawDoc;
use radicle::identity::{Did, Project, Visibility};
use radicle::node::device::Device;
use radicle::node::Alias;
use radicle::storage::git::{Repository, Storage};
use radicle::storage::refs::{Refs, SignedRefs};
use vcommon::{guarded, hex, json, unhex, Args, Reporter, Rng, Value};

type Dev = Device<MockSigner>;
type Truth = BTreeMap<String, [u8; 20]>;

// ---------------------------------------------------------------------------------------------
// fixtures: one real storage with two repositories per process

struct Fx {
    _dir: tempfile::TempDir,
    a: Repository,
    b: Repository,
    root_a: [u8; 20],
    root_b: [u8; 20],
}

fn fixture() -> Result<Fx, String> {
    let dir = vcommon::scratch_dir();
    let dev: Dev = Device::mock_from_seed([7u8; 32]);
    let storage = Storage::open(dir.path().join("storage"), git::UserInfo { alias: Alias::new("verif"), key: *dev.public_key() }).map_err(|e| e.to_string())?;
    let mk = |name: &str| -> Result<(Repository, [u8; 20]), String> {
        let project = Project::new(name.to_string().try_into().map_err(|_| "name")?, "verif".to_string(), RefString::try_from("master").expect("master")).map_err(|e| format!("{e:?}"))?;
        let doc = RawDoc::new(project, vec![Did::from(*dev.public_key())], 1, Visibility::Public).verified().map_err(|e| e.to_string())?;
        let (repo, commit) = Repository::init(&doc, &storage, &dev).map_err(|e| e.to_string())?;
        let mut c = [0u8; 20];
        c.copy_from_slice(commit.as_bytes());
        Ok((repo, c))
    };
    let (a, root_a) = mk("alpha")?;
    let (b, root_b) = mk("beta")?;
    Ok(Fx { _dir: dir, a, b, root_a, root_b })
}

// ---------------------------------------------------------------------------------------------
// reference model

fn own_canonical(r: &Truth) -> Vec<u8> {
    let mut out = Vec::new();
    for (name, oid) in r {
        out.extend(hex(oid).bytes());
        out.push(b' ');
        out.extend(name.bytes());
        out.push(b'\n');
    }
    out
}

fn to_oid(b: &[u8; 20]) -> git::Oid {
    git::Oid::from(git2::Oid::from_bytes(b).expect("20 bytes"))
}

fn to_refs(r: &Truth) -> Option<Refs> {
    let mut m: BTreeMap<RefString, git::Oid> = BTreeMap::new();
    for (n, o) in r {
        m.insert(RefString::try_from(n.clone()).ok()?, to_oid(o));
    }
    Some(Refs::from(m))
}

fn from_refs(r: &Refs) -> Truth {
    r.iter()
        .map(|(n, o)| {
            let mut b = [0u8; 20];
            b.copy_from_slice(o.as_bytes());
            (n.as_str().to_string(), b)
        })
        .collect()
}

fn own_verify(key: &PublicKey, text: &[u8], sig: &Signature) -> bool {
    key.verify(text, &sig.0).is_ok()
}

fn signer(seed: &[u8; 32]) -> Dev {
    Device::mock_from_seed(*seed)
}

// ---------------------------------------------------------------------------------------------
// generators

const OK_ATOMS: &[&str] = &[
    "a", "b", "z", "A", "Z", "0", "9", "-", "_", "+", "=", "!", "\"", "#", "$", "%", "&", "'", "(", ")", ",", ";", "<", ">", "]", "`", "{", "|", "}",
    "@", ".", "é", "e\u{301}", "日本", "\u{85}", "\u{a0}", "\u{2028}", "\u{feff}", "😀", "lock", "x.lockx", "a.loc", "@a", "a@", "a.b", "-", "HEAD", "refs", "heads",
];
const RISKY_ATOMS: &[&str] = &[".lock", "..", "~", "^", ":", "?", "*", "[", "\\", " ", "\t", "\u{7f}", "\u{0}", "\r", "\n", "@{", "//", ".", "@"];
const PREFIXES: &[&str] = &["refs/heads/", "refs/heads/", "refs/tags/", "refs/cobs/xyz.radicle.issue/", "refs/cobs/xyz.radicle.patch/", "refs/rad/", "refs/notes/", "", "refs/namespaces/z6Mk/refs/heads/", "refs/remotes/origin/"];
const FIXED: &[&str] = &["refs/rad/sigrefs", "refs/rad/id", "HEAD", "refs/heads/master", "refs/heads/main", "refs/heads/a", "refs/heads/a/b", "refs/heads/a-b", "refs/heads/a.b", "refs/heads/a!", "refs/heads/@", "refs/@/a", "a"];

fn gen_component(rng: &mut Rng) -> String {
    match rng.below(14) {
        0 => {
            // long components around 255 bytes and beyond
            let n = *rng.pick(&[254usize, 255, 256, 1000, 4096]);
            let mut s = "c".repeat(n - 1);
            s.push_str(*rng.pick(&["a", "é", ".", "@", "k"]));
            s
        }
        1 => rng.pick(&["@", "a@", "@a", "a.lock", "a.lockb", "a.loc", "lock", ".a", "a.", "a.b", "a..b", "a@{b", "{a@", "a@{", "-a", "a~", "a^1"]).to_string(),
        _ => {
            let n = 1 + rng.usize(4);
            (0..n).map(|_| if rng.chance(1, 12) { *rng.pick(RISKY_ATOMS) } else { *rng.pick(OK_ATOMS) }).collect()
        }
    }
}

fn gen_name(rng: &mut Rng) -> String {
    if rng.chance(1, 10) {
        return rng.pick(FIXED).to_string();
    }
    let mut s = rng.pick(PREFIXES).to_string();
    let depth = if rng.chance(1, 40) { 20 + rng.usize(40) } else { 1 + rng.usize(3) };
    for i in 0..depth {
        if i > 0 {
            s.push('/');
        }
        s.push_str(&gen_component(rng));
    }
    s
}

fn gen_oid(rng: &mut Rng) -> [u8; 20] {
    let mut o = [0u8; 20];
    match rng.below(10) {
        0 => o[19] = 1,
        1 => o[0] = 1,
        2 => o = [0xff; 20],
        3 => {
            // trailing zero bytes (hex text ends in zeros: short-hex parsing would pad the same way)
            rng.fill(&mut o[..10]);
            o[0] |= 1;
        }
        4 => {
            rng.fill(&mut o[10..]);
            o[19] |= 1;
        }
        _ => {
            rng.fill(&mut o);
            o[7] |= 1;
        }
    }
    o
}

struct Case {
    truth: Truth,
    seed: [u8; 32],
    with_root: bool,
}

fn gen_case(rng: &mut Rng, rep: &mut Reporter, fx: &Fx) -> Case {
    let n = match rng.below(50) {
        0 => 0,
        1 => 200 + rng.usize(200),
        2..=12 => 1,
        13..=22 => 2,
        _ => 3 + rng.usize(10),
    };
    let mut truth = Truth::new();
    let mut tries = 0;
    while truth.len() < n && tries < n * 6 + 10 {
        tries += 1;
        let name = gen_name(rng);
        match RefString::try_from(name.clone()) {
            Ok(_) => {
                if name == "refs/rad/root" {
                    continue;
                }
                if !name.is_ascii() { rep.count("name.non-ascii"); }
                if name.contains('@') { rep.count("name.with-at"); }
                if name.contains('.') { rep.count("name.with-dot"); }
                if name.len() >= 254 { rep.count("name.component-of-254-bytes-or-more"); }
                if name.contains("lock") { rep.count("name.lock-adjacent"); }
                truth.insert(name, gen_oid(rng));
            }
            Err(_) => rep.count("name.rejected-by-RefString"),
        }
    }
    // related names: share a prefix with an existing one
    if let Some(k) = truth.keys().next().cloned() {
        if rng.chance(1, 3) {
            for suffix in ["/x", "-", "0", "!", ".x"] {
                let name = format!("{k}{suffix}");
                if rng.bool() && RefString::try_from(name.clone()).is_ok() {
                    truth.insert(name, gen_oid(rng));
                    rep.count("name.prefix-related");
                }
            }
        }
    }
    let with_root = rng.chance(1, 4);
    if with_root {
        truth.insert("refs/rad/root".into(), fx.root_a);
    }
    let mut seed = [0u8; 32];
    rng.fill(&mut seed);
    Case { truth, seed, with_root }
}

// ---------------------------------------------------------------------------------------------
// judging one (refs', key', sig') triple

fn refs_json(r: &Truth) -> Value {
    Value::Array(r.iter().map(|(n, o)| json!([n, hex(o)])).collect())
}

fn refs_from_json(v: &Value) -> Truth {
    v.as_array()
        .map(|a| {
            a.iter()
                .filter_map(|e| {
                    let n = e[0].as_str()?.to_string();
                    let o = unhex(e[1].as_str()?)?;
                    let mut b = [0u8; 20];
                    if o.len() != 20 {
                        return None;
                    }
                    b.copy_from_slice(&o);
                    Some((n, b))
                })
                .collect()
        })
        .unwrap_or_default()
}

/// Stable failure class of a mutation label (one signature per kind of thing that was changed,
/// not per mutation operator).
fn class(label: &str) -> &'static str {
    if label == "honest" {
        "nothing-changed"
    } else if label.starts_with("key-") {
        "key-changed"
    } else if label.starts_with("signature-") {
        "signature-changed"
    } else if label.starts_with("oid") || label.starts_with("ref-") || label.starts_with("root-") {
        "refs-changed"
    } else {
        "refs-blob-changed"
    }
}

#[derive(Clone, Copy, PartialEq)]
enum Expect {
    /// honest triple: acceptance expected (rejection = inconclusive)
    Honest,
    /// mutated: anything goes as long as what is accepted is covered by the signature
    Mutated,
}

/// `SignedRefs::new(refs', key', sig').verified(repo)` under the oracle. Returns whether accepted.
#[allow(clippy::too_many_arguments)]
fn judge_struct(rep: &mut Reporter, repo: &Repository, r: &Truth, key: &PublicKey, sig: &Signature, label: &str, expect: Expect, base: &Value) -> Option<bool> {
    rep.eval();
    let Some(refs) = to_refs(r) else {
        rep.inconclusive("mutated name is not a RefString", json!({"label": label}));
        return None;
    };
    let wit = || {
        let mut w = base.clone();
        w["mutation"] = json!({"path": "struct", "label": label, "refs": refs_json(r), "key": key.to_string(), "sig": hex(sig.as_ref())});
        w
    };
    let (k, s) = (*key, *sig);
    let refs2 = refs.clone();
    match guarded(move || SignedRefs::new(refs2, k, s).verified(repo).map_err(|e| e.to_string())) {
        Err(p) => {
            rep.inconclusive("panic in SignedRefs::verified", json!({"panic": p, "witness": wit()}));
            None
        }
        Ok(Err(e)) => {
            rep.count(&format!("rejected:{label}"));
            if expect == Expect::Honest {
                rep.inconclusive("honest signed refs were rejected", json!({"error": e, "witness": wit()}));
            }
            Some(false)
        }
        Ok(Ok(v)) => {
            rep.count(&format!("accepted:{label}"));
            let accepted = from_refs(&v.refs);
            if !own_verify(&v.id, &own_canonical(&accepted), &v.signature) {
                rep.violation(&format!("C20/verify/accepted-but-signature-does-not-cover-accepted-refs/{}", class(label)), wit());
            }
            if accepted != *r || v.id != *key || v.signature != *sig {
                rep.violation("C20/verify/verified-value-differs-from-what-was-checked", wit());
            }
            Some(true)
        }
    }
}

/// Blob-level: `from_canonical(blob)` then `verified`, same oracle.
fn judge_blob(rep: &mut Reporter, repo: &Repository, blob: &[u8], truth: &Truth, key: &PublicKey, sig: &Signature, label: &str, base: &Value) {
    rep.eval();
    let b2 = blob.to_vec();
    let parsed = match guarded(move || Refs::from_canonical(&b2).map_err(|e| e.to_string())) {
        Err(p) => {
            rep.inconclusive("panic in Refs::from_canonical", json!({"panic": p, "blob_hex": hex(blob)}));
            return;
        }
        Ok(Err(_)) => {
            rep.count("blob-mutation.unparsable");
            return;
        }
        Ok(Ok(r)) => r,
    };
    let rm = from_refs(&parsed);
    let wit = || {
        let mut w = base.clone();
        w["mutation"] = json!({"path": "blob", "label": label, "blob_hex": hex(blob), "key": key.to_string(), "sig": hex(sig.as_ref())});
        w
    };
    let same = rm == *truth;
    if same {
        rep.count("blob-mutation.parses-to-same-refs");
    } else {
        rep.count("blob-mutation.parses-to-different-refs");
    }
    // every accepted text denotes a ref set that must round-trip as well
    if rm.values().all(|o| o != &[0u8; 20]) {
        let p2 = parsed.clone();
        match guarded(move || Refs::from_canonical(&p2.canonical()).map(|x| x == p2).map_err(|e| e.to_string())) {
            Ok(Ok(true)) => {}
            other => rep.violation("C20/roundtrip/parsed-refs-do-not-round-trip", json!({"blob_hex": hex(blob), "got": format!("{other:?}")})),
        }
    }
    let (k, s) = (*key, *sig);
    match guarded(move || SignedRefs::new(parsed, k, s).verified(repo).map_err(|e| e.to_string())) {
        Err(p) => rep.inconclusive("panic in SignedRefs::verified", json!({"panic": p, "witness": wit()})),
        Ok(Err(_)) => rep.count("blob-mutation.rejected"),
        Ok(Ok(v)) => {
            rep.count("blob-mutation.accepted");
            let accepted = from_refs(&v.refs);
            if !own_verify(&v.id, &own_canonical(&accepted), &v.signature) {
                let sig_name = if same { "C20/verify/accepted-but-signature-does-not-cover-accepted-refs/refs-blob-respelled" } else { "C20/verify/mutated-refs-blob-accepted-with-different-refs" };
                rep.violation(sig_name, wit());
            } else if !same {
                // own verification passes for a different ref set with the old signature: impossible
                // unless the signature scheme is broken; keep it visible
                rep.violation("C20/verify/mutated-refs-blob-accepted-with-different-refs", wit());
            }
        }
    }
}

/// Through git: a commit with `refs` and `signature` blobs, loaded with `SignedRefs::load_at`.
fn judge_git(rep: &mut Reporter, repo: &Repository, blob: &[u8], sigbytes: &[u8], key: &PublicKey, label: &str, base: &Value) {
    rep.eval();
    let raw = &repo.backend;
    let commit = (|| -> Result<git2::Oid, git2::Error> {
        let rb = raw.blob(blob)?;
        let sb = raw.blob(sigbytes)?;
        let mut tb = raw.treebuilder(None)?;
        tb.insert("refs", rb, 0o100_644)?;
        tb.insert("signature", sb, 0o100_644)?;
        let tree = raw.find_tree(tb.write()?)?;
        let who = git2::Signature::new("verif", "verif@localhost", &git2::Time::new(1_700_000_000, 0))?;
        raw.commit(None, &who, &who, "sigrefs", &tree, &[])
    })();
    let commit = match commit {
        Ok(c) => c,
        Err(e) => {
            rep.inconclusive("cannot write sigrefs commit", json!({"error": e.to_string()}));
            return;
        }
    };
    let wit = || {
        let mut w = base.clone();
        w["mutation"] = json!({"path": "git", "label": label, "blob_hex": hex(blob), "key": key.to_string(), "sig": hex(sigbytes)});
        w
    };
    let k = *key;
    match guarded(move || SignedRefs::load_at(commit.into(), k, repo).map_err(|e| e.to_string())) {
        Err(p) => rep.inconclusive("panic in SignedRefs::load_at", json!({"panic": p, "witness": wit()})),
        Ok(Err(_)) => rep.count(&format!("git.rejected:{label}")),
        Ok(Ok(v)) => {
            rep.count(&format!("git.accepted:{label}"));
            let accepted = from_refs(&v.refs);
            if v.id != *key || v.signature.as_ref() != sigbytes || !own_verify(&v.id, &own_canonical(&accepted), &v.signature) {
                rep.violation(&format!("C20/load-at/accepted-but-signature-does-not-cover-accepted-refs/{}", class(label)), wit());
            }
        }
    }
}

fn other_valid_name(rng: &mut Rng, avoid: &Truth) -> String {
    for _ in 0..50 {
        let n = gen_name(rng);
        if !avoid.contains_key(&n) && n != "refs/rad/root" && RefString::try_from(n.clone()).is_ok() {
            return n;
        }
    }
    format!("refs/heads/fresh-{}", rng.u32())
}

fn mutate_blob(rng: &mut Rng, t: &[u8]) -> (Vec<u8>, &'static str) {
    let mut v = t.to_vec();
    match rng.below(12) {
        0 | 1 | 2 if !v.is_empty() => {
            let i = rng.usize(v.len());
            v[i] ^= 1 << rng.below(8);
            (v, "bit-flip")
        }
        3 if !v.is_empty() => {
            let i = rng.usize(v.len());
            v.remove(i);
            (v, "byte-deleted")
        }
        4 => {
            let i = rng.usize(v.len() + 1);
            v.insert(i, *rng.pick(&[b' ', b'\n', b'\r', b'0', b'a', b'f', b'/', 0u8, b'\t', 0xc3]));
            (v, "byte-inserted")
        }
        5 => {
            // drop / duplicate / swap whole lines
            let mut lines: Vec<&[u8]> = t.split_inclusive(|b| *b == b'\n').collect();
            if lines.is_empty() {
                return (b"\n".to_vec(), "line-op");
            }
            match rng.below(3) {
                0 => {
                    let i = rng.usize(lines.len());
                    lines.remove(i);
                }
                1 => {
                    let i = rng.usize(lines.len());
                    let l = lines[i];
                    let at = rng.usize(lines.len() + 1);
                    lines.insert(at, l);
                }
                _ => lines.reverse(),
            }
            (lines.concat(), "line-op")
        }
        6 => {
            v.extend(format!("{} refs/heads/extra\n", "0".repeat(40)).bytes());
            (v, "zero-oid-line-appended")
        }
        7 => {
            v.extend(format!("{} refs/heads/extra\n", hex(&gen_oid(rng))).bytes());
            (v, "line-appended")
        }
        8 => {
            let n = rng.usize(v.len() + 1);
            v.truncate(n);
            (v, "truncated")
        }
        9 => {
            // \r\n line ends
            let mut o = vec![];
            for b in t {
                if *b == b'\n' {
                    o.push(b'\r');
                }
                o.push(*b);
            }
            (o, "crlf")
        }
        10 => {
            // upper-case hex / shortened oid of the first line
            if rng.bool() {
                for b in v.iter_mut().take(40) {
                    b.make_ascii_uppercase();
                }
                (v, "upper-case-hex")
            } else if v.len() > 41 {
                let cut = 1 + rng.usize(6);
                v.drain(40 - cut..40);
                (v, "oid-shortened")
            } else {
                (v, "noop")
            }
        }
        _ => {
            if let Some(p) = t.iter().position(|b| *b == b' ') {
                // re-point the first ref
                let o = hex(&gen_oid(rng));
                v.splice(0..p, o.bytes());
            }
            (v, "oid-replaced-in-text")
        }
    }
}

fn run_case(rep: &mut Reporter, rng: &mut Rng, fx: &Fx, exhaustive: bool, git_sample: bool) {
    let case = gen_case(rng, rep, fx);
    let truth = &case.truth;
    let dev = signer(&case.seed);
    let key = *dev.public_key();
    let base = json!({"refs": refs_json(truth), "signer_seed": hex(&case.seed)});
    let text = own_canonical(truth);
    rep.count(match truth.len() { 0 => "set.empty", 1 => "set.one-ref", 2..=20 => "set.2-to-20-refs", _ => "set.many-refs" });
    rep.max("refs-in-set", truth.len() as u64);

    // (1) text round trip
    rep.eval();
    let Some(refs) = to_refs(truth) else { return };
    let r2 = refs.clone();
    match guarded(move || {
        let t = r2.canonical();
        (Refs::from_canonical(&t).map_err(|e| e.to_string()), t)
    }) {
        Err(p) => rep.inconclusive("panic in canonical/from_canonical", json!({"panic": p, "witness": base})),
        Ok((Ok(back), t)) => {
            if back == refs && from_refs(&back) == *truth {
                rep.count("roundtrip.ok");
            } else {
                rep.violation("C20/roundtrip/parsed-set-differs", json!({"refs": refs_json(truth), "canonical_hex": hex(&t), "parsed": refs_json(&from_refs(&back))}));
            }
            if t != text {
                rep.inconclusive("canonical text differs from the reference rendering; signature checks skipped", json!({"canonical_hex": hex(&t), "reference_hex": hex(&text)}));
                return;
            }
        }
        Ok((Err(e), t)) => {
            rep.violation("C20/roundtrip/canonical-text-rejected", json!({"refs": refs_json(truth), "canonical_hex": hex(&t), "error": e}));
            return;
        }
    }
    rep.nontrivial(vcommon::fnv(&text));

    // (2) honest signature
    let r3 = refs.clone();
    let dev2 = dev.clone();
    let signed = match guarded(move || r3.signed(&dev2).map_err(|e| e.to_string())) {
        Ok(Ok(s)) => s,
        other => {
            rep.inconclusive("Refs::signed failed", json!({"got": format!("{:?}", other.map(|r| r.map(|_| ())))}));
            return;
        }
    };
    let sig = signed.signature;
    if signed.id != key || from_refs(&signed.refs) != *truth {
        rep.violation("C20/signed/value-differs-from-input", base.clone());
    }
    if !own_verify(&key, &text, &sig) {
        // what `signed` signs is not the canonical text of the refs
        rep.violation("C20/signed/signature-is-not-over-canonical-text", base.clone());
        return;
    }
    let repo = &fx.a;
    if judge_struct(rep, repo, truth, &key, &sig, "honest", Expect::Honest, &base) != Some(true) {
        return;
    }
    if case.with_root {
        rep.count("root.present-and-bound-to-this-repository");
        // the same signed refs presented to another repository (counted only, see module doc)
        let (k, s, r) = (key, sig, refs.clone());
        match guarded(move || SignedRefs::new(r, k, s).verified(&fx.b).is_ok()) {
            Ok(true) => rep.count("observation:root-of-other-repository-accepted"),
            Ok(false) => rep.count("root.other-repository-rejected"),
            Err(_) => {}
        }
    }
    if rep.wants_sample() && truth.len() >= 2 && truth.len() <= 4 && text.len() < 400 {
        rep.sample(json!({"canonical_text": String::from_utf8_lossy(&text), "key": key.to_string(), "signature": sig.to_string()}));
    }

    // (3) struct-level mutations
    let names: Vec<String> = truth.keys().cloned().collect();
    let other_dev = {
        let mut s = case.seed;
        s[0] ^= 0x55;
        signer(&s)
    };
    for _ in 0..6 {
        let mut r = truth.clone();
        let mut k = key;
        let mut s = sig;
        let label: &str = match rng.below(13) {
            0 if !names.is_empty() => {
                let n = rng.pick(&names).clone();
                let o = r.get_mut(&n).unwrap();
                o[rng.usize(20)] ^= 1 << rng.below(8);
                if *o == [0u8; 20] {
                    continue;
                }
                "oid-bit-flipped"
            }
            1 if !names.is_empty() => {
                let n = rng.pick(&names).clone();
                r.insert(n, gen_oid(rng));
                "oid-replaced"
            }
            2 if !names.is_empty() => {
                let n = rng.pick(&names).clone();
                let o = r.remove(&n).unwrap();
                r.insert(other_valid_name(rng, truth), o);
                "ref-renamed"
            }
            3 if !names.is_empty() => {
                let n = rng.pick(&names).clone();
                r.remove(&n);
                "ref-removed"
            }
            4 => {
                r.insert(other_valid_name(rng, truth), gen_oid(rng));
                "ref-added"
            }
            5 if names.len() >= 2 => {
                let a = rng.pick(&names).clone();
                let b = rng.pick(&names).clone();
                let (oa, ob) = (r[&a], r[&b]);
                if oa == ob {
                    continue;
                }
                r.insert(a, ob);
                r.insert(b, oa);
                "oids-swapped"
            }
            6 => {
                let mut kb = [0u8; 32];
                kb.copy_from_slice(&key[..]);
                kb[rng.usize(32)] ^= 1 << rng.below(8);
                k = PublicKey::from(kb);
                "key-bit-flipped"
            }
            7 => {
                k = *other_dev.public_key();
                "key-of-someone-else"
            }
            8 | 9 => {
                let mut sb = [0u8; 64];
                sb.copy_from_slice(sig.as_ref());
                sb[rng.usize(64)] ^= 1 << rng.below(8);
                s = Signature::from(sb);
                "signature-bit-flipped"
            }
            10 => {
                // a valid signature, but by another key
                use radicle::crypto::signature::Signer as _;
                match other_dev.try_sign(&text) {
                    Ok(x) => s = x,
                    Err(_) => continue,
                }
                "signature-by-other-key"
            }
            11 => {
                // a valid signature by the right key over other refs
                use radicle::crypto::signature::Signer as _;
                let mut r2 = truth.clone();
                r2.insert(other_valid_name(rng, truth), gen_oid(rng));
                match dev.try_sign(&own_canonical(&r2)) {
                    Ok(x) => s = x,
                    Err(_) => continue,
                }
                "signature-over-other-refs"
            }
            12 if case.with_root => {
                // re-point the identity root: to the other repository's root, or to nothing known
                let o = if rng.bool() { fx.root_b } else { gen_oid(rng) };
                r.insert("refs/rad/root".into(), o);
                "root-repointed"
            }
            _ => continue,
        };
        if r == *truth && k == key && s == sig {
            continue;
        }
        rep.count(&format!("mutation:{label}"));
        judge_struct(rep, repo, &r, &k, &s, label, Expect::Mutated, &base);
    }

    // (4) blob-level mutations
    if exhaustive && text.len() <= 160 && !text.is_empty() {
        rep.count("exhaustive-single-byte-mutation-sets");
        for i in 0..text.len() {
            for bit in 0..8 {
                let mut v = text.clone();
                v[i] ^= 1 << bit;
                judge_blob(rep, repo, &v, truth, &key, &sig, "bit-flip", &base);
            }
            let mut v = text.clone();
            v.remove(i);
            judge_blob(rep, repo, &v, truth, &key, &sig, "byte-deleted", &base);
            for ins in [b' ', b'\n', b'\r', b'0', b'a', b'/', 0u8] {
                let mut v = text.clone();
                v.insert(i, ins);
                judge_blob(rep, repo, &v, truth, &key, &sig, "byte-inserted", &base);
            }
        }
    } else {
        for _ in 0..8 {
            let (v, label) = mutate_blob(rng, &text);
            if v == text {
                continue;
            }
            rep.count(&format!("blob-mutation:{label}"));
            judge_blob(rep, repo, &v, truth, &key, &sig, label, &base);
        }
    }

    // (5) through git
    if git_sample {
        judge_git(rep, repo, &text, sig.as_ref(), &key, "honest", &base);
        for _ in 0..3 {
            let (v, label) = mutate_blob(rng, &text);
            if v != text {
                judge_git(rep, repo, &v, sig.as_ref(), &key, label, &base);
            }
        }
        let mut sb = sig.as_ref().to_vec();
        match rng.below(4) {
            0 => {
                sb.pop();
            }
            1 => sb.push(0),
            2 => sb.clear(),
            _ => {
                let i = rng.usize(sb.len());
                sb[i] ^= 1 << rng.below(8);
            }
        }
        judge_git(rep, repo, &text, &sb, &key, "signature-blob-mutated", &base);
        judge_git(rep, repo, &text, sig.as_ref(), other_dev.public_key(), "key-of-someone-else", &base);
    }
}

fn replay(rep: &mut Reporter, w: &Value, fx: &Fx) {
    let truth = refs_from_json(&w["refs"]);
    let mut seed = [0u8; 32];
    if let Some(s) = w["signer_seed"].as_str().and_then(unhex) {
        if s.len() == 32 {
            seed.copy_from_slice(&s);
        }
    }
    let base = json!({"refs": refs_json(&truth), "signer_seed": hex(&seed)});
    let m = &w["mutation"];
    let key: Option<PublicKey> = m["key"].as_str().and_then(|k| k.parse().ok());
    let sigb = m["sig"].as_str().and_then(unhex).unwrap_or_default();
    let (Some(key), Some(path)) = (key, m["path"].as_str()) else {
        // a round-trip witness: re-run the round trip
        rep.eval();
        if let Some(refs) = to_refs(&truth) {
            match Refs::from_canonical(&refs.canonical()) {
                Ok(b) if b == refs => rep.count("roundtrip.ok"),
                _ => rep.violation("C20/roundtrip/parsed-set-differs", base),
            }
        }
        return;
    };
    let label = m["label"].as_str().unwrap_or("replay").to_string();
    match path {
        "struct" => {
            let r = refs_from_json(&m["refs"]);
            if let Ok(sig) = Signature::try_from(sigb.as_slice()) {
                judge_struct(rep, &fx.a, &r, &key, &sig, &label, Expect::Mutated, &base);
            }
        }
        "blob" => {
            let blob = m["blob_hex"].as_str().and_then(unhex).unwrap_or_default();
            if let Ok(sig) = Signature::try_from(sigb.as_slice()) {
                judge_blob(rep, &fx.a, &blob, &truth, &key, &sig, &label, &base);
            }
        }
        _ => {
            let blob = m["blob_hex"].as_str().and_then(unhex).unwrap_or_default();
            judge_git(rep, &fx.a, &blob, &sigb, &key, &label, &base);
        }
    }
}

pub fn run(args: &Args) {
    let mut rep = Reporter::new("C20");
    let fx = match fixture() {
        Ok(f) => f,
        Err(e) => {
            rep.inconclusive("storage fixture", json!({"error": e}));
            rep.finish();
            return;
        }
    };
    let _ = Path::new(".");
    if let Some(path) = &args.replay {
        let w = vcommon::load_replay(path);
        replay(&mut rep, &w, &fx);
        rep.finish();
        return;
    }
    let n = args.budget(24_000, 800_000);
    for k in 0..n {
        let mut rng = Rng::new(args.case_seed(k));
        run_case(&mut rep, &mut rng, &fx, k % 24 == 0, k % 6 == 1);
    }
    rep.finish();
}
