pub fn run(_args: &vcommon::Args) { unimplemented!() }
