//! C19 — Identity documents are always valid and bound to the repository id.
//!
//! Three workloads:
//!  (A) arbitrary JSON documents through every public way a document is accepted from JSON or git
//!      (`serde_json::from_slice::<Doc>`, `RawDoc::from_json(..).verified()`,
//!      `serde_json::from_value::<Doc>`, `Doc::from_blob` on a real git blob, `Doc::load_at` on a
//!      real commit, `serde_json::from_str::<Delegates>` / `<Version>`, and the programmatic
//!      `RawDoc { pub fields }.verified()` / `Doc::with_edits`). One-directional oracle: whatever
//!      is ACCEPTED must have 1..=255 distinct delegates, 1 <= threshold <= #delegates, version 1
//!      — and must say what the JSON said (threshold, de-duplicated delegate list).
//!  (B) valid documents: encode -> decode equality through both decoders, oid == own SHA-1 git blob
//!      hash of the emitted bytes.
//!  (C) `Repository::init` on a real temporary storage: rid == own blob hash of `Doc::encode`'s
//!      bytes, the blob is in the repository, the document read back from git is equal.
//!
//! Reading of the statement (rule 1): rejection is never judged (the statement only constrains
//! accepted documents). A valid document that gets rejected, or a float-free document whose
//! encoding fails, is reported as `inconclusive`, not as a violation. "Supported version" = 1
//! (`IDENTITY_VERSION`); if heartwood ever supports version 2 this monitor must be updated.
use std::collections::BTreeSet;
use std::path::Path;
use std::sync::OnceLock;

use radicle::crypto::PublicKey;
use radicle::git;
use radicle::identity::doc::{Delegates, Version};
use radicle::identity::{Did, Doc, RawDoc, RepoId};
use radicle::node::device::Device;
use radicle::node::Alias;
use radicle::storage::git::{Repository, Storage};
use radicle::storage::ReadRepository;
use serde_json::{Map, Value};
use vcommon::{guarded, hex, json, Args, Reporter, Rng};

use crate::jsgen;

// ---------------------------------------------------------------------------------------------
// fixtures

const POOL: usize = 320;

/// Deterministic pool of syntactically valid DIDs: (key bytes, canonical text).
fn pool() -> &'static Vec<([u8; 32], String)> {
    static P: OnceLock<Vec<([u8; 32], String)>> = OnceLock::new();
    P.get_or_init(|| {
        let mut rng = Rng::new(0xD1D5);
        (0..POOL)
            .map(|_| {
                let mut b = [0u8; 32];
                rng.fill(&mut b);
                (b, Did::from(PublicKey::from(b)).to_string())
            })
            .collect()
    })
}

/// Another accepted spelling of the same DID (multibase base16 instead of base58btc).
fn alt_spelling(key: &[u8; 32]) -> String {
    format!("did:key:f{}{}", hex(&PublicKey::MULTICODEC_TYPE), hex(key))
}

pub fn git_blob_sha1(bytes: &[u8]) -> [u8; 20] {
    let mut h = sha1_smol::Sha1::new();
    h.update(format!("blob {}\0", bytes.len()).as_bytes());
    h.update(bytes);
    h.digest().bytes()
}

// ---------------------------------------------------------------------------------------------
// what the generator knows about a document it wrote

#[derive(Debug, Clone, Default)]
struct Truth {
    /// Delegate keys in list order (None when some entry is not a well-formed DID string or the
    /// field is missing / not a list).
    delegates: Option<Vec<[u8; 32]>>,
    /// The threshold when it is a plain non-negative integer.
    threshold: Option<u64>,
    /// Text-level duplicate fields were appended (no ground truth then).
    dup_fields: bool,
}

impl Truth {
    fn distinct(&self) -> Option<Vec<[u8; 32]>> {
        self.delegates.as_ref().map(|d| {
            let mut out: Vec<[u8; 32]> = vec![];
            for k in d {
                if !out.contains(k) {
                    out.push(*k);
                }
            }
            out
        })
    }
}

fn gen_delegates(rng: &mut Rng, big: bool) -> (Value, Option<Vec<[u8; 32]>>, &'static str) {
    let p = pool();
    let start = rng.usize(POOL);
    let take = |n: usize| -> Vec<usize> { (0..n).map(|i| (start + i) % POOL).collect() };
    let shape = if big { 4 + rng.below(6) } else { rng.weighted(&[1, 4, 4, 5]) as u64 };
    let (mut idx, name): (Vec<usize>, &'static str) = match shape {
        0 => (vec![], "empty"),
        1 => (take(1), "one"),
        2 => (take(2 + rng.usize(4)), "few"),
        3 => {
            let mut v = take(1 + rng.usize(4));
            for _ in 0..1 + rng.usize(3) {
                let d = *rng.pick(&v);
                let at = rng.usize(v.len() + 1);
                v.insert(at, d);
            }
            (v, "few-with-duplicates")
        }
        4 => (take(255), "255"),
        5 => (take(256), "256"),
        6 => {
            let mut v = take(255);
            for _ in 0..1 + rng.usize(45) {
                let d = *rng.pick(&v);
                let at = rng.usize(v.len() + 1);
                v.insert(at, d);
            }
            (v, "255-distinct-plus-duplicates")
        }
        7 => {
            let mut v = take(254);
            let d = *rng.pick(&v);
            v.push(d);
            (v, "254-distinct-plus-duplicate")
        }
        8 => (take(257 + rng.usize(44)), "257..300"),
        _ => {
            // 256 distinct with duplicates in front: the 256th distinct arrives late
            let mut v = take(256);
            let d = v[0];
            v.insert(1, d);
            (v, "256-distinct-plus-duplicates")
        }
    };
    if rng.chance(1, 6) {
        rng.shuffle(&mut idx);
    }
    let mut keys: Vec<[u8; 32]> = vec![];
    let mut items: Vec<Value> = vec![];
    let mut seen: BTreeSet<usize> = BTreeSet::new();
    for i in idx {
        let (k, text) = &p[i];
        // duplicates are sometimes spelled differently
        let t = if !seen.insert(i) && rng.chance(1, 3) { alt_spelling(k) } else { text.clone() };
        keys.push(*k);
        items.push(Value::String(t));
    }
    // ill-typed variants
    match rng.below(24) {
        0 => {
            let bad = match rng.below(5) {
                0 => json!("did:key:z6Mk"),
                1 => json!(1),
                2 => Value::Null,
                3 => json!("z6MknSLrJoTcukLrE435hVNQT4JUhbvWLX4kUzqkEStBU8Vi"),
                _ => json!("did:key:"),
            };
            let at = rng.usize(items.len() + 1);
            items.insert(at, bad);
            (Value::Array(items), None, "with-ill-formed-entry")
        }
        1 => (items.first().cloned().unwrap_or(Value::Null), None, "not-a-list"),
        _ => (Value::Array(items), Some(keys), name),
    }
}

fn gen_threshold(rng: &mut Rng, distinct: usize, total: usize) -> (Value, Option<u64>) {
    let d = distinct as u64;
    let t = total as u64;
    match rng.below(20) {
        0 => (json!(0), Some(0)),
        1 | 2 | 3 => (json!(1), Some(1)),
        4 | 5 => (json!(d), Some(d)),
        6 | 7 => (json!(d + 1), Some(d + 1)),
        8 => (json!(d.saturating_sub(1)), Some(d.saturating_sub(1))),
        9 => (json!(t), Some(t)),
        10 => {
            // between #distinct and #listed (only differs when there are duplicates)
            let x = rng.range(d.min(t), t.max(d));
            (json!(x), Some(x))
        }
        11 => {
            let x = *rng.pick(&[254u64, 255, 256, 257, 300]);
            (json!(x), Some(x))
        }
        12 => {
            let x = *rng.pick(&[u64::MAX, u32::MAX as u64, 1 << 32, (1 << 32) + 1, 65536 + 1]);
            (json!(x), Some(x))
        }
        13 => (rng.pick(&[json!(-1), json!(1.0), json!("1"), Value::Null, json!(true), json!([1]), json!(1.5)]).clone(), None),
        _ => {
            let x = rng.range(0, 300);
            (json!(x), Some(x))
        }
    }
}

fn gen_visibility(rng: &mut Rng) -> Option<Value> {
    let p = pool();
    let dids = |n: usize, rng: &mut Rng| -> Vec<Value> {
        (0..n)
            .map(|_| {
                let (k, t) = &p[rng.usize(8)];
                if rng.chance(1, 5) { json!(alt_spelling(k)) } else { json!(t) }
            })
            .collect()
    };
    match rng.below(12) {
        0 => Some(json!({"type": "public"})),
        1 => Some(json!({"type": "private"})),
        2 => Some(json!({"type": "private", "allow": []})),
        3 | 4 => {
            let n = 1 + rng.usize(4);
            Some(json!({"type": "private", "allow": dids(n, rng)}))
        }
        5 => Some(rng.pick(&[json!({"type": "secret"}), json!("public"), json!({"type": "public", "allow": []}), json!({}), Value::Null, json!({"type": "private", "allow": ["x"]})]).clone()),
        _ => None,
    }
}

const TYPENAMES: &[&str] = &["xyz.radicle.project", "xyz.radicle.project", "com.example.thing", "a", "a.b", "A1.b2", "é.x", "verif.x1"];
const BAD_TYPENAMES: &[&str] = &["", ".", "a.", ".a", "a..b", "a b", "a/b", "a-b", "e\u{301}", "\u{0}"];

fn project(rng: &mut Rng, g: &mut impl FnMut(&mut Rng) -> String) -> Value {
    let mut m = Map::new();
    m.insert("name".into(), json!(if rng.chance(1, 3) { g(rng) } else { "heartwood".to_string() }));
    m.insert("description".into(), json!(g(rng)));
    m.insert("defaultBranch".into(), json!("master"));
    if rng.chance(1, 3) {
        m.insert(g(rng), json!(g(rng)));
    }
    Value::Object(m)
}

fn gen_payload(rng: &mut Rng, allow_float: bool, allow_collide: bool, only_valid_names: bool) -> Value {
    let mut m = Map::new();
    let n = *rng.pick(&[0usize, 1, 1, 1, 2, 3]);
    for _ in 0..n {
        let name = if !only_valid_names && rng.chance(1, 10) { rng.pick(BAD_TYPENAMES).to_string() } else { rng.pick(TYPENAMES).to_string() };
        let v = if rng.chance(1, 3) {
            let mut sg = |rng: &mut Rng| {
                let mut g = jsgen::Gen { rng, budget: 0, allow_float: false, allow_collide: false, max_depth: 0 };
                g.string()
            };
            project(rng, &mut sg)
        } else {
            {
                let fl = allow_float && rng.chance(1, 2);
                jsgen::gen_value(rng, fl, allow_collide)
            }
        };
        m.insert(name, v);
    }
    Value::Object(m)
}

/// An arbitrary document: (text, parsed-value-if-no-text-tricks, truth, shape labels).
fn gen_arbitrary(rng: &mut Rng) -> (String, Option<Value>, Truth, Vec<&'static str>) {
    let big = rng.chance(1, 5);
    let mut labels = vec![];
    let mut truth = Truth::default();
    let mut m = Map::new();
    let mut fields: Vec<(&str, Value)> = vec![];
    // delegates
    let (dv, keys, dname) = gen_delegates(rng, big);
    labels.push(dname);
    let total = keys.as_ref().map(|k| k.len()).unwrap_or(3);
    truth.delegates = keys;
    let distinct = truth.distinct().map(|d| d.len()).unwrap_or(2);
    if rng.chance(1, 40) {
        truth.delegates = None;
        labels.push("delegates-missing");
    } else {
        fields.push(("delegates", dv));
    }
    // threshold
    let (tv, t) = gen_threshold(rng, distinct, total);
    truth.threshold = t;
    if rng.chance(1, 40) {
        truth.threshold = None;
        labels.push("threshold-missing");
    } else {
        fields.push(("threshold", tv));
    }
    // version
    match rng.below(10) {
        0 => fields.push(("version", json!(1))),
        1 => {
            labels.push("version-unsupported");
            fields.push(("version", rng.pick(&[json!(0), json!(2), json!(3), json!(u32::MAX), json!(1u64 << 32), json!((1u64 << 32) + 1), json!(-1), json!("1"), json!(1.0), Value::Null, json!(257), json!(65537)]).clone()))
        }
        _ => {}
    }
    // payload
    match rng.below(20) {
        0 => labels.push("payload-missing"),
        1 => fields.push(("payload", rng.pick(&[json!([]), Value::Null, json!("x"), json!(1)]).clone())),
        _ => fields.push(("payload", gen_payload(rng, true, true, false))),
    }
    if let Some(v) = gen_visibility(rng) {
        fields.push(("visibility", v));
    }
    if rng.chance(1, 5) {
        let k = *rng.pick(&["Threshold", "thresholD", "delegate", "Delegates", "foo", "", "version ", "payloads", "type", "allow"]);
        fields.push((k, rng.pick(&[json!(1), json!(300), json!([]), json!("x"), Value::Null]).clone()));
    }
    rng.shuffle(&mut fields);
    for (k, v) in fields {
        m.insert(k.to_string(), v);
    }
    let value = Value::Object(m);
    let mut text = if rng.chance(1, 6) { serde_json::to_string_pretty(&value).unwrap() } else { serde_json::to_string(&value).unwrap() };
    let mut tricks = false;
    if rng.chance(1, 25) && text.ends_with('}') {
        // text-level duplicate field
        text.pop();
        let extra = match rng.below(3) {
            0 => format!(",\"threshold\":{}", rng.range(0, 300)),
            1 => ",\"delegates\":[]".to_string(),
            _ => ",\"version\":2".to_string(),
        };
        text.push_str(&extra);
        text.push('}');
        truth.dup_fields = true;
        tricks = true;
        labels.push("text-duplicate-field");
    } else if rng.chance(1, 40) {
        match rng.below(4) {
            0 => text.push_str(" x"),
            1 => text = format!("[{text}]"),
            2 => {
                let n = rng.usize(text.len() + 1);
                let mut e = n;
                while !text.is_char_boundary(e) {
                    e -= 1;
                }
                text.truncate(e);
            }
            _ => text = format!("\u{feff}{text}"),
        }
        tricks = true;
        labels.push("text-damaged");
    }
    (text, if tricks { None } else { Some(value) }, truth, labels)
}

// ---------------------------------------------------------------------------------------------
// oracle over an accepted document

fn keys_of<'a>(it: impl Iterator<Item = &'a Did>) -> Vec<[u8; 32]> {
    it.map(|d| {
        let mut k = [0u8; 32];
        k.copy_from_slice(&d.as_key()[..]);
        k
    })
    .collect()
}

/// Check the statement's invariants on an accepted document. Returns the failure shapes.
fn invariants(doc: &Doc) -> Vec<String> {
    let mut bad = vec![];
    let ks = keys_of(doc.delegates().iter());
    let n = ks.len();
    if n == 0 {
        bad.push("C19/accepted/no-delegates".to_string());
    }
    if n > 255 {
        bad.push("C19/accepted/more-than-255-delegates".to_string());
    }
    if ks.iter().collect::<BTreeSet<_>>().len() != n {
        bad.push("C19/accepted/duplicate-delegates".to_string());
    }
    if doc.delegates().len() != n {
        bad.push("C19/accepted/delegates-len-inconsistent".to_string());
    }
    let t = doc.threshold();
    if t == 0 {
        bad.push("C19/accepted/threshold-zero".to_string());
    }
    if t > n {
        bad.push("C19/accepted/threshold-exceeds-delegates".to_string());
    }
    if doc.threshold_nonzero().get() != t {
        bad.push("C19/accepted/threshold-accessors-disagree".to_string());
    }
    if u32::from(*doc.version()) != 1 {
        bad.push("C19/accepted/unsupported-version".to_string());
    }
    bad
}

fn delegates_invariants(keys: &[[u8; 32]], what: &str) -> Vec<String> {
    let mut bad = vec![];
    if keys.is_empty() {
        bad.push(format!("C19/{what}/no-delegates"));
    }
    if keys.len() > 255 {
        bad.push(format!("C19/{what}/more-than-255-delegates"));
    }
    if keys.iter().collect::<BTreeSet<_>>().len() != keys.len() {
        bad.push(format!("C19/{what}/duplicate-delegates"));
    }
    bad
}

/// Does the accepted document say what the JSON said?
fn faithful(doc: &Doc, truth: &Truth) -> Vec<String> {
    let mut bad = vec![];
    if truth.dup_fields {
        return bad;
    }
    if let Some(t) = truth.threshold {
        if doc.threshold() as u64 != t {
            bad.push("C19/accepted/threshold-differs-from-json".to_string());
        }
    }
    if let Some(d) = truth.distinct() {
        if keys_of(doc.delegates().iter()) != d {
            bad.push("C19/accepted/delegates-differ-from-json".to_string());
        }
    }
    bad
}

struct GitScratch {
    _dir: tempfile::TempDir,
    repo: git2::Repository,
}

impl GitScratch {
    fn new() -> Option<Self> {
        let dir = vcommon::scratch_dir();
        let repo = git2::Repository::init_bare(dir.path()).ok()?;
        Some(GitScratch { _dir: dir, repo })
    }
}

fn short(text: &str) -> String {
    if text.len() > 3000 {
        let mut e = 3000;
        while !text.is_char_boundary(e) {
            e -= 1;
        }
        format!("{}…(+{} bytes)", &text[..e], text.len() - e)
    } else {
        text.to_string()
    }
}

/// Run one document text through the JSON acceptance paths.
fn judge_arbitrary(rep: &mut Reporter, text: &str, value: Option<&Value>, truth: &Truth, scratch: Option<&GitScratch>, use_blob: bool) -> bool {
    rep.eval();
    let bytes = text.as_bytes();
    let mut paths: Vec<(&'static str, Result<Result<Doc, String>, String>)> = vec![];
    paths.push(("serde_json::from_slice::<Doc>", guarded(|| serde_json::from_slice::<Doc>(bytes).map_err(|e| e.to_string()))));
    paths.push(("RawDoc::from_json+verified", guarded(|| RawDoc::from_json(bytes).map_err(|e| e.to_string())?.verified().map_err(|e| e.to_string()))));
    if let Some(v) = value {
        let v = v.clone();
        paths.push(("serde_json::from_value::<Doc>", guarded(move || serde_json::from_value::<Doc>(v).map_err(|e| e.to_string()))));
    }
    if use_blob {
        if let Some(s) = scratch {
            match s.repo.blob(bytes).and_then(|oid| s.repo.find_blob(oid)) {
                Ok(blob) => paths.push(("Doc::from_blob", guarded(|| Doc::from_blob(&blob).map_err(|e| e.to_string())))),
                Err(e) => rep.inconclusive("scratch git repository: cannot write blob", json!({"error": e.to_string()})),
            }
        }
    }
    let mut accepted = 0;
    let mut verdicts = vec![];
    for (name, r) in paths {
        match r {
            Err(p) => {
                // a panic while parsing is not what the statement is about; keep it visible
                rep.inconclusive("panic while accepting a document", json!({"path": name, "panic": p, "document": short(text)}));
            }
            Ok(Err(_)) => {
                rep.count(&format!("rejected:{name}"));
                verdicts.push(false);
            }
            Ok(Ok(doc)) => {
                accepted += 1;
                verdicts.push(true);
                rep.count(&format!("accepted:{name}"));
                let mut bad = invariants(&doc);
                bad.extend(faithful(&doc, truth));
                for sig in bad {
                    rep.violation(&sig, json!({"kind": "document", "path": name, "document": text, "accepted_delegates": doc.delegates().len(), "accepted_threshold": doc.threshold(), "accepted_version": u32::from(*doc.version())}));
                }
                if accepted == 1 {
                    let n = doc.delegates().len();
                    let t = doc.threshold();
                    if n == 255 { rep.count("accepted.255-delegates"); }
                    if t == n { rep.count("accepted.threshold-equals-delegates"); }
                    if t == 1 { rep.count("accepted.threshold-one"); }
                    if let Some(d) = &truth.delegates {
                        if d.len() > n { rep.count("accepted.duplicates-were-dropped"); }
                    }
                    if doc.is_private() { rep.count("accepted.private"); }
                }
            }
        }
    }
    if verdicts.windows(2).any(|w| w[0] != w[1]) {
        rep.count("observation:acceptance-paths-disagree");
    }
    // region counters: documents that MUST not come out as accepted-with-these-values
    if let (Some(d), Some(t)) = (truth.distinct(), truth.threshold) {
        if !truth.dup_fields {
            let n = d.len() as u64;
            if n == 0 { rep.count("input.no-delegates"); }
            if n > 255 { rep.count("input.more-than-255-distinct-delegates"); }
            if n == 256 { rep.count("input.exactly-256-distinct-delegates"); }
            if t == 0 { rep.count("input.threshold-zero"); }
            if t == n + 1 { rep.count("input.threshold-one-above-delegates"); }
            if t > n { rep.count("input.threshold-above-delegates"); }
            if let Some(l) = &truth.delegates {
                if (l.len() as u64) > n && t > n && t <= l.len() as u64 {
                    rep.count("input.threshold-between-distinct-and-listed");
                }
            }
        }
    }
    accepted > 0
}

// ---------------------------------------------------------------------------------------------
// (B) valid documents

struct ValidDoc {
    json: Value,
    n_delegates: usize,
    clean: bool,
}

fn gen_valid(rng: &mut Rng, first: Option<&Did>, small: bool) -> ValidDoc {
    let p = pool();
    let n = if small { 1 + rng.usize(4) } else { *rng.pick(&[1usize, 1, 2, 3, 3, 5, 8, 17, 254, 255]) };
    let start = rng.usize(POOL);
    let mut dids: Vec<Value> = (0..n).map(|i| json!(p[(start + i) % POOL].1)).collect();
    if let Some(f) = first {
        dids[0] = json!(f.to_string());
    }
    let t = match rng.below(4) {
        0 => 1,
        1 => n,
        _ => 1 + rng.usize(n),
    };
    // "clean" documents have NFC payloads (no normalisation can happen); the others exercise the
    // suspected non-NFC region
    let clean = rng.chance(2, 3);
    let collide = !clean && rng.chance(1, 3);
    let mut payload = gen_payload(rng, false, collide, true);
    if clean {
        let mut c = false;
        payload = jsgen::nfc_model(&payload, &mut c);
    }
    let mut m = Map::new();
    m.insert("payload".into(), payload);
    m.insert("delegates".into(), Value::Array(dids));
    m.insert("threshold".into(), json!(t));
    if rng.chance(1, 4) {
        m.insert("version".into(), json!(1));
    }
    match rng.below(6) {
        0 => {
            m.insert("visibility".into(), json!({"type": "public"}));
        }
        1 => {
            m.insert("visibility".into(), json!({"type": "private"}));
        }
        2 => {
            let k = 1 + rng.usize(3);
            let allow: Vec<Value> = (0..k).map(|_| json!(p[rng.usize(6)].1)).collect();
            m.insert("visibility".into(), json!({"type": "private", "allow": allow}));
        }
        _ => {}
    }
    ValidDoc { json: Value::Object(m), n_delegates: n, clean }
}

/// Classify a decode(encode(d)) != d observation (stable signature per root cause).
fn classify_mismatch(doc: &Doc, decoded: &Doc, input: &Value) -> &'static str {
    let mut f = jsgen::Facts::default();
    jsgen::facts(input, 0, &mut f);
    if f.keys_collide_after_nfc > 0 {
        return "C19/encode-decode/payload-keys-collide-after-nfc";
    }
    if f.non_nfc_strings > 0 {
        let (a, b) = (serde_json::to_value(doc), serde_json::to_value(decoded));
        if let (Ok(a), Ok(b)) = (a, b) {
            let mut c = false;
            if jsgen::nfc_model(&a, &mut c) == b && !c {
                return "C19/encode-decode/non-nfc-payload-string-comes-back-normalised";
            }
        }
    }
    "C19/encode-decode/decoded-document-differs"
}

fn judge_valid(rep: &mut Reporter, vd: &ValidDoc) -> Option<(Doc, Vec<u8>)> {
    rep.eval();
    let text = serde_json::to_string(&vd.json).unwrap();
    let wit = |extra: Value| {
        let mut w = json!({"kind": "valid-document", "document": text});
        if let (Some(o), Some(e)) = (w.as_object_mut(), extra.as_object()) {
            for (k, x) in e {
                o.insert(k.clone(), x.clone());
            }
        }
        w
    };
    let doc = match guarded(|| RawDoc::from_json(text.as_bytes()).map_err(|e| e.to_string())?.verified().map_err(|e| e.to_string())) {
        Ok(Ok(d)) => d,
        Ok(Err(e)) => {
            rep.inconclusive("a valid document was rejected", wit(json!({"error": e})));
            return None;
        }
        Err(p) => {
            rep.inconclusive("panic while accepting a valid document", wit(json!({"panic": p})));
            return None;
        }
    };
    for sig in invariants(&doc) {
        rep.violation(&sig, wit(json!({"path": "RawDoc::from_json+verified"})));
    }
    if doc.delegates().len() != vd.n_delegates {
        rep.violation("C19/accepted/delegates-differ-from-json", wit(json!({"accepted": doc.delegates().len()})));
    }
    rep.count("valid.accepted");
    if vd.n_delegates == 255 { rep.count("valid.255-delegates"); }
    if doc.threshold() == vd.n_delegates { rep.count("valid.threshold-equals-delegates"); }
    let mut f = jsgen::Facts::default();
    jsgen::facts(&vd.json, 0, &mut f);
    if f.non_nfc_strings > 0 { rep.count("valid.has-non-nfc-string"); } else { rep.count("valid.all-strings-nfc"); }
    if f.keys_collide_after_nfc > 0 { rep.count("valid.keys-collide-after-nfc"); }
    let _ = vd.clean;

    // with_edits without edits is the identity
    match guarded(|| doc.clone().with_edits(|_| {})) {
        Ok(Ok(d2)) if d2 == doc => rep.count("with_edits.identity"),
        other => rep.violation("C19/with-edits/identity-edit-changes-or-rejects", wit(json!({"got": format!("{:?}", other.map(|r| r.map(|_| "different document").map_err(|e| e.to_string())))}))),
    }

    let (oid, bytes) = match guarded(|| doc.encode().map_err(|e| e.to_string())) {
        Ok(Ok(x)) => x,
        Ok(Err(e)) => {
            rep.inconclusive("encoding a float-free valid document failed", wit(json!({"error": e})));
            return None;
        }
        Err(p) => {
            rep.inconclusive("panic while encoding a valid document", wit(json!({"panic": p})));
            return None;
        }
    };
    // the id is the git blob hash of the emitted bytes (own SHA-1)
    let own = git_blob_sha1(&bytes);
    if oid.as_bytes() != own {
        rep.violation("C19/encode/oid-is-not-git-blob-hash-of-bytes", wit(json!({"oid": oid.to_string(), "own_hash": hex(&own), "encoded": String::from_utf8_lossy(&bytes)})));
    } else {
        rep.count("encode.oid-is-blob-hash");
    }
    // decode through both decoders
    let decs: [(&str, Result<Result<Doc, String>, String>); 2] = [
        ("RawDoc::from_json+verified", guarded(|| RawDoc::from_json(&bytes).map_err(|e| e.to_string())?.verified().map_err(|e| e.to_string()))),
        ("serde_json::from_slice::<Doc>", guarded(|| serde_json::from_slice::<Doc>(&bytes).map_err(|e| e.to_string()))),
    ];
    for (name, r) in decs {
        match r {
            Ok(Ok(d2)) => {
                if d2 == doc {
                    rep.count("encode-decode.equal");
                    if f.non_nfc_strings == 0 { rep.count("encode-decode.equal.nfc-document"); }
                } else {
                    let sig = classify_mismatch(&doc, &d2, &vd.json);
                    rep.violation(sig, wit(json!({"decoder": name, "encoded": String::from_utf8_lossy(&bytes)})));
                }
                for sig in invariants(&d2) {
                    rep.violation(&sig, wit(json!({"path": name, "stage": "decode of own encoding"})));
                }
            }
            Ok(Err(e)) => rep.violation("C19/encode-decode/own-encoding-rejected", wit(json!({"decoder": name, "error": e, "encoded": String::from_utf8_lossy(&bytes)}))),
            Err(p) => rep.inconclusive("panic while decoding an own encoding", wit(json!({"decoder": name, "panic": p}))),
        }
    }
    rep.nontrivial(vcommon::fnv(text.as_bytes()));
    if rep.wants_sample() && text.len() < 500 && f.non_nfc_strings == 0 {
        rep.sample(json!({"kind": "valid-document", "document": text, "encoded": String::from_utf8_lossy(&bytes), "oid": oid.to_string()}));
    }
    Some((doc, bytes))
}

// ---------------------------------------------------------------------------------------------
// programmatic RawDoc / Delegates / Version paths

fn judge_programmatic(rep: &mut Reporter, rng: &mut Rng) {
    rep.eval();
    let p = pool();
    let big = rng.chance(1, 4);
    let (dv, keys, _) = gen_delegates(rng, big);
    let Some(keys) = keys else { return };
    let dids: Vec<Did> = keys.iter().map(|k| Did::from(PublicKey::from(*k))).collect();
    let mut distinct: Vec<[u8; 32]> = vec![];
    for k in &keys {
        if !distinct.contains(k) {
            distinct.push(*k);
        }
    }
    let (_, t) = gen_threshold(rng, distinct.len(), keys.len());
    let t = t.unwrap_or(1);
    // start from a valid one-delegate document and edit it
    let base: Doc = match serde_json::from_value(json!({"payload": {}, "delegates": [p[0].1], "threshold": 1})) {
        Ok(d) => d,
        Err(e) => {
            rep.inconclusive("base document rejected", json!({"error": e.to_string()}));
            return;
        }
    };
    let d2 = dids.clone();
    let r = guarded(move || {
        base.with_edits(|raw| {
            raw.delegates = d2;
            raw.threshold = t as usize;
        })
        .map_err(|e| e.to_string())
    });
    let wit = json!({"kind": "with_edits", "delegate_keys": keys.iter().map(|k| hex(k)).collect::<Vec<_>>(), "threshold": t});
    match r {
        Err(p) => rep.inconclusive("panic in with_edits", json!({"panic": p})),
        Ok(Err(_)) => rep.count("rejected:Doc::with_edits"),
        Ok(Ok(doc)) => {
            rep.count("accepted:Doc::with_edits");
            let mut bad = invariants(&doc);
            if keys_of(doc.delegates().iter()) != distinct {
                bad.push("C19/accepted/delegates-differ-from-json".into());
            }
            if doc.threshold() as u64 != t {
                bad.push("C19/accepted/threshold-differs-from-json".into());
            }
            for sig in bad {
                rep.violation(&sig, wit.clone());
            }
        }
    }
    // Delegates has its own Deserialize
    let text = dv.to_string();
    match guarded(|| serde_json::from_str::<Delegates>(&text).map_err(|e| e.to_string())) {
        Err(p) => rep.inconclusive("panic in Delegates deserialize", json!({"panic": p})),
        Ok(Err(_)) => rep.count("rejected:serde_json::from_str::<Delegates>"),
        Ok(Ok(ds)) => {
            rep.count("accepted:serde_json::from_str::<Delegates>");
            let ks = keys_of(ds.iter());
            let mut bad = delegates_invariants(&ks, "accepted-delegates");
            if ks != distinct {
                bad.push("C19/accepted-delegates/differ-from-json".into());
            }
            for sig in bad {
                rep.violation(&sig, json!({"kind": "delegates", "delegates_json": text}));
            }
        }
    }
    // Version
    let vt = rng.pick(&["0", "1", "2", "3", "4294967295", "4294967296", "4294967297", "-1", "1.0", "\"1\"", "null", "257", "65537", "01", "1e0"]).to_string();
    match guarded(|| serde_json::from_str::<Version>(&vt).map_err(|e| e.to_string())) {
        Err(p) => rep.inconclusive("panic in Version deserialize", json!({"panic": p})),
        Ok(Err(_)) => rep.count("rejected:serde_json::from_str::<Version>"),
        Ok(Ok(v)) => {
            rep.count("accepted:serde_json::from_str::<Version>");
            if u32::from(v) != 1 {
                rep.violation("C19/accepted-version/unsupported", json!({"kind": "version", "version_json": vt}));
            }
        }
    }
}

// ---------------------------------------------------------------------------------------------
// (C) real storage

fn device(rng: &mut Rng) -> Device<radicle::crypto::test::signer::MockSigner> {
    let mut seed = [0u8; 32];
    rng.fill(&mut seed);
    Device::mock_from_seed(seed)
}

fn open_storage(path: &Path, key: PublicKey) -> Result<Storage, String> {
    Storage::open(path.join("storage"), git::UserInfo { alias: Alias::new("verif"), key }).map_err(|e| e.to_string())
}

/// Commit `embeds/radicle.json = bytes` into `repo` (no ref is touched); returns the commit id.
fn commit_doc(repo: &git2::Repository, bytes: &[u8]) -> Result<git2::Oid, git2::Error> {
    let blob = repo.blob(bytes)?;
    let mut inner = repo.treebuilder(None)?;
    inner.insert("radicle.json", blob, 0o100_644)?;
    let inner = inner.write()?;
    let mut outer = repo.treebuilder(None)?;
    outer.insert("embeds", inner, 0o040_000)?;
    let tree = repo.find_tree(outer.write()?)?;
    let sig = git2::Signature::new("verif", "verif@localhost", &git2::Time::new(1_700_000_000, 0))?;
    repo.commit(None, &sig, &sig, "doc", &tree, &[])
}

fn judge_init(rep: &mut Reporter, seed: u64, git_docs: usize) {
    let mut rng = Rng::new(seed);
    let dev = device(&mut rng);
    let did = Did::from(*dev.public_key());
    let small = rng.chance(3, 4);
    let vd = gen_valid(&mut rng, Some(&did), small);
    let Some((doc, bytes)) = judge_valid(rep, &vd) else { return };
    rep.eval();
    let text = serde_json::to_string(&vd.json).unwrap();
    let wit = |extra: Value| {
        let mut w = json!({"kind": "init", "document": text, "seed": seed});
        if let (Some(o), Some(e)) = (w.as_object_mut(), extra.as_object()) {
            for (k, x) in e {
                o.insert(k.clone(), x.clone());
            }
        }
        w
    };
    let dir = vcommon::scratch_dir();
    let storage = match open_storage(dir.path(), *dev.public_key()) {
        Ok(s) => s,
        Err(e) => {
            rep.inconclusive("storage fixture", json!({"error": e}));
            return;
        }
    };
    let own = git_blob_sha1(&bytes);
    let expected = match git2::Oid::from_bytes(&own) {
        Ok(o) => RepoId::from(o),
        Err(e) => {
            rep.inconclusive("oid", json!({"error": e.to_string()}));
            return;
        }
    };
    let r = guarded(|| Repository::init(&doc, &storage, &dev).map_err(|e| e.to_string()));
    let (repo, _commit) = match r {
        Err(p) => {
            // includes heartwood's own debug_assert_eq!(blob oid, doc oid)
            rep.violation(&format!("C19/init/panicked/{}", vcommon::panic_site(&p)), wit(json!({"panic": p})));
            return;
        }
        Ok(Err(e)) => {
            rep.inconclusive("Repository::init failed", wit(json!({"error": e})));
            return;
        }
        Ok(Ok(x)) => x,
    };
    rep.count("init.ok");
    if repo.id != expected {
        rep.violation("C19/init/rid-is-not-blob-hash-of-canonical-encoding", wit(json!({"rid": repo.id.to_string(), "expected": expected.to_string(), "encoded": String::from_utf8_lossy(&bytes)})));
    } else {
        rep.count("init.rid-is-blob-hash");
    }
    // the hashed blob is what is stored
    match repo.backend.find_blob(*expected.deref_oid()) {
        Ok(b) if b.content() == bytes.as_slice() => rep.count("init.blob-stored"),
        Ok(_) => rep.violation("C19/init/stored-blob-differs-from-encoding", wit(json!({}))),
        Err(e) => rep.violation("C19/init/document-blob-not-in-repository", wit(json!({"error": e.to_string()}))),
    }
    // read back from git (the commit returned by init is the identity root)
    match guarded(|| repo.identity_doc_at(_commit).map_err(|e| e.to_string())) {
        Ok(Ok(at)) => {
            rep.count("accepted:Repository::identity_doc_at");
            for sig in invariants(&at.doc) {
                rep.violation(&sig, wit(json!({"path": "Repository::identity_doc_at"})));
            }
            if RepoId::from(at.blob) != repo.id {
                rep.violation("C19/init/identity-blob-is-not-rid", wit(json!({"blob": at.blob.to_string(), "rid": repo.id.to_string()})));
            }
            if at.doc == doc {
                rep.count("init.read-back-equal");
            } else {
                rep.violation(classify_mismatch(&doc, &at.doc, &vd.json), wit(json!({"decoder": "Repository::identity_doc_at", "encoded": String::from_utf8_lossy(&bytes)})));
            }
        }
        Ok(Err(e)) => rep.inconclusive("identity_doc_at after init failed", wit(json!({"error": e}))),
        Err(p) => rep.inconclusive("panic in identity_doc_at", wit(json!({"panic": p}))),
    }
    match guarded(|| repo.identity_doc_of(dev.public_key()).map_err(|e| e.to_string())) {
        Ok(Ok(d)) => {
            rep.count("accepted:Repository::identity_doc_of");
            for sig in invariants(&d) {
                rep.violation(&sig, wit(json!({"path": "Repository::identity_doc_of"})));
            }
        }
        Ok(Err(e)) => rep.inconclusive("identity_doc_of after init failed", wit(json!({"error": e}))),
        Err(p) => rep.inconclusive("panic in identity_doc_of", wit(json!({"panic": p}))),
    }
    // arbitrary documents "from git": Doc::load_at on real commits of this repository
    for _ in 0..git_docs {
        let (t, _, truth, _) = gen_arbitrary(&mut rng);
        rep.eval();
        let commit = match commit_doc(&repo.backend, t.as_bytes()) {
            Ok(c) => c,
            Err(e) => {
                rep.inconclusive("cannot commit document", json!({"error": e.to_string()}));
                continue;
            }
        };
        match guarded(|| Doc::load_at(commit.into(), &repo).map_err(|e| e.to_string())) {
            Err(p) => rep.inconclusive("panic in Doc::load_at", json!({"panic": p, "document": short(&t)})),
            Ok(Err(_)) => rep.count("rejected:Doc::load_at"),
            Ok(Ok(at)) => {
                rep.count("accepted:Doc::load_at");
                let mut bad = invariants(&at.doc);
                bad.extend(faithful(&at.doc, &truth));
                if at.blob.as_bytes() != git_blob_sha1(t.as_bytes()) {
                    bad.push("C19/load-at/blob-id-is-not-hash-of-document".into());
                }
                for sig in bad {
                    rep.violation(&sig, json!({"kind": "document", "path": "Doc::load_at", "document": t}));
                }
            }
        }
    }
}

trait DerefOid {
    fn deref_oid(&self) -> &git2::Oid;
}
impl DerefOid for RepoId {
    fn deref_oid(&self) -> &git2::Oid {
        use std::ops::Deref;
        let oid: &git::Oid = self.deref();
        oid.deref()
    }
}

// ---------------------------------------------------------------------------------------------

fn replay(rep: &mut Reporter, w: &Value) {
    let scratch = GitScratch::new();
    match w["kind"].as_str() {
        Some("document") => {
            let text = w["document"].as_str().unwrap_or("");
            let value = serde_json::from_str::<Value>(text).ok();
            // ground truth is re-derived from the text where it is plain
            let mut truth = Truth::default();
            if let Some(v) = &value {
                truth.threshold = v["threshold"].as_u64();
                if let Some(a) = v["delegates"].as_array() {
                    let ks: Option<Vec<[u8; 32]>> = a
                        .iter()
                        .map(|d| {
                            d.as_str().and_then(|s| s.parse::<Did>().ok()).map(|d| {
                                let mut k = [0u8; 32];
                                k.copy_from_slice(&d.as_key()[..]);
                                k
                            })
                        })
                        .collect();
                    truth.delegates = ks;
                }
            }
            truth.dup_fields = true; // faithful() needs generator knowledge; replay judges the invariants
            judge_arbitrary(rep, text, value.as_ref(), &truth, scratch.as_ref(), true);
        }
        Some("valid-document") | Some("init") => {
            let text = w["document"].as_str().unwrap_or("");
            match serde_json::from_str::<Value>(text) {
                Ok(v) => {
                    let n = v["delegates"].as_array().map(|a| a.len()).unwrap_or(0);
                    if w["kind"].as_str() == Some("init") {
                        // same seed => same device; the document is regenerated from the seed
                        judge_init(rep, w["seed"].as_u64().unwrap_or(1), 0);
                    } else {
                        judge_valid(rep, &ValidDoc { json: v, n_delegates: n, clean: false });
                    }
                }
                Err(e) => rep.inconclusive("replay: document does not parse", json!({"error": e.to_string()})),
            }
        }
        Some("with_edits") | Some("delegates") | Some("version") => {
            rep.inconclusive("replay of programmatic cases is by seed only", json!({}));
        }
        _ => rep.inconclusive("replay: unknown witness kind", json!({})),
    }
}

pub fn run(args: &Args) {
    let mut rep = Reporter::new("C19");
    if let Some(path) = &args.replay {
        let w = vcommon::load_replay(path);
        replay(&mut rep, &w);
        rep.finish();
        return;
    }
    let scratch = GitScratch::new();
    if scratch.is_none() {
        rep.inconclusive("cannot create scratch git repository", json!({}));
    }
    // (A) arbitrary documents
    let na = args.budget(200_000, 5_000_000);
    for k in 0..na {
        let mut rng = Rng::new(args.case_seed(k));
        let (text, value, truth, labels) = gen_arbitrary(&mut rng);
        for l in &labels {
            rep.count(&format!("shape:{l}"));
        }
        let acc = judge_arbitrary(&mut rep, &text, value.as_ref(), &truth, scratch.as_ref(), k % 8 == 0);
        rep.nontrivial(vcommon::fnv(text.as_bytes()));
        if acc && rep.wants_sample() && text.len() < 400 {
            rep.sample(json!({"kind": "document", "document": text, "accepted": true}));
        }
    }
    // programmatic paths
    let np = args.budget(80_000, 2_000_000);
    for k in 0..np {
        let mut rng = Rng::new(args.case_seed(1 << 40 | k));
        judge_programmatic(&mut rep, &mut rng);
    }
    // (B) valid documents; a few minimal hand-written ones first (shard 0) so that the first
    // witness of an encode->decode problem is small
    if args.shard == 0 {
        let did = &pool()[0].1;
        for payload in [
            json!({"xyz.radicle.project": {"name": "heartwood", "description": "x", "defaultBranch": "master"}}),
            json!({"xyz.radicle.project": {"name": "e\u{301}"}}),
            json!({"xyz.radicle.project": {"e\u{301}": 1}}),
            json!({"xyz.radicle.project": {"\u{e9}": 1, "e\u{301}": 2}}),
            json!({"xyz.radicle.project": {"a": 1, "a!": 2, "n": u64::MAX, "m": i64::MIN}}),
        ] {
            let j = json!({"payload": payload, "delegates": [did], "threshold": 1});
            judge_valid(&mut rep, &ValidDoc { json: j, n_delegates: 1, clean: false });
        }
    }
    let nv = args.budget(100_000, 2_500_000);
    for k in 0..nv {
        let mut rng = Rng::new(args.case_seed(2 << 40 | k));
        let vd = gen_valid(&mut rng, None, false);
        judge_valid(&mut rep, &vd);
    }
    // (C) real storage
    let ni = args.budget(96, 2_400);
    for k in 0..ni {
        judge_init(&mut rep, args.case_seed(3 << 40 | k), 40);
    }
    rep.finish();
}
