//! Own tokenizer/checker for the byte form claimed by C18. It shares no code with the formatter
//! under test nor with serde_json's parser. It checks, over the emitted bytes:
//!  * exactly one JSON value, no byte outside a string that is not part of a token (so no
//!    insignificant whitespace);
//!  * numbers are integers (`-?(0|[1-9][0-9]*)`), no fraction / exponent;
//!  * inside strings no raw byte < 0x20 (control characters must be JSON escapes); `\uXXXX` escapes
//!    use lower-case hex;
//!  * every string (keys and values), after un-escaping, is in NFC;
//!  * object keys, after un-escaping, are strictly ascending in the byte order of their UTF-8.
use unicode_normalization::is_nfc;

#[derive(Debug, Clone)]
pub struct Finding {
    pub sig: &'static str,
    pub detail: String,
    /// For key-order findings: the two offending keys (un-escaped), in emitted order.
    pub keys: Option<(String, String)>,
}

#[derive(Debug, Default, Clone)]
pub struct Stats {
    pub strings: u64,
    pub escapes_control: u64,
    pub escapes_quote_backslash: u64,
    pub escapes_other: u64,
    pub objects_multi_key: u64,
    pub key_pairs_checked: u64,
    pub numbers: u64,
}

pub struct Checker<'a> {
    b: &'a [u8],
    i: usize,
    pub findings: Vec<Finding>,
    pub stats: Stats,
    depth: usize,
}

type R<T> = Result<T, ()>;

impl<'a> Checker<'a> {
    fn find(&mut self, sig: &'static str, detail: String) {
        if !self.findings.iter().any(|f| f.sig == sig) {
            self.findings.push(Finding { sig, detail, keys: None });
        }
    }

    fn malformed(&mut self, what: &str) -> R<()> {
        let at = self.i;
        self.find("C18/output-malformed", format!("{what} at byte {at}"));
        Err(())
    }

    fn skip_ws(&mut self) {
        let s = self.i;
        while self.i < self.b.len() && matches!(self.b[self.i], b' ' | b'\t' | b'\n' | b'\r') {
            self.i += 1;
        }
        if self.i > s {
            self.find("C18/insignificant-whitespace", format!("{} whitespace byte(s) at byte {s}", self.i - s));
        }
    }

    fn value(&mut self) -> R<()> {
        self.skip_ws();
        self.depth += 1;
        if self.depth > 200 {
            return self.malformed("nesting too deep for the checker");
        }
        let r = match self.b.get(self.i) {
            None => self.malformed("unexpected end"),
            Some(b'{') => self.object(),
            Some(b'[') => self.array(),
            Some(b'"') => self.string().map(|_| ()),
            Some(b't') => self.lit(b"true"),
            Some(b'f') => self.lit(b"false"),
            Some(b'n') => self.lit(b"null"),
            Some(b'-') | Some(b'0'..=b'9') => self.number(),
            Some(_) => self.malformed("unexpected byte"),
        };
        self.depth -= 1;
        r?;
        self.skip_ws();
        Ok(())
    }

    fn lit(&mut self, l: &[u8]) -> R<()> {
        if self.b[self.i..].starts_with(l) {
            self.i += l.len();
            Ok(())
        } else {
            self.malformed("bad literal")
        }
    }

    fn number(&mut self) -> R<()> {
        self.stats.numbers += 1;
        let s = self.i;
        if self.b.get(self.i) == Some(&b'-') {
            self.i += 1;
        }
        let d0 = self.i;
        while matches!(self.b.get(self.i), Some(b'0'..=b'9')) {
            self.i += 1;
        }
        if self.i == d0 {
            return self.malformed("number without digits");
        }
        if self.b[d0] == b'0' && self.i - d0 > 1 {
            self.find("C18/number-leading-zero", format!("at byte {s}"));
        }
        if matches!(self.b.get(self.i), Some(b'.' | b'e' | b'E')) {
            while matches!(self.b.get(self.i), Some(b'.' | b'e' | b'E' | b'+' | b'-' | b'0'..=b'9')) {
                self.i += 1;
            }
            let t = String::from_utf8_lossy(&self.b[s..self.i]).to_string();
            self.find("C18/float-in-output", t);
        }
        Ok(())
    }

    fn hex4(&mut self) -> R<u32> {
        let Some(h) = self.b.get(self.i..self.i + 4) else {
            self.malformed("short \\u escape")?;
            unreachable!()
        };
        let mut v = 0u32;
        for &c in h {
            let d = match c {
                b'0'..=b'9' => c - b'0',
                b'a'..=b'f' => c - b'a' + 10,
                b'A'..=b'F' => {
                    self.find("C18/escape/upper-case-hex", String::from_utf8_lossy(h).to_string());
                    c - b'A' + 10
                }
                _ => {
                    self.malformed("bad hex digit in \\u escape")?;
                    unreachable!()
                }
            };
            v = v * 16 + d as u32;
        }
        self.i += 4;
        Ok(v)
    }

    /// Parses a string token; returns (un-escaped string, raw token bytes incl. quotes).
    fn string(&mut self) -> R<(String, &'a [u8])> {
        self.stats.strings += 1;
        let start = self.i;
        self.i += 1; // opening quote
        let mut out: Vec<u8> = vec![];
        loop {
            let Some(&c) = self.b.get(self.i) else {
                self.malformed("unterminated string")?;
                unreachable!()
            };
            match c {
                b'"' => {
                    self.i += 1;
                    break;
                }
                b'\\' => {
                    self.i += 1;
                    let Some(&e) = self.b.get(self.i) else {
                        self.malformed("unterminated escape")?;
                        unreachable!()
                    };
                    self.i += 1;
                    let ch: char = match e {
                        b'"' => { self.stats.escapes_quote_backslash += 1; '"' }
                        b'\\' => { self.stats.escapes_quote_backslash += 1; '\\' }
                        b'/' => { self.stats.escapes_other += 1; '/' }
                        b'b' => { self.stats.escapes_control += 1; '\u{8}' }
                        b't' => { self.stats.escapes_control += 1; '\t' }
                        b'n' => { self.stats.escapes_control += 1; '\n' }
                        b'f' => { self.stats.escapes_control += 1; '\u{c}' }
                        b'r' => { self.stats.escapes_control += 1; '\r' }
                        b'u' => {
                            let cu = self.hex4()?;
                            let cp = if (0xD800..0xDC00).contains(&cu) {
                                if self.b.get(self.i..self.i + 2) != Some(b"\\u") {
                                    self.malformed("lone high surrogate escape")?;
                                }
                                self.i += 2;
                                let lo = self.hex4()?;
                                if !(0xDC00..0xE000).contains(&lo) {
                                    self.malformed("bad low surrogate escape")?;
                                }
                                0x10000 + ((cu - 0xD800) << 10) + (lo - 0xDC00)
                            } else {
                                cu
                            };
                            if cp < 0x20 { self.stats.escapes_control += 1 } else { self.stats.escapes_other += 1 }
                            match char::from_u32(cp) {
                                Some(ch) => ch,
                                None => {
                                    self.malformed("escape is not a scalar value")?;
                                    unreachable!()
                                }
                            }
                        }
                        _ => {
                            self.malformed("unknown escape")?;
                            unreachable!()
                        }
                    };
                    out.extend(ch.encode_utf8(&mut [0; 4]).bytes());
                }
                c if c < 0x20 => {
                    self.find("C18/control-character-not-escaped", format!("raw byte 0x{c:02x} inside a string at byte {}", self.i));
                    out.push(c);
                    self.i += 1;
                }
                c => {
                    out.push(c);
                    self.i += 1;
                }
            }
        }
        let raw = &self.b[start..self.i];
        let s = match String::from_utf8(out) {
            Ok(s) => s,
            Err(_) => {
                self.malformed("string is not UTF-8")?;
                unreachable!()
            }
        };
        if !is_nfc(&s) {
            self.find("C18/string-not-nfc", format!("{s:?}"));
        }
        Ok((s, raw))
    }

    fn array(&mut self) -> R<()> {
        self.i += 1;
        self.skip_ws();
        if self.b.get(self.i) == Some(&b']') {
            self.i += 1;
            return Ok(());
        }
        loop {
            self.value()?;
            match self.b.get(self.i) {
                Some(b',') => self.i += 1,
                Some(b']') => {
                    self.i += 1;
                    return Ok(());
                }
                _ => return self.malformed("expected , or ]"),
            }
        }
    }

    fn object(&mut self) -> R<()> {
        self.i += 1;
        self.skip_ws();
        if self.b.get(self.i) == Some(&b'}') {
            self.i += 1;
            return Ok(());
        }
        let mut prev: Option<(String, &'a [u8])> = None;
        let mut n = 0;
        loop {
            self.skip_ws();
            if self.b.get(self.i) != Some(&b'"') {
                return self.malformed("expected object key");
            }
            let (k, raw) = self.string()?;
            n += 1;
            if let Some((pk, praw)) = &prev {
                self.stats.key_pairs_checked += 1;
                match pk.as_bytes().cmp(k.as_bytes()) {
                    std::cmp::Ordering::Less => {}
                    std::cmp::Ordering::Equal => self.find("C18/duplicate-key", format!("{k:?}")),
                    std::cmp::Ordering::Greater => {
                        // Keys are not in byte order of the key strings. Is the emitted order the
                        // byte order of the *emitted tokens* (quotes and escapes included)?
                        let sig = if *praw < raw { "C18/key-order/sorted-by-escaped-quoted-form" } else { "C18/key-order/not-ascending" };
                        if !self.findings.iter().any(|f| f.sig == sig) {
                            self.findings.push(Finding {
                                sig,
                                detail: format!("key {pk:?} emitted before key {k:?}"),
                                keys: Some((pk.clone(), k.clone())),
                            });
                        }
                    }
                }
            }
            prev = Some((k, raw));
            self.skip_ws();
            if self.b.get(self.i) != Some(&b':') {
                return self.malformed("expected :");
            }
            self.i += 1;
            self.value()?;
            match self.b.get(self.i) {
                Some(b',') => self.i += 1,
                Some(b'}') => {
                    self.i += 1;
                    if n >= 2 {
                        self.stats.objects_multi_key += 1;
                    }
                    return Ok(());
                }
                _ => return self.malformed("expected , or }"),
            }
        }
    }
}

/// Check one emitted document.
pub fn check(bytes: &[u8]) -> (Vec<Finding>, Stats) {
    let mut c = Checker { b: bytes, i: 0, findings: vec![], stats: Stats::default(), depth: 0 };
    if std::str::from_utf8(bytes).is_err() {
        c.find("C18/output-not-utf8", String::new());
        return (c.findings, c.stats);
    }
    if c.value().is_ok() && c.i != bytes.len() {
        let _ = c.malformed("trailing bytes after the value");
    }
    (c.findings, c.stats)
}

#[cfg(test)]
mod tests {
    use super::check;
    fn sigs(s: &str) -> Vec<&'static str> {
        check(s.as_bytes()).0.into_iter().map(|f| f.sig).collect()
    }
    #[test]
    fn selftest() {
        assert!(sigs(r#"{"a":1,"b":[true,null,"x\n\u001f"],"c":{}}"#).is_empty());
        assert_eq!(sigs(r#"{"a": 1}"#), vec!["C18/insignificant-whitespace"]);
        assert_eq!(sigs(r#"{"b":1,"a":1}"#), vec!["C18/key-order/not-ascending"]);
        assert_eq!(sigs(r#"{"a!":1,"a":1}"#), vec!["C18/key-order/sorted-by-escaped-quoted-form"]);
        assert_eq!(sigs(r#"{"a":1,"a":1}"#), vec!["C18/duplicate-key"]);
        assert_eq!(sigs(r#"[1.5]"#), vec!["C18/float-in-output"]);
        assert_eq!(sigs("\"e\u{301}\""), vec!["C18/string-not-nfc"]);
        assert_eq!(sigs("\"a\tb\""), vec!["C18/control-character-not-escaped"]);
        assert_eq!(sigs(r#""\u001F""#), vec!["C18/escape/upper-case-hex"]);
        assert_eq!(sigs(r#"[1]x"#), vec!["C18/output-malformed"]);
    }
}
