//! Monitors for the encodings: C18 (canonical JSON), C19 (identity documents), C20 (signed refs),
//! C21 (textual identifiers).
mod c18;
mod c19;
mod c20;
mod c21;
mod cjson;
mod jsgen;

/// Temporary directory for real git storage: on tmpfs when available (thousands of loose objects
/// are written and removed per run), else the default temp dir.
pub fn scratch_dir() -> std::io::Result<tempfile::TempDir> {
    let shm = std::path::Path::new("/dev/shm");
    if shm.is_dir() {
        if let Ok(d) = tempfile::Builder::new().prefix("verif-enc-").tempdir_in(shm) {
            return Ok(d);
        }
    }
    tempfile::Builder::new().prefix("verif-enc-").tempdir()
}

fn main() {
    // The workloads allocate and free multi-kilobyte documents at a high rate; keep glibc from
    // returning the heap top to the kernel each time (brk thrashing dominated the wall time).
    // SAFETY: mallopt is called once, before any other thread exists.
    unsafe {
        vcommon::libc::mallopt(vcommon::libc::M_TRIM_THRESHOLD, 1 << 30);
        vcommon::libc::mallopt(vcommon::libc::M_TOP_PAD, 64 << 20);
    }
    vcommon::install_panic_hook();
    let args = vcommon::Args::parse();
    match args.prop.as_str() {
        "C18" => c18::run(&args),
        "C19" => c19::run(&args),
        "C20" => c20::run(&args),
        "C21" => c21::run(&args),
        p => {
            eprintln!("h-enc: unknown property {p}");
            std::process::exit(2);
        }
    }
}
