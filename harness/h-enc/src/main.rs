//! Monitors for the encodings: C18 (canonical JSON), C19 (identity documents), C20 (signed refs),
//! C21 (textual identifiers).
mod c18;
mod c19;
mod c20;
mod c21;
mod cjson;
mod jsgen;

fn main() {
    vcommon::install_panic_hook();
    let args = vcommon::Args::parse();
    match args.prop.as_str() {
        "C18" => c18::run(&args),
        "C19" => c19::run(&args),
        "C20" => c20::run(&args),
        "C21" => c21::run(&args),
        p => {
            eprintln!("h-enc: unknown property {p}");
            std::process::exit(2);
        }
    }
}
