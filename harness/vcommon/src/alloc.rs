//! Counting global allocator (no address tracking, so it hides nothing from memcheck/LSan).
//!
//! A harness binary opts in with
//! `#[global_allocator] static A: vcommon::alloc::Counting = vcommon::alloc::Counting;`
//! Counters are process-global atomics; a monitor `reset()`s them before the observed call and
//! reads them after. When a `limit` is set, a request above it is *refused* (null is returned, the
//! request size is written to stderr as `VERIF-ALLOC-REFUSED <n>`), which makes Rust abort: such
//! cases are run in a child process by the harness and the abort is the observation.
use std::alloc::{GlobalAlloc, Layout, System};
use std::sync::atomic::{AtomicBool, AtomicU64, Ordering::Relaxed};

pub struct Counting;

static LIVE: AtomicU64 = AtomicU64::new(0);
static PEAK: AtomicU64 = AtomicU64::new(0);
static LARGEST: AtomicU64 = AtomicU64::new(0);
static TOTAL: AtomicU64 = AtomicU64::new(0);
static COUNT: AtomicU64 = AtomicU64::new(0);
static LIMIT: AtomicU64 = AtomicU64::new(u64::MAX);
static ON: AtomicBool = AtomicBool::new(false);

#[inline]
fn note(size: u64) {
    if ON.load(Relaxed) {
        let live = LIVE.fetch_add(size, Relaxed) + size;
        PEAK.fetch_max(live, Relaxed);
        LARGEST.fetch_max(size, Relaxed);
        TOTAL.fetch_add(size, Relaxed);
        COUNT.fetch_add(1, Relaxed);
    }
}

#[inline]
fn refuse(size: u64) -> bool {
    if size > LIMIT.load(Relaxed) {
        LARGEST.fetch_max(size, Relaxed);
        let msg = format_refusal(size);
        // SAFETY: writing a stack buffer to fd 2.
        unsafe { libc::write(2, msg.0.as_ptr() as *const _, msg.1) };
        true
    } else {
        false
    }
}

fn format_refusal(size: u64) -> ([u8; 64], usize) {
    let mut buf = [0u8; 64];
    let head = b"VERIF-ALLOC-REFUSED ";
    buf[..head.len()].copy_from_slice(head);
    let mut digits = [0u8; 20];
    let mut n = size;
    let mut i = 20;
    if n == 0 {
        i -= 1;
        digits[i] = b'0';
    }
    while n > 0 {
        i -= 1;
        digits[i] = b'0' + (n % 10) as u8;
        n /= 10;
    }
    let len = 20 - i;
    buf[head.len()..head.len() + len].copy_from_slice(&digits[i..]);
    buf[head.len() + len] = b'\n';
    (buf, head.len() + len + 1)
}

unsafe impl GlobalAlloc for Counting {
    unsafe fn alloc(&self, l: Layout) -> *mut u8 {
        if refuse(l.size() as u64) {
            return std::ptr::null_mut();
        }
        note(l.size() as u64);
        System.alloc(l)
    }
    unsafe fn alloc_zeroed(&self, l: Layout) -> *mut u8 {
        if refuse(l.size() as u64) {
            return std::ptr::null_mut();
        }
        note(l.size() as u64);
        System.alloc_zeroed(l)
    }
    unsafe fn dealloc(&self, p: *mut u8, l: Layout) {
        if ON.load(Relaxed) {
            // saturating: frees of blocks allocated before `reset` must not wrap
            let _ = LIVE.fetch_update(Relaxed, Relaxed, |v| Some(v.saturating_sub(l.size() as u64)));
        }
        System.dealloc(p, l)
    }
    unsafe fn realloc(&self, p: *mut u8, l: Layout, new: usize) -> *mut u8 {
        if refuse(new as u64) {
            return std::ptr::null_mut();
        }
        if ON.load(Relaxed) {
            let _ = LIVE.fetch_update(Relaxed, Relaxed, |v| Some(v.saturating_sub(l.size() as u64)));
        }
        note(new as u64);
        System.realloc(p, l, new)
    }
}

#[derive(Debug, Clone, Copy, Default)]
pub struct Stats {
    /// Peak of bytes allocated since `reset` and not yet freed.
    pub peak: u64,
    /// Largest single request since `reset`.
    pub largest: u64,
    pub total: u64,
    pub count: u64,
}

/// Start a measurement window: counters to zero, accounting on.
pub fn reset() {
    ON.store(false, Relaxed);
    LIVE.store(0, Relaxed);
    PEAK.store(0, Relaxed);
    LARGEST.store(0, Relaxed);
    TOTAL.store(0, Relaxed);
    COUNT.store(0, Relaxed);
    ON.store(true, Relaxed);
}

/// End the window and read it.
pub fn stop() -> Stats {
    ON.store(false, Relaxed);
    Stats {
        peak: PEAK.load(Relaxed),
        largest: LARGEST.load(Relaxed),
        total: TOTAL.load(Relaxed),
        count: COUNT.load(Relaxed),
    }
}

pub fn set_limit(bytes: u64) {
    LIMIT.store(bytes, Relaxed);
}
