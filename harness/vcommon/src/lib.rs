//! Shared plumbing for the heartwood runtime monitors.
//!
//! * seeded PRNG (xoshiro256**, splitmix seeding) — no external crate, fully replayable;
//! * `Reporter`: per-shard collection of verdicts, counters, distinct non-trivial case hashes and
//!   samples, emitted as JSON lines on stdout for the python driver to aggregate;
//! * `guarded`: run a closure under `catch_unwind` with the panic message captured;
//! * `thread_cpu_ns`: per-thread CPU clock for load-independent non-termination verdicts;
//! * `Args`: common command line (`--seed --tier --shard i/n --replay FILE --cases N`).
use std::collections::{BTreeMap, BTreeSet};
use std::io::Write;
use std::sync::Mutex;

pub use serde_json::{json, Value};

pub mod alloc;

// ---------------------------------------------------------------------------------------------
// PRNG

#[derive(Clone, Debug)]
pub struct Rng {
    s: [u64; 4],
}

pub fn splitmix(x: &mut u64) -> u64 {
    *x = x.wrapping_add(0x9E3779B97F4A7C15);
    let mut z = *x;
    z = (z ^ (z >> 30)).wrapping_mul(0xBF58476D1CE4E5B9);
    z = (z ^ (z >> 27)).wrapping_mul(0x94D049BB133111EB);
    z ^ (z >> 31)
}

/// Mix a run seed, a property tag and a case index into a case seed.
pub fn mix(seed: u64, tag: &str, index: u64) -> u64 {
    let mut h = seed ^ 0x51_7c_c1_b7_27_22_0a_95;
    for b in tag.bytes() {
        h = (h ^ b as u64).wrapping_mul(0x100000001b3);
    }
    let mut x = h ^ index.wrapping_mul(0x9E3779B97F4A7C15);
    splitmix(&mut x)
}

impl Rng {
    pub fn new(seed: u64) -> Self {
        let mut x = seed;
        let s = [
            splitmix(&mut x),
            splitmix(&mut x),
            splitmix(&mut x),
            splitmix(&mut x),
        ];
        Rng { s }
    }
    pub fn u64(&mut self) -> u64 {
        let r = self.s[1].wrapping_mul(5).rotate_left(7).wrapping_mul(9);
        let t = self.s[1] << 17;
        self.s[2] ^= self.s[0];
        self.s[3] ^= self.s[1];
        self.s[1] ^= self.s[2];
        self.s[0] ^= self.s[3];
        self.s[2] ^= t;
        self.s[3] = self.s[3].rotate_left(45);
        r
    }
    pub fn u32(&mut self) -> u32 {
        (self.u64() >> 32) as u32
    }
    pub fn u8(&mut self) -> u8 {
        (self.u64() >> 56) as u8
    }
    /// Uniform in `0..n` (n > 0).
    pub fn below(&mut self, n: u64) -> u64 {
        assert!(n > 0);
        // multiply-shift; bias negligible for our n
        ((self.u64() as u128 * n as u128) >> 64) as u64
    }
    pub fn usize(&mut self, n: usize) -> usize {
        self.below(n as u64) as usize
    }
    /// Uniform in `lo..=hi`.
    pub fn range(&mut self, lo: u64, hi: u64) -> u64 {
        assert!(lo <= hi);
        if lo == 0 && hi == u64::MAX {
            return self.u64();
        }
        lo + self.below(hi - lo + 1)
    }
    pub fn irange(&mut self, lo: i64, hi: i64) -> i64 {
        assert!(lo <= hi);
        let span = (hi as i128 - lo as i128 + 1) as u128;
        if span > u64::MAX as u128 {
            return self.u64() as i64;
        }
        (lo as i128 + self.below(span as u64) as i128) as i64
    }
    pub fn chance(&mut self, num: u64, den: u64) -> bool {
        self.below(den) < num
    }
    pub fn bool(&mut self) -> bool {
        self.u64() & 1 == 1
    }
    pub fn f64(&mut self) -> f64 {
        (self.u64() >> 11) as f64 / (1u64 << 53) as f64
    }
    pub fn pick<'a, T>(&mut self, xs: &'a [T]) -> &'a T {
        &xs[self.usize(xs.len())]
    }
    pub fn bytes(&mut self, n: usize) -> Vec<u8> {
        (0..n).map(|_| self.u8()).collect()
    }
    pub fn fill(&mut self, buf: &mut [u8]) {
        for b in buf {
            *b = self.u8();
        }
    }
    pub fn shuffle<T>(&mut self, xs: &mut [T]) {
        for i in (1..xs.len()).rev() {
            let j = self.usize(i + 1);
            xs.swap(i, j);
        }
    }
    /// Pick an index according to integer weights.
    pub fn weighted(&mut self, w: &[u64]) -> usize {
        let total: u64 = w.iter().sum();
        let mut x = self.below(total);
        for (i, wi) in w.iter().enumerate() {
            if x < *wi {
                return i;
            }
            x -= *wi;
        }
        w.len() - 1
    }
}

/// FNV-1a over bytes; used for "distinct case" hashes.
pub fn fnv(bytes: &[u8]) -> u64 {
    let mut h: u64 = 0xcbf29ce484222325;
    for b in bytes {
        h = (h ^ *b as u64).wrapping_mul(0x100000001b3);
    }
    h
}

pub fn hex(bytes: &[u8]) -> String {
    let mut s = String::with_capacity(bytes.len() * 2);
    for b in bytes {
        s.push_str(&format!("{:02x}", b));
    }
    s
}

pub fn unhex(s: &str) -> Option<Vec<u8>> {
    if s.len() % 2 != 0 {
        return None;
    }
    (0..s.len() / 2)
        .map(|i| u8::from_str_radix(&s[2 * i..2 * i + 2], 16).ok())
        .collect()
}

// ---------------------------------------------------------------------------------------------
// Panic capture

static LAST_PANIC: Mutex<Option<String>> = Mutex::new(None);
thread_local! {
    static QUIET: std::cell::Cell<bool> = const { std::cell::Cell::new(false) };
}

/// Install a panic hook that records the message (and location) instead of printing, for panics
/// raised inside `guarded`. Panics elsewhere are printed as usual.
pub fn install_panic_hook() {
    let default = std::panic::take_hook();
    std::panic::set_hook(Box::new(move |info| {
        let quiet = QUIET.with(|q| q.get());
        let msg = if let Some(s) = info.payload().downcast_ref::<&str>() {
            s.to_string()
        } else if let Some(s) = info.payload().downcast_ref::<String>() {
            s.clone()
        } else {
            "<non-string panic>".to_string()
        };
        let loc = info
            .location()
            .map(|l| format!("{}:{}", l.file(), l.line()))
            .unwrap_or_default();
        if quiet {
            *LAST_PANIC.lock().unwrap_or_else(|e| e.into_inner()) = Some(format!("{msg} @ {loc}"));
        } else {
            default(info);
        }
    }));
}

/// Run `f`; `Err(message @ file:line)` if it panicked. Requires `install_panic_hook`.
pub fn guarded<T>(f: impl FnOnce() -> T) -> Result<T, String> {
    let prev = QUIET.with(|q| q.replace(true));
    let r = std::panic::catch_unwind(std::panic::AssertUnwindSafe(f));
    QUIET.with(|q| q.set(prev));
    match r {
        Ok(v) => Ok(v),
        Err(_) => Err(LAST_PANIC
            .lock()
            .unwrap_or_else(|e| e.into_inner())
            .take()
            .unwrap_or_else(|| "<panic>".into())),
    }
}

/// Strip the line number from a `msg @ file:line` panic string (stable signature component).
pub fn panic_site(p: &str) -> String {
    match p.rsplit_once(" @ ") {
        Some((_, loc)) => {
            let file = loc.rsplit_once(':').map(|(f, _)| f).unwrap_or(loc);
            // keep path relative to crates/
            match file.find("crates/") {
                Some(i) => file[i..].to_string(),
                None => file.to_string(),
            }
        }
        None => "unknown".into(),
    }
}

// ---------------------------------------------------------------------------------------------
// Clocks

pub fn thread_cpu_ns() -> u64 {
    let mut ts = libc::timespec {
        tv_sec: 0,
        tv_nsec: 0,
    };
    // SAFETY: plain syscall writing into a local struct.
    unsafe { libc::clock_gettime(libc::CLOCK_THREAD_CPUTIME_ID, &mut ts) };
    ts.tv_sec as u64 * 1_000_000_000 + ts.tv_nsec as u64
}

// ---------------------------------------------------------------------------------------------
// Args

#[derive(Clone, Debug)]
pub struct Args {
    pub prop: String,
    pub seed: u64,
    pub thorough: bool,
    pub shard: u64,
    pub shards: u64,
    pub replay: Option<String>,
    /// Optional override of the number of cases (for valgrind / miri / asan subsets).
    pub cases: Option<u64>,
    /// Free-form mode switch (e.g. "child" for subprocess helpers, "small" for miri).
    pub mode: Option<String>,
    pub rest: Vec<String>,
}

impl Args {
    pub fn parse() -> Args {
        Self::parse_from(std::env::args().skip(1).collect())
    }
    pub fn parse_from(v: Vec<String>) -> Args {
        let mut a = Args {
            prop: String::new(),
            seed: 1,
            thorough: false,
            shard: 0,
            shards: 1,
            replay: None,
            cases: None,
            mode: None,
            rest: vec![],
        };
        let mut it = v.into_iter();
        while let Some(x) = it.next() {
            match x.as_str() {
                "--seed" => a.seed = it.next().and_then(|s| s.parse().ok()).expect("--seed N"),
                "--tier" => a.thorough = it.next().as_deref() == Some("thorough"),
                "--shard" => {
                    let s = it.next().expect("--shard i/n");
                    let (i, n) = s.split_once('/').expect("--shard i/n");
                    a.shard = i.parse().unwrap();
                    a.shards = n.parse().unwrap();
                }
                "--replay" => a.replay = it.next(),
                "--cases" => a.cases = it.next().and_then(|s| s.parse().ok()),
                "--mode" => a.mode = it.next(),
                _ if a.prop.is_empty() => a.prop = x,
                _ => a.rest.push(x),
            }
        }
        a
    }
    /// Number of cases this shard should run given a per-tier total.
    pub fn budget(&self, quick: u64, thorough: u64) -> u64 {
        let total = self
            .cases
            .unwrap_or(if self.thorough { thorough } else { quick });
        let base = total / self.shards;
        let extra = if self.shard < total % self.shards { 1 } else { 0 };
        base + extra
    }
    /// Global case index of this shard's `k`-th case.
    pub fn index(&self, k: u64) -> u64 {
        k * self.shards + self.shard
    }
    pub fn case_seed(&self, k: u64) -> u64 {
        mix(self.seed, &self.prop, self.index(k))
    }
}

// ---------------------------------------------------------------------------------------------
// Reporter

pub struct Reporter {
    pub prop: String,
    pub evaluations: u64,
    pub counters: BTreeMap<String, u64>,
    distinct: BTreeSet<u64>,
    samples: Vec<Value>,
    violations: u64,
    viol_sigs: BTreeMap<String, u64>,
    inconclusive: u64,
    max_samples: usize,
    max_viol_per_sig: u64,
    start: std::time::Instant,
    /// seed of the case being judged; injected into violation witnesses for replay
    case_seed: Option<u64>,
}

impl Reporter {
    pub fn new(prop: &str) -> Self {
        Reporter {
            prop: prop.to_string(),
            evaluations: 0,
            counters: BTreeMap::new(),
            distinct: BTreeSet::new(),
            samples: vec![],
            violations: 0,
            viol_sigs: BTreeMap::new(),
            inconclusive: 0,
            max_samples: 3,
            max_viol_per_sig: 3,
            start: std::time::Instant::now(),
            case_seed: None,
        }
    }
    pub fn eval(&mut self) {
        self.evaluations += 1;
    }
    /// Declare the seed of the case that is judged from now on.
    pub fn case(&mut self, seed: u64) {
        self.case_seed = Some(seed);
    }
    pub fn evals(&mut self, n: u64) {
        self.evaluations += n;
    }
    pub fn count(&mut self, key: &str) {
        *self.counters.entry(key.to_string()).or_insert(0) += 1;
    }
    pub fn add(&mut self, key: &str, n: u64) {
        *self.counters.entry(key.to_string()).or_insert(0) += n;
    }
    pub fn max(&mut self, key: &str, n: u64) {
        let e = self.counters.entry(format!("max:{key}")).or_insert(0);
        if n > *e {
            *e = n;
        }
    }
    /// Record a non-trivial case by hash (distinct ones are counted).
    pub fn nontrivial(&mut self, h: u64) {
        // bounded: beyond the cap further distinct cases are not counted (conservative)
        if self.distinct.len() < 250_000 {
            self.distinct.insert(h);
        } else {
            *self.counters.entry("distinct-set-capped(uncounted)".into()).or_insert(0) += 1;
        }
    }
    pub fn nontrivial_bytes(&mut self, b: &[u8]) {
        self.nontrivial(fnv(b));
    }
    pub fn sample(&mut self, v: Value) {
        if self.samples.len() < self.max_samples {
            self.samples.push(v);
        }
    }
    pub fn wants_sample(&self) -> bool {
        self.samples.len() < self.max_samples
    }
    /// Report a violation. `sig` is the stable signature, `witness` everything needed to replay.
    pub fn violation(&mut self, sig: &str, mut witness: Value) {
        if let (Some(seed), Some(obj)) = (self.case_seed, witness.as_object_mut()) {
            obj.entry("case_seed").or_insert(json!(seed));
        }
        self.violations += 1;
        let n = self.viol_sigs.entry(sig.to_string()).or_insert(0);
        *n += 1;
        if *n <= self.max_viol_per_sig {
            emit(&json!({"t":"viol","property":self.prop,"sig":sig,"witness":witness}));
        }
    }
    pub fn inconclusive(&mut self, reason: &str, detail: Value) {
        self.inconclusive += 1;
        if self.inconclusive <= 5 {
            emit(&json!({"t":"inconclusive","property":self.prop,"reason":reason,"detail":detail}));
        }
    }
    pub fn violations(&self) -> u64 {
        self.violations
    }
    /// Fold another reporter (e.g. from a worker thread) into this one. Its violation and
    /// inconclusive lines were already emitted.
    pub fn absorb(&mut self, other: Reporter) {
        self.evaluations += other.evaluations;
        for (k, v) in other.counters {
            if k.starts_with("max:") {
                let e = self.counters.entry(k).or_insert(0);
                *e = (*e).max(v);
            } else {
                *self.counters.entry(k).or_insert(0) += v;
            }
        }
        self.distinct.extend(other.distinct);
        for s in other.samples {
            self.sample(s);
        }
        self.violations += other.violations;
        for (k, v) in other.viol_sigs {
            *self.viol_sigs.entry(k).or_insert(0) += v;
        }
        self.inconclusive += other.inconclusive;
    }
    pub fn finish(self) {
        // distinct hashes are shipped through a side file so the driver can union across shards
        let mut hash_file = Value::Null;
        if let Ok(dir) = std::env::var("VERIF_SCRATCH") {
            let path = format!("{dir}/{}.{}.hashes", self.prop, std::process::id());
            let mut bytes = Vec::with_capacity(self.distinct.len() * 8);
            for h in &self.distinct {
                bytes.extend(h.to_le_bytes());
            }
            if std::fs::write(&path, bytes).is_ok() {
                hash_file = Value::String(path);
            }
        }
        emit(&json!({
            "t":"summary",
            "property": self.prop,
            "evaluations": self.evaluations,
            "distinct_count": self.distinct.len(),
            "distinct_hashes_file": hash_file,
            "counters": self.counters,
            "samples": self.samples,
            "violations": self.violations,
            "violation_sigs": self.viol_sigs,
            "inconclusive": self.inconclusive,
            "wall_s": self.start.elapsed().as_secs_f64(),
        }));
    }
}

pub fn emit(v: &Value) {
    let out = std::io::stdout();
    let mut l = out.lock();
    let _ = writeln!(l, "{}", v);
    let _ = l.flush();
}

/// Load a replay file written by the driver: returns the witness JSON.
pub fn load_replay(path: &str) -> Value {
    let s = std::fs::read_to_string(path).expect("replay file");
    let v: Value = serde_json::from_str(&s).expect("replay json");
    v.get("witness").cloned().unwrap_or(v)
}
pub use libc;

/// A fresh temporary directory for fixtures: on tmpfs when available (git object/ref writes are
/// the dominant cost of the storage-backed workloads), removed on drop.
pub fn scratch_dir() -> tempfile::TempDir {
    let base = std::env::var("VERIF_TMP").ok().or_else(|| {
        if std::path::Path::new("/dev/shm").is_dir() { Some("/dev/shm".to_string()) } else { None }
    });
    match base {
        Some(b) => tempfile::Builder::new().prefix("verif-fx-").tempdir_in(b).or_else(|_| tempfile::tempdir()).expect("tempdir"),
        None => tempfile::tempdir().expect("tempdir"),
    }
}
