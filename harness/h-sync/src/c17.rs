//! C17 — rate limiting admits at most capacity plus refill.
//!
//! Statement: for any timeline of requests from a rate-limited host, the number of requests admitted
//! in any time window never exceeds the bucket capacity plus the refill rate times the window length
//! in whole seconds. Bypassed nodes and non-routable addresses are never limited.
//!
//! The harness drives the real `RateLimiter::limit` with generated timelines (bursts at one instant,
//! sub-second spacing, steps straddling the one-second boundary, "exactly one token" waits for
//! fractional rates, long idle periods, several hosts and node ids interleaved, backwards clocks) and
//! records `(time, admitted | limited | panicked)` per call. The oracle never looks at the limiter's
//! state; it only does arithmetic over that log.
//!
//! READING OF THE STATEMENT (one-directional: an upper bound on admissions, nothing about
//! under-admission):
//!
//! * The requests that count are the calls of one host that reach its bucket, i.e. calls whose node
//!   id is not in the bypass list (bypassed calls are "never limited" and therefore are not part of
//!   the bounded quantity).
//! * A window is a run `i..=j` of that host's calls *in call order* that starts and ends with an
//!   admitted call. Its length is the forward time the limiter was shown during the run:
//!   `L(i,j) = Σ_{k=i}^{j-1} max(0, t[k+1] − t[k])` over ALL bucket-reaching calls of the host
//!   (admitted, limited or panicked). For a monotone clock this is exactly `t[j] − t[i]`, the length of
//!   the time window `[t[i], t[j]]`, and because timestamps are non-decreasing the calls in `i..=j`
//!   are exactly the calls inside that time window. For a non-monotone clock it is the most generous
//!   reading available (`L ≥ max(0, t[j] − t[i])`, and ≥ what any limiter that clamps negative steps to
//!   zero can have refilled), so the oracle never demands more than the statement; it still refutes a
//!   limiter that refills on backwards steps or refills more than rate × elapsed.
//! * Bound: `count ≤ capacity + rate · ⌊L / 1 s⌋ + 1e-9`. capacity/rate are those handed to `limit`;
//!   in the minority of timelines where the configuration handed in for one host changes between
//!   calls, the maximum capacity and maximum rate seen up to `j` are used (generous).
//! * "Never limited": a call with a bypassed node id must return `false`; a call from an IPv4 address
//!   that is unambiguously non-routable by RFC (10/8, 172.16/12, 192.168/16, 127/8, 169.254/16, 0/8,
//!   255.255.255.255, the three documentation /24s), classified by an own octet matcher, must return
//!   `false`. Address classes whose routability is debatable (100.64/10, 192.0.0.0/24, 198.18/15,
//!   ≥ 224, every non-global IPv6 address — heartwood documents that it treats all IPv6 as routable)
//!   get NO verdict either way; what happened is only counted (`obs.*`).
//! * A panic is not an admission. A panic on a backwards clock step (`LocalTime::duration_since`) is
//!   outside the statement: counted as `panic.backwards-clock`, never a violation. A panic on a
//!   non-decreasing step would make the case inconclusive.
use std::net::{IpAddr, Ipv4Addr, Ipv6Addr};

use localtime::LocalTime;
use radicle::node::config::RateLimit;
use radicle::node::{HostName, NodeId};
use radicle_crypto::{KeyPair, PublicKey, SecretKey, Seed};
use radicle_node::service::limiter::RateLimiter;
use vcommon::{guarded, json, Args, Reporter, Rng, Value};

const MAX_EVENTS: usize = 400;

#[derive(Clone, Copy, PartialEq, Eq, Debug)]
enum Class {
    /// The admission bound applies.
    Limited,
    /// Must never be limited.
    NonRoutable(&'static str),
    /// No verdict; outcomes are only counted.
    Observed(&'static str),
}

/// Own classification by octets (independent of `address::is_routable` and of std's predicates).
fn classify_v4(o: [u8; 4]) -> Class {
    match o {
        [10, ..] => Class::NonRoutable("private"),
        [172, b, ..] if (16..=31).contains(&b) => Class::NonRoutable("private"),
        [192, 168, ..] => Class::NonRoutable("private"),
        [127, ..] => Class::NonRoutable("loopback"),
        [169, 254, ..] => Class::NonRoutable("link-local"),
        [0, ..] => Class::NonRoutable("this-network"),
        [255, 255, 255, 255] => Class::NonRoutable("broadcast"),
        [192, 0, 2, _] | [198, 51, 100, _] | [203, 0, 113, _] => Class::NonRoutable("documentation"),
        [192, 0, 0, _] => Class::Observed("ipv4-ietf-protocol-assignments"),
        [100, b, ..] if (64..=127).contains(&b) => Class::Observed("ipv4-shared-address-space"),
        [198, 18, ..] | [198, 19, ..] => Class::Observed("ipv4-benchmarking"),
        [a, ..] if a >= 224 => Class::Observed("ipv4-multicast-or-reserved"),
        _ => Class::Limited,
    }
}

fn classify_v6(a: Ipv6Addr) -> Class {
    let s = a.segments();
    let mapped = s[0] == 0 && s[1] == 0 && s[2] == 0 && s[3] == 0 && s[4] == 0 && s[5] == 0xffff;
    if a == Ipv6Addr::LOCALHOST
        || a == Ipv6Addr::UNSPECIFIED
        || (s[0] & 0xffc0) == 0xfe80
        || (s[0] & 0xfe00) == 0xfc00
        || (s[0] == 0x2001 && s[1] == 0x0db8)
        || mapped
    {
        Class::Observed("ipv6-non-global")
    } else if (s[0] & 0xe000) == 0x2000 {
        Class::Limited
    } else {
        Class::Observed("ipv6-other")
    }
}

fn classify(h: &HostName) -> Class {
    match h {
        HostName::Ip(IpAddr::V4(a)) => classify_v4(a.octets()),
        HostName::Ip(IpAddr::V6(a)) => classify_v6(*a),
        HostName::Dns(_) => Class::Limited,
        _ => Class::Observed("other-host-kind"),
    }
}

fn host_json(h: &HostName) -> Value {
    match h {
        HostName::Ip(ip) => json!({"kind": "ip", "value": ip.to_string()}),
        HostName::Dns(s) => json!({"kind": "dns", "value": s}),
        other => json!({"kind": "other", "value": other.to_string()}),
    }
}

fn host_from_json(v: &Value) -> Option<HostName> {
    let val = v["value"].as_str()?;
    match v["kind"].as_str()? {
        "ip" => Some(HostName::Ip(val.parse().ok()?)),
        "dns" => Some(HostName::Dns(val.to_string())),
        _ => None,
    }
}

fn nid(i: usize) -> NodeId {
    let kp = KeyPair::from_seed(Seed::new([i as u8 + 1; 32]));
    let sk = SecretKey::from(kp.sk);
    PublicKey::from(sk.public_key())
}

#[derive(Clone, Debug)]
struct Ev {
    host: usize,
    nid: Option<usize>,
    /// Milliseconds.
    t: u64,
    cap: usize,
    rate: f64,
}

#[derive(Clone, Debug)]
struct Case {
    hosts: Vec<HostName>,
    nids: usize,
    bypass: Vec<usize>,
    events: Vec<Ev>,
}

#[derive(Clone, Debug, PartialEq)]
enum Out {
    Admitted,
    Limited,
    Panicked(String),
}

impl Out {
    fn name(&self) -> &'static str {
        match self {
            Out::Admitted => "admitted",
            Out::Limited => "limited",
            Out::Panicked(_) => "panicked",
        }
    }
}

/// Drive the real limiter.
fn execute(case: &Case) -> Vec<Out> {
    let nids: Vec<NodeId> = (0..case.nids).map(nid).collect();
    let mut limiter = RateLimiter::new(case.bypass.iter().map(|i| nids[*i]));
    let mut outs = Vec::with_capacity(case.events.len());
    for e in &case.events {
        let host = case.hosts[e.host].clone();
        let n = e.nid.map(|i| &nids[i]);
        let tokens = RateLimit { fill_rate: e.rate, capacity: e.cap };
        let now = LocalTime::from_millis(e.t as u128);
        let lim = &mut limiter;
        outs.push(match guarded(move || lim.limit(host, n, &tokens, now)) {
            Ok(false) => Out::Admitted,
            Ok(true) => Out::Limited,
            Err(p) => Out::Panicked(p),
        });
    }
    outs
}

enum Kind {
    Violation,
    Inconclusive,
}

struct Finding {
    kind: Kind,
    sig: String,
    detail: Value,
    host: usize,
    /// Index of the last event that matters for the finding.
    upto: usize,
}

struct LogEntry {
    ev: usize,
    t: u64,
    admitted: bool,
    /// Forward time shown to the limiter for this host up to and including this call (ms).
    fwd: u64,
    cap_max: f64,
    rate_max: f64,
}

fn cnt(rep: &mut Option<&mut Reporter>, key: &str) {
    if let Some(r) = rep {
        r.count(key);
    }
}

fn add(rep: &mut Option<&mut Reporter>, key: &str, n: u64) {
    if let Some(r) = rep {
        r.add(key, n);
    }
}

/// The oracle: arithmetic over the recorded log only. Returns the findings and whether the
/// timeline is non-trivial (a limited host was exhausted and later admitted again).
fn judge(case: &Case, outs: &[Out], mut rep: Option<&mut Reporter>) -> (Vec<Finding>, bool) {
    let mut findings = vec![];
    let mut nontrivial = false;
    let rep = &mut rep;
    let monotone_case = case.events.windows(2).all(|w| w[0].t <= w[1].t);
    for (h, host) in case.hosts.iter().enumerate() {
        let class = classify(host);
        // one finding per shape and host is enough (a broken bypass would otherwise yield one per call)
        let (mut bypass_reported, mut nonroutable_reported) = (false, false);
        let mut log: Vec<LogEntry> = vec![];
        let mut last_ok_t: Option<u64> = None; // time of the last bucket-reaching call that returned
        let mut prev_t: Option<u64> = None; // time of the previous bucket-reaching call
        let (mut fwd, mut cap_max, mut rate_max) = (0u64, 0f64, 0f64);
        let mut host_monotone = true;
        // same-instant run bookkeeping for the "beyond capacity" danger counters
        let (mut run_t, mut run_len) = (None::<u64>, 0usize);
        let mut configs_vary = false;
        let mut first_cfg: Option<(usize, u64)> = None;
        for (idx, e) in case.events.iter().enumerate().filter(|(_, e)| e.host == h) {
            let out = &outs[idx];
            if run_t == Some(e.t) {
                run_len += 1;
            } else {
                run_t = Some(e.t);
                run_len = 1;
            }
            let bypassed = e.nid.is_some_and(|n| case.bypass.contains(&n));
            if bypassed {
                cnt(rep, "bypassed.calls");
                if run_len > e.cap {
                    cnt(rep, "bypassed.calls-beyond-capacity-at-one-instant");
                }
                match out {
                    Out::Admitted => {}
                    Out::Limited if bypass_reported => cnt(rep, "violating-calls-not-reported-individually"),
                    Out::Limited => findings.push(Finding {
                        kind: { bypass_reported = true; Kind::Violation },
                        sig: "C17/bypassed-node-limited".into(),
                        detail: json!({"event": idx, "host": host.to_string(), "nid_index": e.nid}),
                        host: h,
                        upto: idx,
                    }),
                    Out::Panicked(p) => findings.push(Finding {
                        kind: Kind::Inconclusive,
                        sig: "panic on a bypassed call".into(),
                        detail: json!({"event": idx, "panic": p}),
                        host: h,
                        upto: idx,
                    }),
                }
                continue;
            }
            match class {
                Class::NonRoutable(c) => {
                    cnt(rep, "nonroutable.calls");
                    cnt(rep, &format!("nonroutable.calls:{c}"));
                    if run_len > e.cap {
                        cnt(rep, "nonroutable.calls-beyond-capacity-at-one-instant");
                    }
                    match out {
                        Out::Admitted => {}
                        Out::Limited if nonroutable_reported => cnt(rep, "violating-calls-not-reported-individually"),
                        Out::Limited => findings.push(Finding {
                            kind: { nonroutable_reported = true; Kind::Violation },
                            sig: format!("C17/non-routable-address-limited/{c}"),
                            detail: json!({"event": idx, "host": host.to_string()}),
                            host: h,
                            upto: idx,
                        }),
                        Out::Panicked(p) => findings.push(Finding {
                            kind: Kind::Inconclusive,
                            sig: "panic on a call from a non-routable address".into(),
                            detail: json!({"event": idx, "panic": p}),
                            host: h,
                            upto: idx,
                        }),
                    }
                    continue;
                }
                Class::Observed(c) => {
                    cnt(rep, &format!("obs.{c}.{}", out.name()));
                    continue;
                }
                Class::Limited => {}
            }
            // ---- a call that reaches the host's bucket
            match first_cfg {
                None => first_cfg = Some((e.cap, e.rate.to_bits())),
                Some(c) if c != (e.cap, e.rate.to_bits()) => configs_vary = true,
                _ => {}
            }
            if let Some(p) = prev_t {
                fwd += e.t.saturating_sub(p);
                if e.t < p {
                    host_monotone = false;
                }
            }
            prev_t = Some(e.t);
            cap_max = cap_max.max(e.cap as f64);
            rate_max = rate_max.max(e.rate);
            let backwards = last_ok_t.is_some_and(|l| e.t < l);
            match out {
                Out::Panicked(p) => {
                    if backwards {
                        cnt(rep, "panic.backwards-clock");
                    } else {
                        findings.push(Finding {
                            kind: Kind::Inconclusive,
                            sig: "panic on a non-decreasing clock step (outside C17's statement)".into(),
                            detail: json!({"event": idx, "panic": p}),
                            host: h,
                            upto: idx,
                        });
                    }
                }
                _ => {
                    if backwards {
                        cnt(rep, "backwards-clock-step.returned-without-panic");
                    }
                    last_ok_t = Some(e.t);
                }
            }
            cnt(rep, &format!("bucket-calls.{}", out.name()));
            log.push(LogEntry { ev: idx, t: e.t, admitted: *out == Out::Admitted, fwd, cap_max, rate_max });
        }
        if class != Class::Limited || log.is_empty() {
            continue;
        }
        // ---- all O(n^2) windows of admitted calls
        let adm: Vec<usize> = (0..log.len()).filter(|k| log[*k].admitted).collect();
        let mut windows = 0u64;
        let (mut tight0, mut tight_sub, mut tight_multi, mut tight_frac) = (0u64, 0u64, 0u64, 0u64);
        let mut reported = false;
        for (rj, &pj) in adm.iter().enumerate() {
            let ej = &log[pj];
            // shortest windows first so that the reported window is the smallest one ending at j
            for ri in (0..=rj).rev() {
                let ei = &log[adm[ri]];
                let count = (rj - ri + 1) as f64;
                let len_ms = ej.fwd - ei.fwd;
                let whole = (len_ms / 1000) as f64;
                let bound = ej.cap_max + ej.rate_max * whole + 1e-9;
                windows += 1;
                if count > bound {
                    if !reported {
                        reported = true;
                        let shape = if len_ms == 0 {
                            "zero-length-window"
                        } else if len_ms < 1000 {
                            "sub-second-window"
                        } else {
                            "multi-second-window"
                        };
                        let clock = if host_monotone { "monotone-clock" } else { "non-monotone-clock" };
                        findings.push(Finding {
                            kind: Kind::Violation,
                            sig: format!("C17/admitted-exceeds-capacity-plus-refill/{shape}/{clock}"),
                            detail: json!({
                                "host": host.to_string(),
                                "first_event": ei.ev, "last_event": ej.ev,
                                "t_first_ms": ei.t, "t_last_ms": ej.t,
                                "window_length_ms": len_ms, "whole_seconds": whole,
                                "admitted_in_window": count, "capacity": ej.cap_max, "rate": ej.rate_max,
                                "bound": ej.cap_max + ej.rate_max * whole,
                            }),
                            host: h,
                            upto: ej.ev,
                        });
                    }
                } else if count + 1.0 > bound {
                    // one more admission in this window would have broken the bound
                    if len_ms == 0 {
                        tight0 += 1;
                    } else if len_ms < 1000 {
                        tight_sub += 1;
                    } else {
                        tight_multi += 1;
                        if ej.rate_max.fract() != 0.0 {
                            tight_frac += 1;
                        }
                    }
                }
            }
        }
        add(rep, "windows-checked", windows);
        add(rep, "windows-tight.zero-length", tight0);
        add(rep, "windows-tight.sub-second", tight_sub);
        add(rep, "windows-tight.multi-second", tight_multi);
        add(rep, "windows-tight.multi-second.fractional-rate", tight_frac);
        cnt(rep, "limited-hosts");
        if !host_monotone {
            cnt(rep, "limited-hosts.non-monotone-clock");
        }
        if configs_vary {
            cnt(rep, "limited-hosts.config-varies-between-calls");
        }
        if log[0].rate_max.fract() != 0.0 {
            cnt(rep, "limited-hosts.fractional-rate");
        }
        // exhausted and admitted again later = the refill path decided an admission
        let first_limited = log.iter().position(|l| !l.admitted && !matches!(outs[l.ev], Out::Panicked(_)));
        if let Some(fl) = first_limited {
            cnt(rep, "limited-hosts.exhausted");
            if log[fl..].iter().any(|l| l.admitted) {
                cnt(rep, "limited-hosts.exhausted-then-admitted-after-refill");
                nontrivial = true;
            }
        }
        if let Some(r) = rep {
            r.max("admitted-per-host", adm.len() as u64);
        }
    }
    if monotone_case {
        cnt(rep, "timelines.monotone-clock");
    } else {
        cnt(rep, "timelines.non-monotone-clock");
    }
    (findings, nontrivial)
}

// ------------------------------------------------------------------------------------------------
// generator

const DNS: &[&str] = &["seed.radicle.xyz", "seed.radicle.garden", "iris.radicle.xyz", "a.example.org", "x"];
const V4_BOUNDARY: &[[u8; 4]] = &[
    [9, 255, 255, 255], [11, 0, 0, 0], [172, 15, 255, 255], [172, 32, 0, 0], [192, 167, 255, 255],
    [192, 169, 0, 0], [169, 253, 255, 255], [169, 255, 0, 0], [126, 255, 255, 255], [128, 0, 0, 0],
    [1, 0, 0, 0], [223, 255, 255, 255], [192, 0, 1, 255], [192, 0, 3, 0], [198, 51, 99, 255],
    [198, 51, 101, 0], [203, 0, 112, 255], [203, 0, 114, 0], [100, 63, 255, 255], [100, 128, 0, 0],
    [198, 17, 255, 255], [198, 20, 0, 0], [8, 8, 8, 8], [1, 1, 1, 1],
];
const V4_NONROUTABLE: &[[u8; 4]] = &[
    [10, 0, 0, 0], [10, 255, 255, 255], [10, 1, 2, 3], [172, 16, 0, 0], [172, 31, 255, 255], [172, 20, 1, 1],
    [192, 168, 0, 0], [192, 168, 255, 255], [192, 168, 1, 10], [127, 0, 0, 1], [127, 255, 255, 255],
    [169, 254, 0, 0], [169, 254, 255, 255], [169, 254, 169, 254], [0, 0, 0, 0], [0, 255, 255, 255],
    [255, 255, 255, 255], [192, 0, 2, 0], [192, 0, 2, 255], [198, 51, 100, 7], [203, 0, 113, 255],
];
const V4_OBSERVED: &[[u8; 4]] = &[
    [100, 64, 0, 1], [192, 0, 0, 9], [192, 0, 0, 10], [192, 0, 0, 1], [198, 18, 0, 1], [224, 0, 0, 1],
    [240, 0, 0, 1], [255, 255, 255, 254],
];
const V6_GLOBAL: &[&str] = &["2001:4860:4860::8888", "2606:4700:4700::1111", "2a01:4f8::1", "2001:db7::1", "3fff::1"];
const V6_NONGLOBAL: &[&str] = &["::1", "::", "fe80::1", "fc00::1", "fd12:3456:789a::1", "2001:db8::1", "::ffff:10.0.0.1", "::ffff:127.0.0.1"];
const CAPS: &[usize] = &[0, 1, 1, 2, 3, 3, 5, 8, 16, 40];
const RATES: &[f64] = &[
    0.0, 1e-9, 0.01, 0.1, 0.2, 0.25, 0.3, 1.0 / 3.0, 0.5, 0.7, 0.9, 0.99, 1.0, 1.0, 1.01, 1.5, 2.0, 2.5, 3.3, 5.0, 10.0, 100.0,
];

fn gen_host(rng: &mut Rng) -> HostName {
    let v4 = |o: [u8; 4]| HostName::Ip(IpAddr::V4(Ipv4Addr::from(o)));
    match rng.weighted(&[3, 3, 2, 1, 3, 1, 1]) {
        0 => HostName::Dns(rng.pick(DNS).to_string()),
        1 => loop {
            let o = rng.u32().to_be_bytes();
            if classify_v4(o) == Class::Limited {
                break v4(o);
            }
        },
        2 => v4(*rng.pick(V4_BOUNDARY)),
        3 => HostName::Ip(IpAddr::V6(rng.pick(V6_GLOBAL).parse::<Ipv6Addr>().unwrap())),
        4 => {
            if rng.bool() {
                v4(*rng.pick(V4_NONROUTABLE))
            } else {
                // random member of a random non-routable block
                let (b, c, d) = (rng.u8(), rng.u8(), rng.u8());
                v4(match rng.below(8) {
                    0 => [10, b, c, d],
                    1 => [172, 16 + (b & 15), c, d],
                    2 => [192, 168, c, d],
                    3 => [127, b, c, d],
                    4 => [169, 254, c, d],
                    5 => [0, b, c, d],
                    6 => *rng.pick(&[[192, 0, 2, d], [198, 51, 100, d], [203, 0, 113, d]]),
                    _ => [0, 0, 0, 0],
                })
            }
        }
        5 => HostName::Ip(IpAddr::V6(rng.pick(V6_NONGLOBAL).parse::<Ipv6Addr>().unwrap())),
        _ => v4(*rng.pick(V4_OBSERVED)),
    }
}

fn gen_tokens(rng: &mut Rng) -> (usize, f64) {
    let cap = match rng.below(12) {
        0 => 1 + rng.usize(60),
        1 => 64 + rng.usize(200),
        _ => *rng.pick(CAPS),
    };
    let rate = match rng.below(10) {
        0 => rng.f64() * 3.0,
        1 => rng.f64() * 50.0,
        2 => 1.0 / (1 + rng.below(20)) as f64,
        _ => *rng.pick(RATES),
    };
    (cap, rate)
}

fn gen_case(rng: &mut Rng) -> Case {
    let nhosts = 1 + rng.weighted(&[4, 4, 2, 1]);
    let mut hosts: Vec<HostName> = vec![];
    while hosts.len() < nhosts {
        let h = gen_host(rng);
        if !hosts.contains(&h) {
            hosts.push(h);
        }
    }
    let nids = 1 + rng.usize(4);
    let bypass: Vec<usize> = (0..nids).filter(|_| rng.chance(1, 3)).collect();
    let mut tokens: Vec<(usize, f64)> = (0..nhosts).map(|_| gen_tokens(rng)).collect();
    let nonmono = rng.chance(2, 5);
    let vary = rng.chance(1, 10);
    let n_target = 20 + rng.usize(MAX_EVENTS - 19);
    let mut t: u64 = match rng.below(5) {
        0 => 0,
        1 => rng.range(0, 5000),
        2 => 1_700_000_000_000 + rng.below(1_000_000_000),
        3 => rng.range(0, 1 << 40),
        _ => 1000 * rng.range(0, 100_000),
    };
    let mut hi = t; // greatest time shown so far
    let mut events: Vec<Ev> = vec![];
    let mut h = rng.usize(nhosts);
    while events.len() < n_target {
        if rng.chance(1, 3) {
            h = rng.usize(nhosts);
        }
        if vary && rng.chance(1, 4) {
            tokens[h] = gen_tokens(rng);
        }
        let (cap, rate) = tokens[h];
        // the node id is sticky within a segment so that a bypassed node can exceed the capacity
        let seg_nid = if rng.chance(1, 5) { None } else { Some(rng.usize(nids)) };
        let mut push = |rng: &mut Rng, t: u64, host: usize| {
            let n = if rng.chance(7, 10) { seg_nid } else if rng.chance(1, 4) { None } else { Some(rng.usize(nids)) };
            let (cap, rate) = tokens[host];
            events.push(Ev { host, nid: n, t, cap, rate });
        };
        let seg = rng.weighted(&[5, 4, 3, 3, 3, 2, if nonmono { 3 } else { 0 }]);
        match seg {
            0 => {
                // burst at one instant, a few more than the capacity
                let k = 1 + rng.usize(cap.min(44) + 4);
                for _ in 0..k {
                    let host = if rng.chance(1, 6) { rng.usize(nhosts) } else { h };
                    push(rng, t, host);
                }
            }
            1 => {
                for _ in 0..1 + rng.usize(12) {
                    t += *rng.pick(&[1u64, 10, 100, 250, 333, 499, 500, 501, 900, 999]);
                    push(rng, t, h);
                }
            }
            2 => {
                t += *rng.pick(&[999u64, 1000, 1001, 1999, 2000, 2001]);
                for _ in 0..1 + rng.usize(3) {
                    push(rng, t, h);
                }
            }
            3 => {
                for _ in 0..1 + rng.usize(8) {
                    t += 1000 * (1 + rng.below(5));
                    for _ in 0..1 + rng.usize(3) {
                        push(rng, t, h);
                    }
                }
            }
            4 => {
                // wait exactly as long as one token takes at this rate, give or take a millisecond
                if rate > 0.0 {
                    let secs = (1.0 / rate).ceil().min(1e7) as u64;
                    let k = 1 + rng.below(3);
                    t = (t + secs * 1000 * k).saturating_add_signed(*rng.pick(&[-1i64, 0, 0, 1]));
                }
                for _ in 0..1 + rng.usize(3) {
                    push(rng, t, h);
                }
            }
            5 => {
                // idle: a power of ten seconds, or the time of a complete refill, then a burst
                let secs = if rate > 0.0 && rng.bool() {
                    ((cap as f64 / rate).ceil().min(1e7) as u64).saturating_add_signed(*rng.pick(&[-1i64, 0, 1]))
                } else {
                    10u64.pow(1 + rng.u32() % 7)
                };
                t += secs * 1000;
                for _ in 0..1 + rng.usize(cap.min(44) + 3) {
                    push(rng, t, h);
                }
            }
            _ => {
                // the clock goes backwards
                t = match rng.below(4) {
                    0 => 0,
                    1 => rng.range(0, t),
                    _ => t.saturating_sub(*rng.pick(&[1u64, 500, 999, 1000, 1001, 5000, 60_000])),
                };
                for _ in 0..1 + rng.usize(3) {
                    push(rng, t, h);
                }
                if rng.bool() {
                    // ... and catches up again
                    t = hi + *rng.pick(&[0u64, 1, 999, 1000, 3000]);
                    push(rng, t, h);
                }
            }
        }
        hi = hi.max(t);
    }
    events.truncate(MAX_EVENTS);
    Case { hosts, nids, bypass, events }
}

// ------------------------------------------------------------------------------------------------
// witness, replay, shrinking

fn case_json(case: &Case, outs: &[Out]) -> Value {
    json!({
        "hosts": case.hosts.iter().map(host_json).collect::<Vec<_>>(),
        "nids": case.nids,
        "bypass": case.bypass,
        "events": case.events.iter().zip(outs).map(|(e, o)| json!({
            "h": e.host, "n": e.nid, "t_ms": e.t, "cap": e.cap, "rate": e.rate,
            "rate_bits": format!("{:016x}", e.rate.to_bits()), "outcome": o.name(),
        })).collect::<Vec<_>>(),
    })
}

fn case_from_json(w: &Value) -> Option<Case> {
    let hosts = w["hosts"].as_array()?.iter().map(host_from_json).collect::<Option<Vec<_>>>()?;
    let nids = w["nids"].as_u64()? as usize;
    let bypass = w["bypass"].as_array()?.iter().map(|b| b.as_u64().map(|b| b as usize)).collect::<Option<Vec<_>>>()?;
    let events = w["events"]
        .as_array()?
        .iter()
        .map(|e| {
            let rate = match e["rate_bits"].as_str().and_then(|s| u64::from_str_radix(s, 16).ok()) {
                Some(bits) => f64::from_bits(bits),
                None => e["rate"].as_f64()?,
            };
            Some(Ev {
                host: e["h"].as_u64()? as usize,
                nid: e["n"].as_u64().map(|n| n as usize),
                t: e["t_ms"].as_u64()?,
                cap: e["cap"].as_u64()? as usize,
                rate,
            })
        })
        .collect::<Option<Vec<_>>>()?;
    if events.iter().any(|e| e.host >= hosts.len() || e.nid.is_some_and(|n| n >= nids)) || bypass.iter().any(|b| *b >= nids) || nids > 200 {
        return None;
    }
    Some(Case { hosts, nids, bypass, events })
}

fn has_sig(case: &Case, sig: &str) -> bool {
    let outs = execute(case);
    judge(case, &outs, None).0.iter().any(|f| matches!(f.kind, Kind::Violation) && f.sig == sig)
}

/// Greedy chunk removal while the same signature keeps firing.
fn shrink(case: &Case, f: &Finding) -> Case {
    let mut cur = case.clone();
    cur.events.truncate(f.upto + 1);
    cur.events.retain(|e| e.host == f.host);
    if !has_sig(&cur, &f.sig) {
        return case.clone();
    }
    let mut chunk = (cur.events.len() / 2).max(1);
    loop {
        let mut i = 0;
        while i < cur.events.len() {
            let mut cand = cur.clone();
            let end = (i + chunk).min(cand.events.len());
            cand.events.drain(i..end);
            if !cand.events.is_empty() && has_sig(&cand, &f.sig) {
                cur = cand;
            } else {
                i += chunk;
            }
        }
        if chunk == 1 {
            break;
        }
        chunk /= 2;
    }
    cur
}

fn report(rep: &mut Reporter, case: &Case, outs: &[Out], findings: Vec<Finding>, emitted: &mut std::collections::BTreeMap<String, u32>) {
    for f in findings {
        match f.kind {
            Kind::Inconclusive => rep.inconclusive(&f.sig, json!({"detail": f.detail, "case": case_json(case, outs)})),
            Kind::Violation => {
                let n = emitted.entry(f.sig.clone()).or_insert(0);
                *n += 1;
                // only the first few witnesses per signature are printed; shrink just those
                if *n > 3 {
                    rep.violation(&f.sig, Value::Null);
                    continue;
                }
                let c = shrink(case, &f);
                let o = execute(&c);
                let detail = judge(&c, &o, None).0.into_iter().find(|g| g.sig == f.sig).map(|g| g.detail).unwrap_or(f.detail);
                let mut w = case_json(&c, &o);
                w["finding"] = detail;
                rep.violation(&f.sig, w);
            }
        }
    }
}

fn one_case(rep: &mut Reporter, seed: u64, emitted: &mut std::collections::BTreeMap<String, u32>) {
    let mut rng = Rng::new(seed);
    let case = gen_case(&mut rng);
    let outs = execute(&case);
    rep.eval();
    rep.add("calls", case.events.len() as u64);
    let (findings, nontrivial) = judge(&case, &outs, Some(rep));
    if nontrivial {
        let mut bytes = vec![];
        for e in &case.events {
            bytes.extend((e.host as u8).to_le_bytes());
            bytes.extend(e.t.to_le_bytes());
            bytes.extend((e.cap as u32).to_le_bytes());
            bytes.extend(e.rate.to_bits().to_le_bytes());
            bytes.push(e.nid.map_or(255, |n| n as u8));
        }
        rep.nontrivial_bytes(&bytes);
        if rep.wants_sample() {
            let mut s = case_json(&case, &outs);
            let n = case.events.len();
            if let Some(a) = s["events"].as_array_mut() {
                a.truncate(12);
            }
            s["events_total"] = json!(n);
            rep.sample(s);
        }
    }
    report(rep, &case, &outs, findings, emitted);
}

/// Fixed timelines: heartwood's own unit-test timeline (3 tokens, 0.2/s) and a few boundary shapes,
/// so that every run exercises them regardless of the seed.
fn directed(rep: &mut Reporter, emitted: &mut std::collections::BTreeMap<String, u32>) {
    let dns = HostName::Dns("seed.radicle.xyz".into());
    let ev = |t: u64, cap: usize, rate: f64, nid: Option<usize>| Ev { host: 0, nid, t, cap, rate };
    let mut cases = vec![];
    // limiter.rs `test_limitter_refill`
    let mut e: Vec<Ev> = (0..=16).map(|s| ev(s * 1000, 3, 0.2, Some(0))).collect();
    e.extend((0..4).map(|_| ev(60_000, 3, 0.2, Some(0))));
    cases.push(Case { hosts: vec![dns.clone()], nids: 1, bypass: vec![], events: e });
    // burst, then 999 ms / 1000 ms / 1001 ms steps at rate 2
    let mut e: Vec<Ev> = (0..6).map(|_| ev(0, 5, 2.0, None)).collect();
    for t in [500, 999, 1000, 1000, 1000, 1999, 2000, 2000, 2000, 2999, 3998, 4997, 5996] {
        e.push(ev(t, 5, 2.0, None));
    }
    cases.push(Case { hosts: vec![dns.clone()], nids: 1, bypass: vec![], events: e });
    // a bypassed node and a loopback address, far beyond the capacity
    let e: Vec<Ev> = (0..20).map(|_| ev(7, 1, 0.0, Some(0))).collect();
    cases.push(Case { hosts: vec![dns.clone()], nids: 1, bypass: vec![0], events: e.clone() });
    cases.push(Case { hosts: vec![HostName::Ip(IpAddr::V4(Ipv4Addr::LOCALHOST))], nids: 1, bypass: vec![], events: e });
    // backwards clock
    let e = vec![ev(10_000, 1, 1.0, None), ev(10_000, 1, 1.0, None), ev(0, 1, 1.0, None), ev(10_000, 1, 1.0, None), ev(11_000, 1, 1.0, None)];
    cases.push(Case { hosts: vec![dns], nids: 1, bypass: vec![], events: e });
    for case in cases {
        let outs = execute(&case);
        rep.eval();
        rep.count("directed-timelines");
        let (findings, _) = judge(&case, &outs, Some(rep));
        report(rep, &case, &outs, findings, emitted);
    }
}

pub fn run(args: &Args) {
    let mut rep = Reporter::new("C17");
    let mut emitted = std::collections::BTreeMap::new();
    if let Some(path) = &args.replay {
        let w = vcommon::load_replay(path);
        match case_from_json(&w) {
            Some(case) => {
                let outs = execute(&case);
                rep.eval();
                let (findings, _) = judge(&case, &outs, Some(&mut rep));
                // replay reports the case as given (no shrinking)
                for f in findings {
                    match f.kind {
                        Kind::Violation => {
                            let mut w = case_json(&case, &outs);
                            w["finding"] = f.detail;
                            rep.violation(&f.sig, w)
                        }
                        Kind::Inconclusive => rep.inconclusive(&f.sig, f.detail),
                    }
                }
            }
            None => rep.inconclusive("replay file does not contain a C17 case", w),
        }
        rep.finish();
        return;
    }
    if args.shard == 0 {
        directed(&mut rep, &mut emitted);
    }
    let n = args.budget(400_000, 6_000_000);
    for k in 0..n {
        one_case(&mut rep, args.case_seed(k), &mut emitted);
    }
    rep.finish();
}
