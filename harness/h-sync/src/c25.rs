//! C25 — sync targets report success exactly when reached.
//!
//! Statement: the sync announcer and fetcher report success exactly when their target is met (every
//! preferred seed synced, or the replica count reached), and otherwise report a timeout or failure.
//! They never count or hand out the local node, and the fetcher never hands out a node that already
//! has a result.
//!
//! The harness drives the real `radicle::node::sync::{Announcer, Fetcher}` through their public API
//! with generated configurations and *scripts* of calls (results for nodes handed out by the machine,
//! for the local node, for unknown nodes, for nodes that already have a result, failures, premature
//! and repeated terminal calls). Beside the machine it keeps a shadow that never looks into the
//! machine: `S` = the set of DISTINCT NON-LOCAL nodes that synced (announcer: the configured synced
//! set plus every `synced_with`) resp. that have at least one successful fetch result (fetcher), and
//! `R` = nodes with any fetch result. The target is read once through the public `target()`
//! accessors (preferred seeds, replication factor) after construction.
//!
//! READING OF THE STATEMENT
//!
//! * "target met", fetcher  : (P ≠ ∅ ∧ P ⊆ S) ∨ |S| ≥ bound          (either suffices; fetch.rs docs)
//!   "target met", announcer: P ⊆ S ∧ |S| ≥ bound                    (both needed; its unit test
//!   `announcer_must_reach_preferred_seeds` documents that the replica count alone is not enough)
//!   with bound = n for `MustReach(n)` and bound = upper for `Range(lower, upper)` — the unit tests
//!   `reaches_target_of_max_replicas` / `announcer_reached_max_replication_target` document that a
//!   running process continues past `lower` and stops at `upper`.
//! * Success is reported by `ControlFlow::Break(Success)` from `synced_with` / `fetch_complete` and
//!   by `AnnouncerResult::Success` / `FetcherResult::TargetReached` from `timed_out()` / `finish()`;
//!   everything else (`Continue`, `TimedOut`, `NoNodes`, `TargetError`) is "not success". At every
//!   such call: success reported ⇔ target met on the shadow.
//! * Two points where the statement is silent are accepted EITHER way and only counted
//!   (`ambiguous.*`), so that the check never demands more than the statement:
//!   (a) at the *terminal* call, a `Range` whose lower bound is reached but not its upper bound
//!       ("must reach a minimum, may continue to a maximum": is the target met at the end?);
//!   (b) the local node being a member of the target's preferred set (only possible for the fetcher,
//!       which keeps it when the caller lists it): is "every preferred seed" with or without it?
//!   (c) a node that was given both a successful and a failed fetch result (outside the protocol):
//!       every reading from "succeeded only if it never failed" to "succeeded if it ever succeeded".
//! * `Announcer::can_continue` is a "more nodes?" query. `NoNodes` is treated as a failure report —
//!   and must then coincide with "target not met" — only as long as the caller has not already been
//!   told `Break(Success)` (a caller that ignores a `Break` and asks again is only counted).
//! * Never hand out: `to_sync()`, `next_node()`, `next_fetch()`, `TimedOut::timed_out()` never contain
//!   the local node; `next_node()` / `next_fetch()` never return a node in `R`.
//! * Never count: the local node is never a key of a reported synced map, and a reported count
//!   (`Progress`, `SuccessfulOutcome`, `AlreadySynced`) that exceeds the shadow count because a result
//!   for the local node was fed is a violation. Other count differences are only counted (`obs.*`).
//! * A panic inside the machines is reported as a violation (neither success nor failure reported).
//! * Construction errors are not success/failure reports of a sync process; they are only counted.
use std::collections::{BTreeMap, BTreeSet, HashSet};
use std::ops::ControlFlow;
use std::str::FromStr;
use std::time::Duration;

use radicle::identity::project::ProjectName;
use radicle::identity::{Did, Doc, Project, Visibility};
use radicle::node::sync::fetch::Candidate;
use radicle::node::sync::{
    announce, fetch, Announcer, AnnouncerConfig, AnnouncerError, AnnouncerResult, Fetcher, FetcherConfig, FetcherError,
    FetcherResult, PrivateNetwork, ReplicationFactor,
};
use radicle::node::{Address, FetchResult, NodeId};
use radicle_crypto::{KeyPair, PublicKey, SecretKey, Seed};
use vcommon::{guarded, json, panic_site, Args, Reporter, Rng, Value};

/// Size of the node alphabet.
const N: usize = 10;

fn node(i: usize) -> NodeId {
    let kp = KeyPair::from_seed(Seed::new([0xA0 ^ (i as u8); 32]));
    let sk = SecretKey::from(kp.sk);
    PublicKey::from(sk.public_key())
}

thread_local! {
    static NODES: Vec<NodeId> = (0..N).map(node).collect();
}

fn nodes() -> Vec<NodeId> {
    NODES.with(|n| n.clone())
}

fn name(nodes: &[NodeId], local: NodeId, n: &NodeId) -> String {
    let i = nodes.iter().position(|m| m == n).map(|i| format!("N{i}")).unwrap_or_else(|| n.to_string());
    if *n == local {
        format!("{i}(local)")
    } else {
        i
    }
}

fn addr(i: usize) -> Address {
    Address::from(std::net::SocketAddr::from(([203, 0, 113, i as u8], 8776)))
}

fn ok_result() -> FetchResult {
    FetchResult::Success { updated: vec![], namespaces: HashSet::new(), clone: false }
}

fn failed_result() -> FetchResult {
    FetchResult::Failed { reason: "scripted failure".into() }
}

/// A private network with exactly the `allowed` members, through the only public constructor.
fn private_network(allowed: &BTreeSet<NodeId>) -> PrivateNetwork {
    let delegate = allowed.iter().next().copied().unwrap_or_else(|| node(0));
    let project = Project::new(
        ProjectName::from_str("acme").expect("project name"),
        "".to_string(),
        radicle::git::RefString::try_from("master").expect("branch"),
    )
    .expect("project");
    let doc = Doc::initial(project, Did::from(delegate), Visibility::private(allowed.iter().map(|n| Did::from(*n))));
    PrivateNetwork::private_repo(&doc).expect("private document").restrict(|n| allowed.contains(n))
}

#[derive(Clone, Copy, Debug, PartialEq)]
enum RepSpec {
    Must(usize),
    Range(usize, usize),
}

impl RepSpec {
    fn factor(&self) -> ReplicationFactor {
        match *self {
            RepSpec::Must(n) => ReplicationFactor::must_reach(n),
            RepSpec::Range(lo, hi) => ReplicationFactor::range(lo, hi),
        }
    }
    fn json(&self) -> Value {
        match *self {
            RepSpec::Must(n) => json!({"must_reach": n}),
            RepSpec::Range(lo, hi) => json!({"range": [lo, hi]}),
        }
    }
    fn from_json(v: &Value) -> Option<RepSpec> {
        if let Some(n) = v["must_reach"].as_u64() {
            return Some(RepSpec::Must(n as usize));
        }
        let r = v["range"].as_array()?;
        Some(RepSpec::Range(r.first()?.as_u64()? as usize, r.get(1)?.as_u64()? as usize))
    }
}

// ------------------------------------------------------------------------------------------------
// the target as read through the public accessors, and what the statement expects

#[derive(Clone, Copy, PartialEq, Debug)]
enum Expect {
    Success,
    NotSuccess,
    Either(&'static str),
}

struct View {
    local: NodeId,
    preferred: BTreeSet<NodeId>,
    lower: usize,
    upper: Option<usize>,
    /// Announcer: preferred seeds AND replica count; fetcher: preferred seeds OR replica count.
    both_needed: bool,
}

impl View {
    fn new(local: NodeId, preferred: &BTreeSet<NodeId>, replicas: &ReplicationFactor, both_needed: bool) -> View {
        View { local, preferred: preferred.clone(), lower: replicas.lower_bound(), upper: replicas.upper_bound(), both_needed }
    }
    fn strict_bound(&self) -> usize {
        self.upper.unwrap_or(self.lower)
    }
    fn met(&self, s: &BTreeSet<NodeId>, without_local: bool, bound: usize) -> bool {
        let mut p = self.preferred.clone();
        if without_local {
            p.remove(&self.local);
        }
        if self.both_needed {
            p.is_subset(s) && s.len() >= bound
        } else {
            (!p.is_empty() && p.is_subset(s)) || s.len() >= bound
        }
    }
    fn expect(&self, s: &BTreeSet<NodeId>, terminal: bool) -> Expect {
        let base = self.met(s, false, self.strict_bound());
        if terminal && self.upper.is_some() && self.met(s, false, self.lower) != base {
            return Expect::Either("range-between-bounds-at-terminal-call");
        }
        if self.preferred.contains(&self.local) {
            let mut alts = vec![self.met(s, true, self.strict_bound())];
            if terminal && self.upper.is_some() {
                alts.push(self.met(s, true, self.lower));
            }
            if alts.iter().any(|a| *a != base) {
                return Expect::Either("local-node-in-target-preferred-seeds");
            }
        }
        if base {
            Expect::Success
        } else {
            Expect::NotSuccess
        }
    }
    /// Expectation when the set of succeeded nodes itself has two defensible readings `lo ⊆ hi`
    /// (a node with both a successful and a failed result): definite only if both agree.
    fn expect_between(&self, lo: &BTreeSet<NodeId>, hi: &BTreeSet<NodeId>, terminal: bool) -> Expect {
        match (self.expect(lo, terminal), self.expect(hi, terminal)) {
            (a, b) if a == b => a,
            (Expect::Either(why), _) | (_, Expect::Either(why)) => Expect::Either(why),
            _ => Expect::Either("conflicting-results-for-one-node"),
        }
    }
}

struct Finding {
    sig: String,
    detail: Value,
}

fn cnt(rep: &mut Option<&mut Reporter>, key: &str) {
    if let Some(r) = rep {
        r.count(key);
    }
}

/// Compare a reported verdict with the expectation; `cause` explains a wrongly reported success.
#[allow(clippy::too_many_arguments)]
fn decide(
    rep: &mut Option<&mut Reporter>,
    findings: &mut Vec<Finding>,
    machine: &str,
    at: &str,
    reported_success: bool,
    expect: Expect,
    cause: impl FnOnce() -> &'static str,
    detail: Value,
) {
    cnt(rep, &format!("{machine}.decisions"));
    cnt(rep, &format!("{machine}.decisions.{at}.{}", if reported_success { "success" } else { "not-success" }));
    match (expect, reported_success) {
        (Expect::Either(why), _) => cnt(rep, &format!("ambiguous.{machine}.{why}.{}", if reported_success { "reported-success" } else { "reported-not-success" })),
        (Expect::Success, true) | (Expect::NotSuccess, false) => {}
        (Expect::NotSuccess, true) => findings.push(Finding { sig: format!("C25/{machine}/success-reported/target-not-met/{}", cause()), detail }),
        (Expect::Success, false) => findings.push(Finding { sig: format!("C25/{machine}/success-not-reported/target-met/{at}"), detail }),
    }
}

// ------------------------------------------------------------------------------------------------
// announcer

#[derive(Clone, Debug, PartialEq)]
enum AOp {
    /// `synced_with(node index, duration ms)`
    Synced(usize, u64),
    /// `synced_with` the k-th (mod len) member of the current `to_sync()`; no-op when empty
    SyncedNext(usize),
    Progress,
    ToSync,
    CanContinue,
    TimedOut,
}

#[derive(Clone, Debug)]
struct ACase {
    local: usize,
    /// `AnnouncerConfig::private` over the `preferred` set; `synced`/`unsynced` are unused then.
    private: bool,
    preferred: Vec<usize>,
    synced: Vec<usize>,
    unsynced: Vec<usize>,
    rep: RepSpec,
    ops: Vec<AOp>,
}

fn set_of(nodes: &[NodeId], idx: &[usize]) -> BTreeSet<NodeId> {
    idx.iter().map(|i| nodes[*i]).collect()
}

fn run_announcer(c: &ACase, rep: &mut Option<&mut Reporter>) -> (Vec<Finding>, Vec<String>, bool) {
    let nodes = nodes();
    let local = nodes[c.local];
    let nm = |n: &NodeId| name(&nodes, local, n);
    let mut findings = vec![];
    let mut tr: Vec<String> = vec![];
    let cfg_synced = if c.private { BTreeSet::new() } else { set_of(&nodes, &c.synced) };
    let preferred = set_of(&nodes, &c.preferred);
    let config = if c.private {
        AnnouncerConfig::private(local, c.rep.factor(), private_network(&preferred))
    } else {
        AnnouncerConfig::public(local, c.rep.factor(), preferred.clone(), cfg_synced.clone(), set_of(&nodes, &c.unsynced))
    };
    // shadow: distinct non-local synced nodes
    let mut s: BTreeSet<NodeId> = cfg_synced.iter().filter(|n| **n != local).copied().collect();
    let mut fed_local = cfg_synced.contains(&local);
    let mut ann = match guarded(move || Announcer::new(config)) {
        Err(p) => {
            findings.push(Finding { sig: format!("C25/announcer/panic/{}", panic_site(&p)), detail: json!({"at": "Announcer::new", "panic": p}) });
            return (findings, tr, false);
        }
        Ok(Err(e)) => {
            match e {
                AnnouncerError::NoSeeds => cnt(rep, "announcer.new.NoSeeds"),
                AnnouncerError::Target(_) => cnt(rep, "announcer.new.TargetError"),
                AnnouncerError::AlreadySynced(a) => {
                    cnt(rep, "announcer.new.AlreadySynced");
                    tr.push(format!("Announcer::new -> AlreadySynced{{preferred: {}, synced: {}}}", a.preferred(), a.synced()));
                    if a.synced() > s.len() {
                        if fed_local && a.synced() == s.len() + 1 {
                            findings.push(Finding {
                                sig: "C25/announcer/local-node-counted/already-synced".into(),
                                detail: json!({"reported_synced": a.synced(), "distinct_non_local_synced": s.len()}),
                            });
                        } else {
                            cnt(rep, "obs.announcer.already-synced-count-differs");
                        }
                    }
                    if preferred.iter().any(|p| *p != local && !s.contains(p)) {
                        // "already synced" although a preferred seed is not: construction errors are
                        // outside the statement's observation points; counted only
                        cnt(rep, "obs.announcer.new.AlreadySynced-while-a-preferred-seed-is-unsynced");
                    }
                }
            }
            return (findings, tr, false);
        }
        Ok(Ok(a)) => a,
    };
    cnt(rep, "announcer.constructed");
    let view = View::new(local, ann.target().preferred_seeds(), ann.target().replicas(), true);
    if view.upper.is_some() {
        cnt(rep, "announcer.constructed.range-target");
    }
    if !view.preferred.is_empty() {
        cnt(rep, "announcer.constructed.with-preferred-seeds");
    }
    let mut told_success = false;
    let mut results = 0usize;
    let mut ops: Vec<AOp> = c.ops.clone();
    if ops.last() != Some(&AOp::TimedOut) {
        ops.push(AOp::TimedOut);
    }
    // checks shared by every place that reports counts / synced maps
    let check_counts = |rep: &mut Option<&mut Reporter>, findings: &mut Vec<Finding>, at: &str, synced: usize, pref: usize, s: &BTreeSet<NodeId>, fed_local: bool| {
        let want_pref = s.intersection(&view.preferred).count();
        if synced != s.len() || pref != want_pref {
            if fed_local && synced == s.len() + 1 {
                findings.push(Finding {
                    sig: format!("C25/announcer/local-node-counted/{at}"),
                    detail: json!({"reported_synced": synced, "distinct_non_local_synced": s.len()}),
                });
            } else {
                cnt(rep, &format!("obs.announcer.count-differs.{at}"));
            }
        }
    };
    let check_map = |findings: &mut Vec<Finding>, at: &str, m: &BTreeMap<NodeId, announce::SyncStatus>| {
        if m.contains_key(&local) {
            findings.push(Finding { sig: format!("C25/announcer/local-node-counted/{at}-synced-map"), detail: json!({"synced_map_size": m.len()}) });
        }
    };
    for op in ops {
        match op {
            AOp::Synced(_, _) | AOp::SyncedNext(_) => {
                let (n, ms) = match op {
                    AOp::Synced(i, ms) => (nodes[i % N], ms),
                    AOp::SyncedNext(k) => {
                        let ts: Vec<NodeId> = ann.to_sync().into_iter().collect();
                        if ts.is_empty() {
                            continue;
                        }
                        (ts[k % ts.len()], 1000)
                    }
                    _ => unreachable!(),
                };
                results += 1;
                if n == local {
                    fed_local = true;
                    cnt(rep, "announcer.synced_with.local-node");
                } else {
                    if s.contains(&n) {
                        cnt(rep, "announcer.synced_with.repeated-node");
                    } else if !ann.to_sync().contains(&n) {
                        cnt(rep, "announcer.synced_with.unknown-node");
                    }
                    if s.len() + 1 == view.strict_bound() && !s.contains(&n) {
                        cnt(rep, "announcer.synced_with.reaches-replica-bound");
                    }
                    s.insert(n);
                }
                let a = &mut ann;
                let r = match guarded(move || a.synced_with(n, Duration::from_millis(ms))) {
                    Ok(r) => r,
                    Err(p) => {
                        findings.push(Finding { sig: format!("C25/announcer/panic/{}", panic_site(&p)), detail: json!({"at": "synced_with", "panic": p}) });
                        return (findings, tr, true);
                    }
                };
                let expect = view.expect(&s, false);
                // why a success that the shadow does not support was reported (signature component)
                let cause = |reported_synced: usize| {
                    let mut with_local = s.clone();
                    with_local.insert(local);
                    if fed_local && reported_synced == s.len() + 1 && view.met(&with_local, false, view.strict_bound()) {
                        "local-node-counted"
                    } else if !view.preferred.is_subset(&s) {
                        "preferred-seed-not-synced"
                    } else {
                        "replica-count-below-bound"
                    }
                };
                match r {
                    ControlFlow::Break(success) => {
                        tr.push(format!("synced_with({}) -> Break({:?})", nm(&n), success.outcome()));
                        told_success = true;
                        let (announce::SuccessfulOutcome::MinReplicationFactor { preferred, synced }
                        | announce::SuccessfulOutcome::MaxReplicationFactor { preferred, synced }) = success.outcome();
                        decide(rep, &mut findings, "announcer", "synced_with", true, expect, || cause(synced), json!({"node": nm(&n), "outcome": format!("{:?}", success.outcome()), "distinct_non_local_synced": s.len()}));
                        check_counts(rep, &mut findings, "success-outcome", synced, preferred, &s, fed_local);
                        check_map(&mut findings, "success", success.synced());
                        cnt(rep, &format!("announcer.success.{}", if matches!(success.outcome(), announce::SuccessfulOutcome::MinReplicationFactor { .. }) { "MinReplicationFactor" } else { "MaxReplicationFactor" }));
                    }
                    ControlFlow::Continue(p) => {
                        tr.push(format!("synced_with({}) -> Continue(preferred: {}, synced: {}, unsynced: {})", nm(&n), p.preferred(), p.synced(), p.unsynced()));
                        // `synced_with` documents "target reached => Break(Success), otherwise Continue(Progress)"
                        let at = if n == local { "synced_with-local-node" } else { "synced_with" };
                        decide(rep, &mut findings, "announcer", at, false, expect, || "n/a", json!({"node": nm(&n), "distinct_non_local_synced": s.len()}));
                        check_counts(rep, &mut findings, "progress", p.synced(), p.preferred(), &s, fed_local);
                    }
                }
            }
            AOp::Progress => {
                let a = &ann;
                match guarded(move || a.progress()) {
                    Ok(p) => {
                        tr.push(format!("progress() -> preferred: {}, synced: {}, unsynced: {}", p.preferred(), p.synced(), p.unsynced()));
                        check_counts(rep, &mut findings, "progress", p.synced(), p.preferred(), &s, fed_local);
                    }
                    Err(p) => {
                        findings.push(Finding { sig: format!("C25/announcer/panic/{}", panic_site(&p)), detail: json!({"at": "progress", "panic": p}) });
                        return (findings, tr, true);
                    }
                }
            }
            AOp::ToSync => {
                let ts = ann.to_sync();
                tr.push(format!("to_sync() -> [{}]", ts.iter().map(&nm).collect::<Vec<_>>().join(", ")));
                cnt(rep, "announcer.to_sync-observed");
                if ts.contains(&local) {
                    findings.push(Finding { sig: "C25/announcer/local-node-handed-out/to_sync".into(), detail: json!({}) });
                }
            }
            AOp::CanContinue => match guarded(move || ann.can_continue()) {
                Err(p) => {
                    findings.push(Finding { sig: format!("C25/announcer/panic/{}", panic_site(&p)), detail: json!({"at": "can_continue", "panic": p}) });
                    return (findings, tr, true);
                }
                Ok(ControlFlow::Continue(a)) => {
                    tr.push("can_continue() -> Continue".into());
                    ann = a;
                }
                Ok(ControlFlow::Break(no_nodes)) => {
                    tr.push("can_continue() -> Break(NoNodes)".into());
                    check_map(&mut findings, "no-nodes", no_nodes.synced());
                    if told_success {
                        cnt(rep, "obs.announcer.NoNodes-after-an-ignored-Break(Success)");
                    } else {
                        let expect = view.expect(&s, true);
                        decide(rep, &mut findings, "announcer", "can_continue-no-nodes", false, expect, || "n/a", json!({"distinct_non_local_synced": s.len()}));
                    }
                    cnt(rep, "announcer.result.NoNodes");
                    return (findings, tr, results >= 2);
                }
            },
            AOp::TimedOut => {
                let r = match guarded(move || ann.timed_out()) {
                    Ok(r) => r,
                    Err(p) => {
                        findings.push(Finding { sig: format!("C25/announcer/panic/{}", panic_site(&p)), detail: json!({"at": "timed_out", "panic": p}) });
                        return (findings, tr, true);
                    }
                };
                let expect = view.expect(&s, true);
                // why a success that the shadow does not support was reported (signature component)
                let cause = |reported_synced: usize| {
                    let mut with_local = s.clone();
                    with_local.insert(local);
                    if fed_local && reported_synced == s.len() + 1 && view.met(&with_local, false, view.strict_bound()) {
                        "local-node-counted"
                    } else if !view.preferred.is_subset(&s) {
                        "preferred-seed-not-synced"
                    } else {
                        "replica-count-below-bound"
                    }
                };
                check_map(&mut findings, "result", r.synced());
                match &r {
                    AnnouncerResult::Success(success) => {
                        tr.push(format!("timed_out() -> Success({:?})", success.outcome()));
                        let (announce::SuccessfulOutcome::MinReplicationFactor { preferred, synced }
                        | announce::SuccessfulOutcome::MaxReplicationFactor { preferred, synced }) = success.outcome();
                        decide(rep, &mut findings, "announcer", "timed_out", true, expect, || cause(synced), json!({"outcome": format!("{:?}", success.outcome()), "distinct_non_local_synced": s.len()}));
                        check_counts(rep, &mut findings, "success-outcome", synced, preferred, &s, fed_local);
                        cnt(rep, "announcer.result.Success");
                    }
                    AnnouncerResult::TimedOut(t) => {
                        tr.push(format!("timed_out() -> TimedOut(synced: {}, timed_out: {})", t.synced().len(), t.timed_out().len()));
                        decide(rep, &mut findings, "announcer", "timed_out", false, expect, || "n/a", json!({"distinct_non_local_synced": s.len()}));
                        if t.timed_out().contains(&local) {
                            findings.push(Finding { sig: "C25/announcer/local-node-handed-out/timed-out-set".into(), detail: json!({}) });
                        }
                        cnt(rep, "announcer.result.TimedOut");
                    }
                    AnnouncerResult::NoNodes(_) => {
                        tr.push("timed_out() -> NoNodes".into());
                        decide(rep, &mut findings, "announcer", "timed_out", false, expect, || "n/a", json!({"distinct_non_local_synced": s.len()}));
                    }
                }
                return (findings, tr, results >= 2);
            }
        }
    }
    (findings, tr, results >= 2)
}

// ------------------------------------------------------------------------------------------------
// fetcher

#[derive(Clone, Copy, Debug, PartialEq)]
enum AfterNode {
    Ready,
    Fail,
    Ignore,
    /// ready_to_fetch, next_fetch, fetch_complete(success?)
    Fetch(bool),
}

#[derive(Clone, Copy, Debug, PartialEq)]
enum AfterFetch {
    Complete(bool),
    Failed,
    Ignore,
}

#[derive(Clone, Debug, PartialEq)]
enum FOp {
    NextNode(AfterNode),
    NextFetch(AfterFetch),
    Ready(usize),
    Complete(usize, bool),
    Failed(usize),
    Progress,
    Finish,
}

#[derive(Clone, Debug)]
struct FCase {
    local: usize,
    private: bool,
    seeds: Vec<usize>,
    /// `with_candidates`, in order, duplicates allowed
    extra: Vec<usize>,
    rep: RepSpec,
    ops: Vec<FOp>,
}

struct FShadow {
    local: NodeId,
    /// every result fed, in order
    results: Vec<(NodeId, bool)>,
}

impl FShadow {
    fn has_result(&self, n: &NodeId) -> bool {
        self.results.iter().any(|(m, _)| m == n)
    }
    /// distinct non-local nodes with at least one successful result
    fn succeeded(&self) -> BTreeSet<NodeId> {
        self.results.iter().filter(|(n, ok)| *ok && *n != self.local).map(|(n, _)| *n).collect()
    }
    /// ... of which those that have no failed result as well. A second, contradicting result for a
    /// node is outside the protocol ("never hands out a node that already has a result"); whether the
    /// first, the last or any result decides is not part of the statement, so every reading between
    /// `succeeded_for_sure` and `succeeded` is accepted.
    fn succeeded_for_sure(&self) -> BTreeSet<NodeId> {
        self.succeeded().into_iter().filter(|n| !self.results.iter().any(|(m, ok)| m == n && !*ok)).collect()
    }
    fn local_succeeded(&self) -> bool {
        self.results.iter().any(|(n, ok)| *ok && *n == self.local)
    }
    fn repeated_success(&self) -> bool {
        let mut seen = BTreeSet::new();
        self.results.iter().filter(|(n, ok)| *ok && *n != self.local).any(|(n, _)| !seen.insert(*n))
    }
    /// Which miscount explains a success that the distinct-non-local bookkeeping does not support
    /// (signature component). A hypothesis is accepted only if it also reproduces the counts the
    /// machine reported.
    fn cause(&self, view: &View, reported: &fetch::Progress) -> &'static str {
        let bound = view.strict_bound();
        // the target-met test over successful results, counting results for the local node or not, and
        // every occurrence of a non-local node or only the first
        let explains = |count_local: bool, count_repeats: bool| {
            let mut seen = BTreeSet::new();
            let (mut total, mut pref) = (0usize, 0usize);
            for (n, ok) in &self.results {
                if !*ok {
                    continue;
                }
                let counted = if *n == self.local { count_local } else { seen.insert(*n) || count_repeats };
                if counted {
                    total += 1;
                    if view.preferred.contains(n) {
                        pref += 1;
                    }
                }
            }
            total == reported.succeeded()
                && pref == reported.preferred()
                && ((!view.preferred.is_empty() && pref >= view.preferred.len()) || total >= bound)
        };
        if self.local_succeeded() && explains(true, false) {
            "local-node-counted"
        } else if self.repeated_success() && explains(false, true) {
            "repeated-node-counted"
        } else if self.local_succeeded() && self.repeated_success() && explains(true, true) {
            "local-and-repeated-nodes-counted"
        } else {
            "neither-preferred-seeds-nor-replica-count-reached"
        }
    }
}

fn run_fetcher(c: &FCase, rep: &mut Option<&mut Reporter>) -> (Vec<Finding>, Vec<String>, bool) {
    let nodes = nodes();
    let local = nodes[c.local];
    let nm = |n: &NodeId| name(&nodes, local, n);
    let mut findings = vec![];
    let mut tr: Vec<String> = vec![];
    let seeds = set_of(&nodes, &c.seeds);
    let config = if c.private {
        FetcherConfig::private(private_network(&seeds), c.rep.factor(), local)
    } else {
        FetcherConfig::public(seeds.clone(), c.rep.factor(), local)
    }
    .with_candidates(c.extra.iter().map(|i| Candidate::new(nodes[*i])));
    let mut f = match guarded(move || Fetcher::new(config)) {
        Err(p) => {
            findings.push(Finding { sig: format!("C25/fetcher/panic/{}", panic_site(&p)), detail: json!({"at": "Fetcher::new", "panic": p}) });
            return (findings, tr, false);
        }
        Ok(Err(FetcherError::NoCandidates)) => {
            cnt(rep, "fetcher.new.NoCandidates");
            return (findings, tr, false);
        }
        Ok(Err(_)) => {
            cnt(rep, "fetcher.new.TargetError");
            return (findings, tr, false);
        }
        Ok(Ok(f)) => f,
    };
    cnt(rep, "fetcher.constructed");
    let view = View::new(local, f.target().preferred_seeds(), f.target().replicas(), false);
    if view.upper.is_some() {
        cnt(rep, "fetcher.constructed.range-target");
    }
    if !view.preferred.is_empty() {
        cnt(rep, "fetcher.constructed.with-preferred-seeds");
    }
    if view.preferred.contains(&local) {
        cnt(rep, "obs.fetcher.local-node-is-in-target-preferred-seeds");
    }
    let mut sh = FShadow { local, results: vec![] };
    let mut readied: Vec<NodeId> = vec![];
    let mut ops: Vec<FOp> = c.ops.clone();
    if ops.last() != Some(&FOp::Finish) {
        ops.push(FOp::Finish);
    }
    macro_rules! panicked {
        ($at:expr, $p:expr) => {{
            findings.push(Finding { sig: format!("C25/fetcher/panic/{}", panic_site(&$p)), detail: json!({"at": $at, "panic": $p}) });
            return (findings, tr, true);
        }};
    }
    // a node handed out by next_node / next_fetch
    let handed = |rep: &mut Option<&mut Reporter>, findings: &mut Vec<Finding>, sh: &FShadow, at: &str, n: &NodeId| {
        cnt(rep, &format!("fetcher.{at}.handed-out"));
        if *n == local {
            findings.push(Finding { sig: format!("C25/fetcher/local-node-handed-out/{at}"), detail: json!({}) });
        }
        if sh.has_result(n) {
            findings.push(Finding { sig: format!("C25/fetcher/node-with-result-handed-out/{at}"), detail: json!({"node": name(&nodes, local, n)}) });
        }
    };
    let check_progress = |rep: &mut Option<&mut Reporter>, findings: &mut Vec<Finding>, sh: &FShadow, at: &str, p: &fetch::Progress| {
        let (s, lo) = (sh.succeeded(), sh.succeeded_for_sure());
        let pref = |x: &BTreeSet<NodeId>| x.intersection(&view.preferred).count();
        if !(lo.len()..=s.len()).contains(&p.succeeded()) || !(pref(&lo)..=pref(&s)).contains(&p.preferred()) {
            // the statement forbids counting the local node; other differences are only counted
            let local_ok = sh.results.iter().filter(|(n, ok)| *ok && *n == local).count();
            if local_ok > 0 && !sh.repeated_success() && p.succeeded() == s.len() + local_ok {
                findings.push(Finding {
                    sig: format!("C25/fetcher/local-node-counted/{at}"),
                    detail: json!({"reported_succeeded": p.succeeded(), "distinct_non_local_succeeded": s.len()}),
                });
            } else {
                cnt(rep, &format!("obs.fetcher.count-differs.{at}"));
            }
        }
    };
    let complete = |rep: &mut Option<&mut Reporter>, findings: &mut Vec<Finding>, tr: &mut Vec<String>, f: &mut Fetcher, sh: &mut FShadow, n: NodeId, ok: bool| -> Result<(), String> {
        if n == local {
            cnt(rep, "fetcher.result.for-local-node");
        } else if sh.has_result(&n) {
            cnt(rep, "fetcher.result.for-node-that-already-has-a-result");
        } else if !seeds.contains(&n) && !c.extra.iter().any(|i| nodes[*i] == n) {
            cnt(rep, "fetcher.result.for-unknown-node");
        }
        if ok && n != local && !sh.succeeded().contains(&n) && sh.succeeded().len() + 1 == view.strict_bound() {
            cnt(rep, "fetcher.result.reaches-replica-bound");
        }
        sh.results.push((n, ok));
        let r = guarded(move || f.fetch_complete(n, if ok { ok_result() } else { failed_result() }))?;
        let s = sh.succeeded();
        let expect = view.expect_between(&sh.succeeded_for_sure(), &s, false);
        match r {
            ControlFlow::Break(success) => {
                tr.push(format!("fetch_complete({}, {}) -> Break({:?})", name(&nodes, local, &n), if ok { "Success" } else { "Failed" }, success.outcome()));
                decide(rep, findings, "fetcher", "fetch_complete", true, expect, || sh.cause(&view, &success.progress()), json!({"node": name(&nodes, local, &n), "outcome": format!("{:?}", success.outcome()), "distinct_non_local_succeeded": s.len()}));
                check_progress(rep, findings, sh, "progress", &success.progress());
                cnt(rep, &format!("fetcher.success.{}", match success.outcome() {
                    fetch::SuccessfulOutcome::PreferredNodes { .. } => "PreferredNodes",
                    fetch::SuccessfulOutcome::MinReplicas { .. } => "MinReplicas",
                    fetch::SuccessfulOutcome::MaxReplicas { .. } => "MaxReplicas",
                }));
            }
            ControlFlow::Continue(p) => {
                tr.push(format!("fetch_complete({}, {}) -> Continue(succeeded: {}, preferred: {}, failed: {})", name(&nodes, local, &n), if ok { "Success" } else { "Failed" }, p.succeeded(), p.preferred(), p.failed()));
                decide(rep, findings, "fetcher", "fetch_complete", false, expect, || "n/a", json!({"node": name(&nodes, local, &n), "distinct_non_local_succeeded": s.len()}));
                check_progress(rep, findings, sh, "progress", &p);
            }
        }
        Ok(())
    };
    for op in ops {
        match op {
            FOp::NextNode(after) => {
                let fr = &mut f;
                let n = match guarded(move || fr.next_node()) {
                    Ok(n) => n,
                    Err(p) => panicked!("next_node", p),
                };
                tr.push(format!("next_node() -> {}", n.as_ref().map(&nm).unwrap_or("None".into())));
                let Some(n) = n else { continue };
                handed(rep, &mut findings, &sh, "next_node", &n);
                match after {
                    AfterNode::Ignore => {}
                    AfterNode::Fail => {
                        f.fetch_failed(n, "could not connect");
                        sh.results.push((n, false));
                        tr.push(format!("fetch_failed({})", nm(&n)));
                    }
                    AfterNode::Ready => {
                        f.ready_to_fetch(n, addr(0));
                        readied.push(n);
                        tr.push(format!("ready_to_fetch({})", nm(&n)));
                    }
                    AfterNode::Fetch(ok) => {
                        f.ready_to_fetch(n, addr(0));
                        readied.push(n);
                        tr.push(format!("ready_to_fetch({})", nm(&n)));
                        let fr = &mut f;
                        let m = match guarded(move || fr.next_fetch()) {
                            Ok(m) => m,
                            Err(p) => panicked!("next_fetch", p),
                        };
                        tr.push(format!("next_fetch() -> {}", m.as_ref().map(|(m, _)| nm(m)).unwrap_or("None".into())));
                        if let Some((m, _)) = m {
                            handed(rep, &mut findings, &sh, "next_fetch", &m);
                            if let Err(p) = complete(rep, &mut findings, &mut tr, &mut f, &mut sh, m, ok) {
                                panicked!("fetch_complete", p);
                            }
                        }
                    }
                }
            }
            FOp::NextFetch(after) => {
                let fr = &mut f;
                let m = match guarded(move || fr.next_fetch()) {
                    Ok(m) => m,
                    Err(p) => panicked!("next_fetch", p),
                };
                tr.push(format!("next_fetch() -> {}", m.as_ref().map(|(m, _)| nm(m)).unwrap_or("None".into())));
                let Some((m, _)) = m else { continue };
                handed(rep, &mut findings, &sh, "next_fetch", &m);
                if !readied.contains(&m) {
                    cnt(rep, "obs.fetcher.next_fetch-returned-a-node-never-readied");
                }
                match after {
                    AfterFetch::Ignore => {}
                    AfterFetch::Failed => {
                        f.fetch_failed(m, "fetch failed");
                        sh.results.push((m, false));
                        tr.push(format!("fetch_failed({})", nm(&m)));
                    }
                    AfterFetch::Complete(ok) => {
                        if let Err(p) = complete(rep, &mut findings, &mut tr, &mut f, &mut sh, m, ok) {
                            panicked!("fetch_complete", p);
                        }
                    }
                }
            }
            FOp::Ready(i) => {
                let n = nodes[i % N];
                if n == local {
                    cnt(rep, "fetcher.ready_to_fetch.local-node");
                } else if sh.has_result(&n) {
                    cnt(rep, "fetcher.ready_to_fetch.node-that-already-has-a-result");
                }
                f.ready_to_fetch(n, addr(i));
                readied.push(n);
                tr.push(format!("ready_to_fetch({})", nm(&n)));
            }
            FOp::Complete(i, ok) => {
                if let Err(p) = complete(rep, &mut findings, &mut tr, &mut f, &mut sh, nodes[i % N], ok) {
                    panicked!("fetch_complete", p);
                }
            }
            FOp::Failed(i) => {
                let n = nodes[i % N];
                let fr = &mut f;
                if let Err(p) = guarded(move || fr.fetch_failed(n, "scripted")) {
                    panicked!("fetch_failed", p);
                }
                sh.results.push((n, false));
                tr.push(format!("fetch_failed({})", nm(&n)));
            }
            FOp::Progress => {
                let fr = &f;
                match guarded(move || fr.progress()) {
                    Ok(p) => {
                        tr.push(format!("progress() -> succeeded: {}, preferred: {}, failed: {}, candidate: {}", p.succeeded(), p.preferred(), p.failed(), p.candidate()));
                        check_progress(rep, &mut findings, &sh, "progress", &p);
                    }
                    Err(p) => panicked!("progress", p),
                }
            }
            FOp::Finish => {
                let r = match guarded(move || f.finish()) {
                    Ok(r) => r,
                    Err(p) => panicked!("finish", p),
                };
                let s = sh.succeeded();
                let expect = view.expect_between(&sh.succeeded_for_sure(), &s, true);
                match &r {
                    FetcherResult::TargetReached(success) => {
                        tr.push(format!("finish() -> TargetReached({:?})", success.outcome()));
                        decide(rep, &mut findings, "fetcher", "finish", true, expect, || sh.cause(&view, &success.progress()), json!({"outcome": format!("{:?}", success.outcome()), "distinct_non_local_succeeded": s.len()}));
                        check_progress(rep, &mut findings, &sh, "progress", &success.progress());
                        cnt(rep, "fetcher.result.TargetReached");
                    }
                    FetcherResult::TargetError(missed) => {
                        tr.push(format!("finish() -> TargetError(required: {}, missed: {})", missed.required_nodes(), missed.missed_nodes().len()));
                        decide(rep, &mut findings, "fetcher", "finish", false, expect, || "n/a", json!({"distinct_non_local_succeeded": s.len()}));
                        cnt(rep, "fetcher.result.TargetError");
                    }
                }
                return (findings, tr, sh.results.len() >= 2);
            }
        }
    }
    (findings, tr, sh.results.len() >= 2)
}

// ------------------------------------------------------------------------------------------------
// generators

fn gen_rep(rng: &mut Rng) -> RepSpec {
    if rng.chance(3, 5) {
        RepSpec::Must(*rng.pick(&[0usize, 1, 1, 2, 2, 3, 3, 4, 5, 7]))
    } else {
        let lo = rng.usize(4);
        let hi = if rng.chance(1, 8) { rng.usize(lo + 1) } else { lo + 1 + rng.usize(4) };
        RepSpec::Range(lo, hi)
    }
}

/// `k` distinct indices, the local node among them with probability `num/den`.
fn gen_set(rng: &mut Rng, max: usize, local: usize, num: u64, den: u64) -> Vec<usize> {
    let k = rng.usize(max + 1);
    let mut all: Vec<usize> = (0..N).filter(|i| *i != local).collect();
    rng.shuffle(&mut all);
    all.truncate(k);
    if rng.chance(num, den) {
        all.push(local);
    }
    all.sort();
    all
}

fn gen_acase(rng: &mut Rng) -> ACase {
    let local = rng.usize(N);
    let private = rng.chance(1, 8);
    let preferred = if private {
        let mut p = gen_set(rng, 4, local, 1, 3);
        if p.is_empty() {
            p.push((local + 1) % N);
        }
        p
    } else if rng.bool() {
        vec![]
    } else {
        gen_set(rng, 3, local, 1, 6)
    };
    let synced = if private || rng.chance(2, 5) { vec![] } else { gen_set(rng, 3, local, 1, 6) };
    let unsynced = if private { vec![] } else { gen_set(rng, 6, local, 1, 5) };
    let rep = gen_rep(rng);
    let mut ops = vec![];
    let mut fed: Vec<usize> = vec![];
    let n = 2 + rng.usize(14);
    for _ in 0..n {
        ops.push(match rng.weighted(&[8, 3, 1, 1, 1, 1, 2, 1]) {
            0 => AOp::SyncedNext(rng.usize(8)),
            1 => {
                let i = rng.usize(N);
                fed.push(i);
                AOp::Synced(i, rng.below(5000))
            }
            2 => AOp::Synced(local, rng.below(5000)),
            3 if !fed.is_empty() => AOp::Synced(*rng.pick(&fed), 1),
            3 => AOp::SyncedNext(0),
            4 => AOp::Progress,
            5 => AOp::ToSync,
            6 => AOp::CanContinue,
            _ => AOp::TimedOut,
        });
        if ops.last() == Some(&AOp::TimedOut) {
            break;
        }
    }
    ACase { local, private, preferred, synced, unsynced, rep, ops }
}

fn gen_fcase(rng: &mut Rng) -> FCase {
    let local = rng.usize(N);
    let private = rng.chance(1, 8);
    let seeds = if !private && rng.chance(2, 5) { vec![] } else { gen_set(rng, 3, local, 1, 6) };
    let mut extra: Vec<usize> = vec![];
    for _ in 0..rng.usize(7) {
        extra.push(match rng.below(8) {
            0 => local,
            1 if !extra.is_empty() => *rng.pick(&extra),
            2 if !seeds.is_empty() => *rng.pick(&seeds),
            _ => rng.usize(N),
        });
    }
    let rep = gen_rep(rng);
    let mut ops = vec![];
    let mut touched: Vec<usize> = vec![];
    let protocol = rng.chance(3, 5);
    let n = 2 + rng.usize(18);
    for _ in 0..n {
        let w: [u64; 10] = if protocol { [12, 1, 1, 1, 1, 1, 1, 1, 1, 0] } else { [4, 3, 3, 4, 2, 2, 2, 1, 1, 1] };
        ops.push(match rng.weighted(&w) {
            0 => FOp::NextNode(match rng.below(10) {
                0 => AfterNode::Ignore,
                1 => AfterNode::Fail,
                2 => AfterNode::Ready,
                3 | 4 => AfterNode::Fetch(false),
                _ => AfterNode::Fetch(true),
            }),
            1 => FOp::NextFetch(match rng.below(6) {
                0 => AfterFetch::Ignore,
                1 => AfterFetch::Failed,
                2 => AfterFetch::Complete(false),
                _ => AfterFetch::Complete(true),
            }),
            2 => {
                let i = match rng.below(4) {
                    0 => local,
                    1 if !touched.is_empty() => *rng.pick(&touched),
                    _ => rng.usize(N),
                };
                FOp::Ready(i)
            }
            3 => {
                let i = rng.usize(N);
                touched.push(i);
                FOp::Complete(i, rng.chance(3, 4))
            }
            4 => FOp::Complete(local, rng.chance(3, 4)),
            5 if !touched.is_empty() => FOp::Complete(*rng.pick(&touched), rng.chance(3, 4)),
            5 => FOp::Progress,
            6 => {
                let i = if rng.chance(1, 4) { local } else { rng.usize(N) };
                touched.push(i);
                FOp::Failed(i)
            }
            7 => FOp::Progress,
            8 => FOp::NextNode(AfterNode::Fetch(true)),
            _ => FOp::Finish,
        });
        if ops.last() == Some(&FOp::Finish) {
            break;
        }
    }
    FCase { local, private, seeds, extra, rep, ops }
}

// ------------------------------------------------------------------------------------------------
// witness JSON, replay, shrinking

fn aop_json(op: &AOp) -> Value {
    match op {
        AOp::Synced(i, ms) => json!(["synced_with", i, ms]),
        AOp::SyncedNext(k) => json!(["synced_with_kth_of_to_sync", k]),
        AOp::Progress => json!(["progress"]),
        AOp::ToSync => json!(["to_sync"]),
        AOp::CanContinue => json!(["can_continue"]),
        AOp::TimedOut => json!(["timed_out"]),
    }
}

fn aop_from(v: &Value) -> Option<AOp> {
    let a = v.as_array()?;
    let u = |k: usize| a.get(k).and_then(|x| x.as_u64());
    Some(match a.first()?.as_str()? {
        "synced_with" => AOp::Synced(u(1)? as usize, u(2)?),
        "synced_with_kth_of_to_sync" => AOp::SyncedNext(u(1)? as usize),
        "progress" => AOp::Progress,
        "to_sync" => AOp::ToSync,
        "can_continue" => AOp::CanContinue,
        "timed_out" => AOp::TimedOut,
        _ => return None,
    })
}

fn fop_json(op: &FOp) -> Value {
    match op {
        FOp::NextNode(a) => json!(["next_node", match a {
            AfterNode::Ready => "then-ready",
            AfterNode::Fail => "then-fetch_failed",
            AfterNode::Ignore => "then-nothing",
            AfterNode::Fetch(true) => "then-ready-next_fetch-complete-success",
            AfterNode::Fetch(false) => "then-ready-next_fetch-complete-failed",
        }]),
        FOp::NextFetch(a) => json!(["next_fetch", match a {
            AfterFetch::Complete(true) => "then-complete-success",
            AfterFetch::Complete(false) => "then-complete-failed",
            AfterFetch::Failed => "then-fetch_failed",
            AfterFetch::Ignore => "then-nothing",
        }]),
        FOp::Ready(i) => json!(["ready_to_fetch", i]),
        FOp::Complete(i, ok) => json!(["fetch_complete", i, ok]),
        FOp::Failed(i) => json!(["fetch_failed", i]),
        FOp::Progress => json!(["progress"]),
        FOp::Finish => json!(["finish"]),
    }
}

fn fop_from(v: &Value) -> Option<FOp> {
    let a = v.as_array()?;
    let u = |k: usize| a.get(k).and_then(|x| x.as_u64()).map(|x| x as usize);
    Some(match a.first()?.as_str()? {
        "next_node" => FOp::NextNode(match a.get(1)?.as_str()? {
            "then-ready" => AfterNode::Ready,
            "then-fetch_failed" => AfterNode::Fail,
            "then-nothing" => AfterNode::Ignore,
            "then-ready-next_fetch-complete-success" => AfterNode::Fetch(true),
            "then-ready-next_fetch-complete-failed" => AfterNode::Fetch(false),
            _ => return None,
        }),
        "next_fetch" => FOp::NextFetch(match a.get(1)?.as_str()? {
            "then-complete-success" => AfterFetch::Complete(true),
            "then-complete-failed" => AfterFetch::Complete(false),
            "then-fetch_failed" => AfterFetch::Failed,
            "then-nothing" => AfterFetch::Ignore,
            _ => return None,
        }),
        "ready_to_fetch" => FOp::Ready(u(1)?),
        "fetch_complete" => FOp::Complete(u(1)?, a.get(2)?.as_bool()?),
        "fetch_failed" => FOp::Failed(u(1)?),
        "progress" => FOp::Progress,
        "finish" => FOp::Finish,
        _ => return None,
    })
}

fn idx_list(v: &Value) -> Option<Vec<usize>> {
    v.as_array()?.iter().map(|x| x.as_u64().filter(|i| (*i as usize) < N).map(|i| i as usize)).collect()
}

fn acase_json(c: &ACase) -> Value {
    json!({
        "machine": "announcer", "nodes": format!("N0..N{} (fixed test keys)", N - 1), "local": c.local, "private_network": c.private,
        "preferred_seeds": c.preferred, "synced": c.synced, "unsynced": c.unsynced, "replicas": c.rep.json(),
        "ops": c.ops.iter().map(aop_json).collect::<Vec<_>>(),
    })
}

fn acase_from(w: &Value) -> Option<ACase> {
    Some(ACase {
        local: w["local"].as_u64().filter(|i| (*i as usize) < N)? as usize,
        private: w["private_network"].as_bool()?,
        preferred: idx_list(&w["preferred_seeds"])?,
        synced: idx_list(&w["synced"])?,
        unsynced: idx_list(&w["unsynced"])?,
        rep: RepSpec::from_json(&w["replicas"])?,
        ops: w["ops"].as_array()?.iter().map(aop_from).collect::<Option<Vec<_>>>()?,
    })
}

fn fcase_json(c: &FCase) -> Value {
    json!({
        "machine": "fetcher", "nodes": format!("N0..N{} (fixed test keys)", N - 1), "local": c.local, "private_network": c.private,
        "seeds": c.seeds, "extra_candidates": c.extra, "replicas": c.rep.json(),
        "ops": c.ops.iter().map(fop_json).collect::<Vec<_>>(),
    })
}

fn fcase_from(w: &Value) -> Option<FCase> {
    Some(FCase {
        local: w["local"].as_u64().filter(|i| (*i as usize) < N)? as usize,
        private: w["private_network"].as_bool()?,
        seeds: idx_list(&w["seeds"])?,
        extra: idx_list(&w["extra_candidates"])?,
        rep: RepSpec::from_json(&w["replicas"])?,
        ops: w["ops"].as_array()?.iter().map(fop_from).collect::<Option<Vec<_>>>()?,
    })
}

fn rep_smaller(r: RepSpec) -> Vec<RepSpec> {
    match r {
        RepSpec::Must(n) if n > 0 => vec![RepSpec::Must(n - 1)],
        RepSpec::Must(_) => vec![],
        RepSpec::Range(lo, hi) => {
            let mut v = vec![RepSpec::Must(lo), RepSpec::Must(hi)];
            if hi > 0 {
                v.push(RepSpec::Range(lo, hi - 1));
            }
            if lo > 0 {
                v.push(RepSpec::Range(lo - 1, hi));
            }
            v
        }
    }
}

fn without<T: Clone>(v: &[T], i: usize) -> Vec<T> {
    let mut w = v.to_vec();
    w.remove(i);
    w
}

fn shrink_a(mut c: ACase, sig: &str) -> ACase {
    let fires = |c: &ACase| run_announcer(c, &mut None).0.iter().any(|f| f.sig == sig);
    loop {
        let mut cands: Vec<ACase> = vec![];
        for i in 0..c.ops.len() {
            cands.push(ACase { ops: without(&c.ops, i), ..c.clone() });
        }
        for i in 0..c.preferred.len() {
            cands.push(ACase { preferred: without(&c.preferred, i), ..c.clone() });
        }
        for i in 0..c.synced.len() {
            cands.push(ACase { synced: without(&c.synced, i), ..c.clone() });
        }
        for i in 0..c.unsynced.len() {
            cands.push(ACase { unsynced: without(&c.unsynced, i), ..c.clone() });
        }
        for r in rep_smaller(c.rep) {
            cands.push(ACase { rep: r, ..c.clone() });
        }
        if c.private {
            cands.push(ACase { private: false, ..c.clone() });
        }
        match cands.into_iter().find(|k| fires(k)) {
            Some(k) => c = k,
            None => return c,
        }
    }
}

fn shrink_f(mut c: FCase, sig: &str) -> FCase {
    let fires = |c: &FCase| run_fetcher(c, &mut None).0.iter().any(|f| f.sig == sig);
    loop {
        let mut cands: Vec<FCase> = vec![];
        for i in 0..c.ops.len() {
            cands.push(FCase { ops: without(&c.ops, i), ..c.clone() });
        }
        for i in 0..c.seeds.len() {
            cands.push(FCase { seeds: without(&c.seeds, i), ..c.clone() });
        }
        for i in 0..c.extra.len() {
            cands.push(FCase { extra: without(&c.extra, i), ..c.clone() });
        }
        for r in rep_smaller(c.rep) {
            cands.push(FCase { rep: r, ..c.clone() });
        }
        if c.private {
            cands.push(FCase { private: false, ..c.clone() });
        }
        match cands.into_iter().find(|k| fires(k)) {
            Some(k) => c = k,
            None => return c,
        }
    }
}

type Emitted = BTreeMap<String, u32>;

fn report_a(rep: &mut Reporter, c: &ACase, findings: Vec<Finding>, emitted: &mut Emitted, shrink: bool) {
    let mut seen = BTreeSet::new();
    for f in findings {
        if !seen.insert(f.sig.clone()) {
            continue; // one report per signature and case
        }
        let n = emitted.entry(f.sig.clone()).or_insert(0);
        *n += 1;
        if shrink && *n > 3 {
            // the reporter prints only the first witnesses per signature; later ones are just counted
            rep.violation(&f.sig, Value::Null);
            continue;
        }
        let small = if shrink { shrink_a(c.clone(), &f.sig) } else { c.clone() };
        let (fs, tr, _) = run_announcer(&small, &mut None);
        let detail = fs.into_iter().find(|g| g.sig == f.sig).map(|g| g.detail).unwrap_or(f.detail);
        let mut w = acase_json(&small);
        w["transcript"] = json!(tr);
        w["finding"] = detail;
        rep.violation(&f.sig, w);
    }
}

fn report_f(rep: &mut Reporter, c: &FCase, findings: Vec<Finding>, emitted: &mut Emitted, shrink: bool) {
    let mut seen = BTreeSet::new();
    for f in findings {
        if !seen.insert(f.sig.clone()) {
            continue;
        }
        let n = emitted.entry(f.sig.clone()).or_insert(0);
        *n += 1;
        if shrink && *n > 3 {
            // the reporter prints only the first witnesses per signature; later ones are just counted
            rep.violation(&f.sig, Value::Null);
            continue;
        }
        let small = if shrink { shrink_f(c.clone(), &f.sig) } else { c.clone() };
        let (fs, tr, _) = run_fetcher(&small, &mut None);
        let detail = fs.into_iter().find(|g| g.sig == f.sig).map(|g| g.detail).unwrap_or(f.detail);
        let mut w = fcase_json(&small);
        w["transcript"] = json!(tr);
        w["finding"] = detail;
        rep.violation(&f.sig, w);
    }
}

fn announcer_case(rep: &mut Reporter, c: &ACase, emitted: &mut Emitted) {
    rep.eval();
    let (findings, tr, nontrivial) = run_announcer(c, &mut Some(rep));
    if nontrivial {
        rep.nontrivial_bytes(acase_json(c).to_string().as_bytes());
        if rep.wants_sample() && tr.len() >= 4 {
            let mut s = acase_json(c);
            s["transcript"] = json!(tr);
            rep.sample(s);
        }
    }
    report_a(rep, c, findings, emitted, true);
}

fn fetcher_case(rep: &mut Reporter, c: &FCase, emitted: &mut Emitted) {
    rep.eval();
    let (findings, tr, nontrivial) = run_fetcher(c, &mut Some(rep));
    if nontrivial {
        rep.nontrivial_bytes(fcase_json(c).to_string().as_bytes());
        if rep.wants_sample() && tr.len() >= 6 {
            let mut s = fcase_json(c);
            s["transcript"] = json!(tr);
            rep.sample(s);
        }
    }
    report_f(rep, c, findings, emitted, true);
}

/// Fixed scripts: heartwood's own unit-test scenarios in miniature plus the shapes singled out in
/// DESIGN.md §4 (a result for the local node, a second result for the same node).
fn directed(rep: &mut Reporter, emitted: &mut Emitted) {
    let f = |local, seeds: &[usize], extra: &[usize], r, ops: Vec<FOp>| FCase { local, private: false, seeds: seeds.to_vec(), extra: extra.to_vec(), rep: r, ops };
    let fetchers = vec![
        // protocol run reaching 2 replicas
        f(0, &[], &[1, 2, 3], RepSpec::Must(2), vec![FOp::NextNode(AfterNode::Fetch(true)), FOp::NextNode(AfterNode::Fetch(true)), FOp::Finish]),
        // preferred seeds reached before the replica count
        f(0, &[1, 2], &[3, 4, 5], RepSpec::Must(4), vec![FOp::NextNode(AfterNode::Fetch(true)), FOp::NextNode(AfterNode::Fetch(true)), FOp::Finish]),
        // all fail
        f(0, &[1, 2, 3], &[], RepSpec::Must(4), vec![FOp::NextNode(AfterNode::Fail), FOp::NextNode(AfterNode::Fail), FOp::NextNode(AfterNode::Fail), FOp::Finish]),
        // a successful result for the local node
        f(0, &[], &[1], RepSpec::Must(1), vec![FOp::Complete(0, true), FOp::Finish]),
        // the same node succeeds twice
        f(0, &[], &[1, 2], RepSpec::Must(2), vec![FOp::Complete(1, true), FOp::Complete(1, true), FOp::Finish]),
        // the same preferred seed succeeds twice, the other one never
        f(0, &[1, 2], &[3, 4, 5], RepSpec::Must(5), vec![FOp::Complete(1, true), FOp::Complete(1, true), FOp::Finish]),
        // local node and a node with a result offered for fetching
        f(0, &[], &[1, 2], RepSpec::Must(2), vec![FOp::Ready(0), FOp::NextFetch(AfterFetch::Ignore), FOp::Failed(1), FOp::Ready(1), FOp::NextFetch(AfterFetch::Ignore), FOp::NextNode(AfterNode::Ignore), FOp::Finish]),
    ];
    for c in fetchers {
        rep.count("directed-scripts");
        fetcher_case(rep, &c, emitted);
    }
    let a = |local, p: &[usize], s: &[usize], u: &[usize], r, ops: Vec<AOp>| ACase { local, private: false, preferred: p.to_vec(), synced: s.to_vec(), unsynced: u.to_vec(), rep: r, ops };
    let announcers = vec![
        a(0, &[1, 2], &[], &[3, 4, 5, 6], RepSpec::Must(3), vec![AOp::Synced(1, 1), AOp::Synced(2, 1), AOp::Synced(3, 1), AOp::TimedOut]),
        // replica count reached, preferred seeds not: must continue (announcer_must_reach_preferred_seeds)
        a(0, &[1, 2], &[], &[3, 4, 5, 6], RepSpec::Range(2, 3), vec![AOp::Synced(3, 1), AOp::Synced(4, 1), AOp::Synced(5, 1), AOp::Synced(1, 1), AOp::Synced(2, 1)]),
        // the local node reports in, and is configured everywhere
        a(0, &[0, 1], &[0], &[0, 1, 2], RepSpec::Must(2), vec![AOp::ToSync, AOp::Synced(0, 1), AOp::Synced(0, 1), AOp::Progress, AOp::Synced(1, 1), AOp::Synced(2, 1)]),
        // same node twice
        a(0, &[], &[], &[1, 2, 3], RepSpec::Must(2), vec![AOp::Synced(1, 1), AOp::Synced(1, 1), AOp::CanContinue, AOp::TimedOut]),
    ];
    for c in announcers {
        rep.count("directed-scripts");
        announcer_case(rep, &c, emitted);
    }
}

pub fn run(args: &Args) {
    let mut rep = Reporter::new("C25");
    let mut emitted = Emitted::new();
    if let Some(path) = &args.replay {
        let w = vcommon::load_replay(path);
        rep.eval();
        match w["machine"].as_str() {
            Some("announcer") => match acase_from(&w) {
                Some(c) => {
                    let (findings, _, _) = run_announcer(&c, &mut Some(&mut rep));
                    report_a(&mut rep, &c, findings, &mut emitted, false);
                }
                None => rep.inconclusive("replay file does not contain a C25 announcer case", w),
            },
            Some("fetcher") => match fcase_from(&w) {
                Some(c) => {
                    let (findings, _, _) = run_fetcher(&c, &mut Some(&mut rep));
                    report_f(&mut rep, &c, findings, &mut emitted, false);
                }
                None => rep.inconclusive("replay file does not contain a C25 fetcher case", w),
            },
            _ => rep.inconclusive("replay file does not contain a C25 case", w),
        }
        rep.finish();
        return;
    }
    if args.shard == 0 {
        directed(&mut rep, &mut emitted);
    }
    let n = args.budget(400_000, 12_000_000);
    for k in 0..n {
        let mut rng = Rng::new(args.case_seed(k));
        if k % 2 == 0 {
            let c = gen_acase(&mut rng);
            announcer_case(&mut rep, &c, &mut emitted);
        } else {
            let c = gen_fcase(&mut rng);
            fetcher_case(&mut rep, &c, &mut emitted);
        }
    }
    rep.finish();
}
