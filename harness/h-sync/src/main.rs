//! Monitors for the rate limiter and the sync announcer/fetcher state machines:
//! C17 (rate limiting admits at most capacity plus refill), C25 (sync targets report success
//! exactly when reached).
mod c17;
mod c25;

fn main() {
    vcommon::install_panic_hook();
    let args = vcommon::Args::parse();
    match args.prop.as_str() {
        "C17" => c17::run(&args),
        "C25" => c25::run(&args),
        p => {
            eprintln!("h-sync: unknown property {p}");
            std::process::exit(2);
        }
    }
}
