//! Fixtures: serving repository builder, in-process transport to a real `git upload-pack`,
//! raw ref snapshots and an independent signed-refs checker.
use std::collections::BTreeMap;
use std::io::{self, Write};
use std::path::{Path, PathBuf};
use std::process::{Child, ChildStdin, ChildStdout, Command, Stdio};

use radicle::crypto::test::signer::MockSigner;
use radicle::crypto::PublicKey;
use radicle::git::Oid;
use radicle::identity::doc::{RawDoc, Visibility};
use radicle::identity::{Did, Project, RepoId};
use radicle::node::device::Device;
use radicle::node::Alias;
use radicle::storage::git::{Repository, Storage};
use radicle::storage::{SignRepository, WriteRepository};
use radicle_fetch::transport::{ConnectionStream, SignalEof};
use signature::Signer as _;

pub type Dev = Device<MockSigner>;

pub fn device(tag: u8, i: u8) -> Dev {
    let mut seed = [tag; 32];
    seed[0] = i;
    seed[31] = i.wrapping_mul(29).wrapping_add(tag);
    Device::mock_from_seed(seed)
}

pub fn storage(path: &Path, name: &str, key: &Dev) -> Storage {
    Storage::open(path.join(name), radicle::git::UserInfo { alias: Alias::new(name), key: *key.public_key() }).expect("storage")
}

pub fn init_repo(storage: &Storage, delegates: &[&Dev], threshold: usize, name: &str) -> (Repository, Oid) {
    let project = Project::new(name.to_string().try_into().unwrap(), "verif".into(), radicle::git::refname!("master")).unwrap();
    let doc = RawDoc::new(project, delegates.iter().map(|d| Did::from(*d.public_key())).collect(), threshold, Visibility::Public).verified().unwrap();
    let (repo, root) = Repository::init(&doc, storage, delegates[0]).expect("init");
    // as `rad::init` does for the creator
    repo.set_remote_identity_root_to(delegates[0].public_key(), root).expect("root");
    repo.sign_refs(delegates[0]).expect("sign");
    repo.set_identity_head().expect("id head");
    (repo, root)
}

pub fn commit(repo: &git2::Repository, label: &str, parents: &[git2::Oid]) -> git2::Oid {
    let sig = git2::Signature::new("verif", "verif@localhost", &git2::Time::new(1_700_000_000, 0)).unwrap();
    let blob = repo.blob(label.as_bytes()).unwrap();
    let mut tb = repo.treebuilder(None).unwrap();
    tb.insert("file", blob, 0o100644).unwrap();
    let tree = repo.find_tree(tb.write().unwrap()).unwrap();
    let ps: Vec<git2::Commit> = parents.iter().map(|p| repo.find_commit(*p).unwrap()).collect();
    let prefs: Vec<&git2::Commit> = ps.iter().collect();
    repo.commit(None, &sig, &sig, label, &tree, &prefs).unwrap()
}

pub fn set_ref(repo: &git2::Repository, ns: &PublicKey, suffix: &str, target: git2::Oid) {
    repo.reference(&format!("refs/namespaces/{ns}/{suffix}"), target, true, "verif").unwrap();
}

pub fn del_ref(repo: &git2::Repository, ns: &PublicKey, suffix: &str) {
    if let Ok(mut r) = repo.find_reference(&format!("refs/namespaces/{ns}/{suffix}")) {
        r.delete().unwrap();
    }
}

pub fn get_ref(repo: &git2::Repository, ns: &PublicKey, suffix: &str) -> Option<git2::Oid> {
    repo.refname_to_id(&format!("refs/namespaces/{ns}/{suffix}")).ok()
}

/// Canonical text of a ref map (own implementation).
pub fn canonical(refs: &BTreeMap<String, git2::Oid>) -> Vec<u8> {
    let mut s = String::new();
    for (n, o) in refs {
        s.push_str(&format!("{o} {n}\n"));
    }
    s.into_bytes()
}

/// Write a sigrefs commit by hand: `blob` as the refs blob, `signature` as the signature blob.
pub fn write_sigrefs(repo: &git2::Repository, ns: &PublicKey, blob: &[u8], signature: &[u8], parent: Option<git2::Oid>, ts: i64) -> git2::Oid {
    let refs_blob = repo.blob(blob).unwrap();
    let sig_blob = repo.blob(signature).unwrap();
    let mut tb = repo.treebuilder(None).unwrap();
    tb.insert("refs", refs_blob, 0o100644).unwrap();
    tb.insert("signature", sig_blob, 0o100644).unwrap();
    let tree = repo.find_tree(tb.write().unwrap()).unwrap();
    let who = git2::Signature::new("radicle", &ns.to_string(), &git2::Time::new(ts, 0)).unwrap();
    let ps: Vec<git2::Commit> = parent.iter().map(|p| repo.find_commit(*p).unwrap()).collect();
    let prefs: Vec<&git2::Commit> = ps.iter().collect();
    let c = repo.commit(None, &who, &who, "Update signed refs\n", &tree, &prefs).unwrap();
    set_ref(repo, ns, "refs/rad/sigrefs", c);
    c
}

pub fn sign_bytes(dev: &Dev, bytes: &[u8]) -> Vec<u8> {
    let s: radicle::crypto::Signature = dev.sign(bytes);
    s.as_ref().to_vec()
}

/// All refs of a repository, raw.
pub fn snapshot(repo: &git2::Repository) -> BTreeMap<String, String> {
    let mut m = BTreeMap::new();
    if let Ok(refs) = repo.references() {
        for r in refs.flatten() {
            let name = String::from_utf8_lossy(r.name_bytes()).to_string();
            let val = match r.kind() {
                Some(git2::ReferenceType::Symbolic) => format!("sym:{}", String::from_utf8_lossy(r.symbolic_target_bytes().unwrap_or(b""))),
                _ => r.target().map(|o| o.to_string()).unwrap_or_default(),
            };
            m.insert(name, val);
        }
    }
    m
}

pub fn ns_of(name: &str) -> Option<&str> {
    name.strip_prefix("refs/namespaces/")?.split('/').next()
}

/// Result of the independent signed-refs check of one namespace of one repository.
#[derive(Debug, Clone, PartialEq)]
pub enum Sig {
    MissingSigrefs,
    Unreadable(String),
    BadSignature,
    Ok,
}

#[derive(Debug, Clone)]
pub struct NsCheck {
    pub sig: Sig,
    /// None = refs/rad/root not listed; Some(true) = listed and bound to this repository
    pub root: Option<bool>,
    pub listed: BTreeMap<String, git2::Oid>,
    pub at: Option<git2::Oid>,
}

/// Own parser/verification of `refs/namespaces/<ns>/refs/rad/sigrefs` (optionally at a given commit).
pub fn check_ns(repo: &git2::Repository, ns: &PublicKey, rid: &RepoId, at: Option<git2::Oid>) -> NsCheck {
    let mut out = NsCheck { sig: Sig::MissingSigrefs, root: None, listed: BTreeMap::new(), at: None };
    let tip = match at.or_else(|| get_ref(repo, ns, "refs/rad/sigrefs")) {
        Some(t) => t,
        None => return out,
    };
    out.at = Some(tip);
    let read = |name: &str| -> Result<Vec<u8>, String> {
        let c = repo.find_commit(tip).map_err(|e| e.to_string())?;
        let t = c.tree().map_err(|e| e.to_string())?;
        let e = t.get_name(name).ok_or(format!("no `{name}` blob"))?;
        let o = e.to_object(repo).map_err(|e| e.to_string())?;
        let b = o.as_blob().ok_or(format!("`{name}` is not a blob"))?;
        Ok(b.content().to_vec())
    };
    let (blob, sigb) = match (read("refs"), read("signature")) {
        (Ok(b), Ok(s)) => (b, s),
        (Err(e), _) | (_, Err(e)) => {
            out.sig = Sig::Unreadable(e);
            return out;
        }
    };
    // own line parser: "<oid> <name>\n", zero oids skipped
    let text = match String::from_utf8(blob) {
        Ok(t) => t,
        Err(_) => {
            out.sig = Sig::Unreadable("refs blob is not utf-8".into());
            return out;
        }
    };
    for line in text.lines() {
        let Some((o, n)) = line.split_once(' ') else {
            out.sig = Sig::Unreadable("malformed line".into());
            return out;
        };
        let Ok(oid) = git2::Oid::from_str(o) else {
            out.sig = Sig::Unreadable("malformed oid".into());
            return out;
        };
        if o.len() != 40 {
            out.sig = Sig::Unreadable("short oid".into());
            return out;
        }
        if oid.is_zero() {
            continue;
        }
        out.listed.insert(n.to_string(), oid);
    }
    let Ok(sig) = radicle::crypto::Signature::try_from(&sigb[..]) else {
        out.sig = Sig::BadSignature;
        return out;
    };
    out.sig = if ns.verify(canonical(&out.listed), &sig).is_ok() { Sig::Ok } else { Sig::BadSignature };
    // root binding: listed refs/rad/root -> commit -> tree/embeds/radicle.json blob id == rid
    if let Some(root) = out.listed.get("refs/rad/root") {
        let bound = (|| -> Option<bool> {
            let c = repo.find_commit(*root).ok()?;
            let t = c.tree().ok()?;
            let e = t.get_path(Path::new("embeds/radicle.json")).ok()?;
            Some(e.id() == ***rid)
        })()
        .unwrap_or(false);
        out.root = Some(bound);
    }
    out
}

// ------------------------------------------------------------------------------------------------
// Transport: the client's stream is a pipe to a real `git upload-pack` in the serving repository.

pub struct HeaderStrip {
    inner: Option<ChildStdin>,
    header: Vec<u8>,
    need: Option<usize>,
    done: bool,
}

impl Write for HeaderStrip {
    fn write(&mut self, buf: &[u8]) -> io::Result<usize> {
        let mut rest = buf;
        // swallow the daemon request pkt-line (the node's worker parses it with `git_request`)
        while !self.done && !rest.is_empty() {
            match self.need {
                None => {
                    let take = (4 - self.header.len()).min(rest.len());
                    self.header.extend(&rest[..take]);
                    rest = &rest[take..];
                    if self.header.len() == 4 {
                        let n = usize::from_str_radix(std::str::from_utf8(&self.header).unwrap_or("0"), 16).unwrap_or(4);
                        self.need = Some(n.saturating_sub(4));
                        if n <= 4 {
                            self.done = true;
                        }
                    }
                }
                Some(n) => {
                    let take = n.min(rest.len());
                    rest = &rest[take..];
                    self.need = Some(n - take);
                    if n - take == 0 {
                        self.done = true;
                    }
                }
            }
        }
        if !rest.is_empty() {
            match self.inner.as_mut() {
                Some(w) => w.write_all(rest)?,
                None => return Err(io::Error::from(io::ErrorKind::BrokenPipe)),
            }
        }
        Ok(buf.len())
    }
    fn flush(&mut self) -> io::Result<()> {
        match self.inner.as_mut() {
            Some(w) => w.flush(),
            None => Ok(()),
        }
    }
}

impl SignalEof for HeaderStrip {
    type Error = io::Error;
    fn eof(&mut self) -> Result<(), io::Error> {
        self.inner.take();
        Ok(())
    }
}

pub struct UploadPack {
    child: Child,
    read: ChildStdout,
    write: HeaderStrip,
}

impl UploadPack {
    pub fn spawn(git_dir: PathBuf) -> io::Result<Self> {
        let mut child = Command::new("git")
            .current_dir(git_dir)
            .env_clear()
            .envs(std::env::vars().filter(|(k, _)| k == "PATH"))
            .env("GIT_PROTOCOL", "version=2")
            .args(["-c", "uploadpack.allowAnySha1InWant=true", "-c", "uploadpack.allowRefInWant=true", "-c", "lsrefs.unborn=ignore", "upload-pack", "--strict", "--timeout=9", "."])
            .stdin(Stdio::piped())
            .stdout(Stdio::piped())
            .stderr(Stdio::null())
            .spawn()?;
        let read = child.stdout.take().unwrap();
        let write = HeaderStrip { inner: child.stdin.take(), header: vec![], need: None, done: false };
        Ok(UploadPack { child, read, write })
    }
}

impl Drop for UploadPack {
    fn drop(&mut self) {
        self.write.inner.take();
        let _ = self.child.kill();
        let _ = self.child.wait();
    }
}

impl ConnectionStream for UploadPack {
    type Read = ChildStdout;
    type Write = HeaderStrip;
    type Error = io::Error;
    fn open(&mut self) -> Result<(&mut ChildStdout, &mut HeaderStrip), io::Error> {
        Ok((&mut self.read, &mut self.write))
    }
}
