//! Monitors over the real fetch protocol (radicle-fetch) against hostile serving repositories:
//! C01 (replicated refs match signed refs), C02 (delegate threshold, no sigrefs rewind).
mod fx;
mod scen;

fn main() {
    vcommon::install_panic_hook();
    let args = vcommon::Args::parse();
    match args.prop.as_str() {
        "C01" => scen::run(&args, "C01"),
        "C02" => scen::run(&args, "C02"),
        p => {
            eprintln!("h-fetch: unknown property {p}");
            std::process::exit(2);
        }
    }
}
