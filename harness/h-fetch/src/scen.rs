//! Scenario generator + oracles for C01 and C02.
//!
//! The serving side is an honest `git upload-pack` over a repository whose content the generator
//! controls completely (it owns every namespace's key). The client is the real radicle-fetch
//! `clone` / `pull`. Observation points: raw ref snapshots of the client repository before and
//! after, and the fetch result.
use std::collections::{BTreeMap, BTreeSet, HashSet};

use radicle::crypto::PublicKey;
use radicle::git::Oid;
use radicle::identity::RepoId;
use radicle::storage::git::Repository;
use radicle::storage::refs::RefsAt;
use radicle::storage::{ReadRepository, ReadStorage, SignRepository, WriteRepository};
use radicle_fetch::{Allowed, BlockList, FetchLimit, FetchResult, Handle};
use vcommon::{guarded, json, Args, Reporter, Rng, Value};

use crate::fx::{self, Dev, Sig, UploadPack};

#[derive(Clone, Copy, Debug, PartialEq, Eq)]
pub enum St {
    Equal,
    Ahead,
    Behind,
    Diverged,
    Missing,
    // honest but unusual updates (validly signed by the owner)
    TagRecreated,
    TagMadeLightweight,
    BranchRewound,
    BranchAmended,
    RefDeleted,
    /// `refs/heads/feat` is deleted and `refs/heads/feat/sub` created (a file/directory conflict for a
    /// loose-ref store unless the deletion is applied first), validly signed
    BranchBecomesDirectory,
    // invalid / odd offers
    SigFlipped,
    Rekeyed,
    RootOtherRepo,
    RootOmitted,
    NonCanonicalBlob,
    UnsignedExtraRef,
    SignedRefMoved,
    SignedRefDeleted,
    NonCommitTarget,
    OddCategory,
    NoSigrefs,
    GarbageBlob,
}

const UNUSUAL: &[St] = &[St::TagRecreated, St::TagMadeLightweight, St::BranchRewound, St::BranchAmended, St::RefDeleted, St::BranchBecomesDirectory];

const TAMPERS: &[St] = &[
    St::SigFlipped, St::Rekeyed, St::RootOtherRepo, St::RootOmitted, St::NonCanonicalBlob, St::UnsignedExtraRef, St::SignedRefMoved,
    St::SignedRefDeleted, St::NonCommitTarget, St::OddCategory, St::NoSigrefs, St::GarbageBlob,
];

struct Scenario {
    nd: usize,
    threshold: usize,
    ncontrib: usize,
    /// index into delegates of the client's key, or None for a non-delegate client
    local_delegate: Option<usize>,
    pull: bool,
    followed_scope: bool,
    use_refs_at: bool,
    states: Vec<St>, // per namespace: delegates then contributors
    blocked: Vec<usize>,
}

impl Scenario {
    fn json(&self) -> Value {
        json!({"delegates": self.nd, "threshold": self.threshold, "contributors": self.ncontrib, "client_is_delegate": self.local_delegate,
               "mode": if self.pull { "pull" } else { "clone" }, "scope": if self.followed_scope { "followed" } else { "all" }, "refs_at": self.use_refs_at,
               "per_namespace_offer": self.states.iter().map(|s| format!("{s:?}")).collect::<Vec<_>>(), "blocked": self.blocked})
    }
}

struct World {
    _tmp: tempfile::TempDir,
    server: radicle::storage::git::Storage,
    client: radicle::storage::git::Storage,
    repo: Repository,
    rid: RepoId,
    keys: Vec<Dev>, // delegates then contributors
    local: Dev,
    other_root: git2::Oid,
    ts: i64,
}

fn copy_objects(from: &git2::Repository, to: &git2::Repository, commit: git2::Oid) {
    let fo = from.odb().unwrap();
    let to_odb = to.odb().unwrap();
    let mut stack = vec![commit];
    while let Some(o) = stack.pop() {
        let obj = fo.read(o).unwrap();
        to_odb.write(obj.kind(), obj.data()).unwrap();
        match obj.kind() {
            git2::ObjectType::Commit => stack.push(from.find_commit(o).unwrap().tree_id()),
            git2::ObjectType::Tree => {
                for e in from.find_tree(o).unwrap().iter() {
                    stack.push(e.id());
                }
            }
            _ => {}
        }
    }
}

fn build(sc: &Scenario, tag: u64) -> World {
    let tmp = vcommon::scratch_dir();
    let keys: Vec<Dev> = (0..(sc.nd + sc.ncontrib) as u8).map(|i| fx::device(31, i)).collect();
    let local = match sc.local_delegate {
        Some(i) => keys[i].clone(),
        None => fx::device(33, 0),
    };
    let server = fx::storage(tmp.path(), "server", &keys[0]);
    let client = fx::storage(tmp.path(), "client", &local);
    let ds: Vec<&Dev> = keys[..sc.nd].iter().collect();
    let (repo, _root) = fx::init_repo(&server, &ds, sc.threshold, &format!("fetch{tag}"));
    let rid = repo.id;
    // another repository's identity root, copied into this object database
    let (other, other_root) = fx::init_repo(&server, &ds[..1], 1, &format!("other{tag}"));
    copy_objects(other.raw(), repo.raw(), *other_root);
    let mut w = World { _tmp: tmp, server, client, repo, rid, keys, local, other_root: *other_root, ts: 1_700_000_100 };
    // v1: every namespace honest, with two sigrefs commits
    let base = fx::commit(w.repo.raw(), "base", &[]);
    for i in 0..w.keys.len() {
        let k = *w.keys[i].public_key();
        let c1 = fx::commit(w.repo.raw(), &format!("c1-{i}"), &[base]);
        fx::set_ref(w.repo.raw(), &k, "refs/heads/master", c1);
        fx::set_ref(w.repo.raw(), &k, "refs/tags/v1", base);
        fx::set_ref(w.repo.raw(), &k, "refs/heads/feat", c1);
        w.sign(i);
        let c2 = fx::commit(w.repo.raw(), &format!("c2-{i}"), &[c1]);
        fx::set_ref(w.repo.raw(), &k, "refs/heads/master", c2);
        w.sign(i);
    }
    w
}

impl World {
    fn sign(&mut self, i: usize) {
        self.ts += 10;
        std::env::set_var("GIT_COMMITTER_DATE", self.ts.to_string());
        self.repo.sign_refs(&self.keys[i]).expect("sign_refs");
    }
    fn key(&self, i: usize) -> PublicKey {
        *self.keys[i].public_key()
    }
    fn sigrefs_tip(&self, i: usize) -> Option<git2::Oid> {
        fx::get_ref(self.repo.raw(), &self.key(i), "refs/rad/sigrefs")
    }
    /// Currently listed refs of namespace i on the server (own parser).
    fn listed(&self, i: usize) -> BTreeMap<String, git2::Oid> {
        fx::check_ns(self.repo.raw(), &self.key(i), &self.rid, None).listed
    }
    fn craft(&mut self, i: usize, listed: &BTreeMap<String, git2::Oid>, blob: Option<Vec<u8>>, sig: Option<Vec<u8>>, parent: Option<git2::Oid>) {
        self.ts += 10;
        let canon = fx::canonical(listed);
        let sig = sig.unwrap_or_else(|| fx::sign_bytes(&self.keys[i], &canon));
        let blob = blob.unwrap_or(canon);
        fx::write_sigrefs(self.repo.raw(), &self.key(i), &blob, &sig, parent, self.ts);
    }

    /// Put namespace i of the server into the offered state `st` (relative to v1 = what a client
    /// that pulled before holds).
    fn offer(&mut self, i: usize, st: St, rng: &mut Rng) {
        let raw_path = self.repo.raw().path().to_path_buf();
        let raw = git2::Repository::open_bare(&raw_path).unwrap();
        let k = self.key(i);
        let tip = self.sigrefs_tip(i).unwrap();
        let parent = raw.find_commit(tip).unwrap().parent_id(0).ok();
        let master = fx::get_ref(&raw, &k, "refs/heads/master").unwrap();
        match st {
            St::Equal => {}
            St::Ahead => {
                let c = fx::commit(&raw, &format!("ahead-{i}-{}", rng.u32()), &[master]);
                fx::set_ref(&raw, &k, "refs/heads/master", c);
                self.sign(i);
            }
            St::Behind => {
                fx::set_ref(&raw, &k, "refs/rad/sigrefs", parent.unwrap());
            }
            St::Diverged => {
                let mut listed = fx::check_ns(&raw, &k, &self.rid, parent).listed;
                let c = fx::commit(&raw, &format!("div-{i}-{}", rng.u32()), &[]);
                listed.insert("refs/heads/master".into(), c);
                fx::set_ref(&raw, &k, "refs/heads/master", c);
                self.craft(i, &listed, None, None, parent);
            }
            St::Missing => {
                let names: Vec<String> = fx::snapshot(&raw).into_keys().filter(|n| fx::ns_of(n) == Some(k.to_string().as_str())).collect();
                for n in names {
                    raw.find_reference(&n).unwrap().delete().unwrap();
                }
            }
            St::TagRecreated => {
                // refs/tags/v1 becomes an annotated tag of the commit it pointed at (same commit,
                // different object), signed by the owner
                let cur = fx::get_ref(&raw, &k, "refs/tags/v1").unwrap();
                let target = raw.find_object(cur, None).unwrap().peel(git2::ObjectType::Commit).unwrap();
                let who = git2::Signature::new("verif", "verif@localhost", &git2::Time::new(1_600_000_000, 0)).unwrap();
                let t = raw.tag_annotation_create("v1", &target, &who, &format!("annotated-{i}-{}", rng.u32())).unwrap();
                fx::set_ref(&raw, &k, "refs/tags/v1", t);
                self.sign(i);
            }
            St::TagMadeLightweight => {
                // two steps in one offer: annotated, signed; then lightweight again plus a new commit on master
                let cur = fx::get_ref(&raw, &k, "refs/tags/v1").unwrap();
                let target = raw.find_object(cur, None).unwrap().peel(git2::ObjectType::Commit).unwrap();
                let who = git2::Signature::new("verif", "verif@localhost", &git2::Time::new(1_600_000_000, 0)).unwrap();
                let t = raw.tag_annotation_create("v1", &target, &who, &format!("annotated-{i}-{}", rng.u32())).unwrap();
                fx::set_ref(&raw, &k, "refs/tags/v2", t);
                let c = fx::commit(&raw, &format!("tl-{i}-{}", rng.u32()), &[master]);
                fx::set_ref(&raw, &k, "refs/heads/master", c);
                self.sign(i);
            }
            St::BranchRewound => {
                // `git reset --hard HEAD~1 && git push -f`, signed by the owner
                let p = raw.find_commit(master).unwrap().parent_id(0).unwrap();
                fx::set_ref(&raw, &k, "refs/heads/master", p);
                self.sign(i);
            }
            St::BranchAmended => {
                let p = raw.find_commit(master).unwrap().parent_id(0).unwrap();
                let c = fx::commit(&raw, &format!("amend-{i}-{}", rng.u32()), &[p]);
                fx::set_ref(&raw, &k, "refs/heads/master", c);
                self.sign(i);
            }
            St::BranchBecomesDirectory => {
                fx::del_ref(&raw, &k, "refs/heads/feat");
                let c = fx::commit(&raw, &format!("dir-{i}-{}", rng.u32()), &[master]);
                fx::set_ref(&raw, &k, "refs/heads/feat/sub", c);
                self.sign(i);
            }
            St::RefDeleted => {
                fx::del_ref(&raw, &k, "refs/tags/v1");
                let c = fx::commit(&raw, &format!("rd-{i}-{}", rng.u32()), &[master]);
                fx::set_ref(&raw, &k, "refs/heads/topic", c);
                self.sign(i);
            }
            St::SigFlipped => {
                let c = fx::commit(&raw, &format!("sf-{i}-{}", rng.u32()), &[master]);
                fx::set_ref(&raw, &k, "refs/heads/master", c);
                let mut listed = self.listed(i);
                listed.insert("refs/heads/master".into(), c);
                let mut sig = fx::sign_bytes(&self.keys[i], &fx::canonical(&listed));
                let j = rng.usize(sig.len());
                sig[j] ^= 1 << rng.below(8);
                self.craft(i, &listed, None, Some(sig), Some(tip));
            }
            St::Rekeyed => {
                // another namespace's (valid) signed refs commit under this namespace
                let other = (i + 1) % self.keys.len();
                let t = self.sigrefs_tip(other).unwrap_or(tip);
                fx::set_ref(&raw, &k, "refs/rad/sigrefs", t);
            }
            St::RootOtherRepo => {
                let mut listed = self.listed(i);
                listed.insert("refs/rad/root".into(), self.other_root);
                fx::set_ref(&raw, &k, "refs/rad/root", self.other_root);
                self.craft(i, &listed, None, None, Some(tip));
            }
            St::RootOmitted => {
                let c = fx::commit(&raw, &format!("ro-{i}-{}", rng.u32()), &[master]);
                fx::set_ref(&raw, &k, "refs/heads/master", c);
                let mut listed = self.listed(i);
                listed.insert("refs/heads/master".into(), c);
                listed.remove("refs/rad/root");
                self.craft(i, &listed, None, None, Some(tip));
            }
            St::NonCanonicalBlob => {
                let c = fx::commit(&raw, &format!("nc-{i}-{}", rng.u32()), &[master]);
                fx::set_ref(&raw, &k, "refs/heads/master", c);
                let mut listed = self.listed(i);
                listed.insert("refs/heads/master".into(), c);
                // reversed line order + a zero-oid line; signature over the canonical text
                let mut lines: Vec<String> = listed.iter().map(|(n, o)| format!("{o} {n}")).collect();
                lines.reverse();
                lines.push(format!("{} refs/heads/deleted", git2::Oid::zero()));
                let blob = (lines.join("\n") + "\n").into_bytes();
                self.craft(i, &listed, Some(blob), None, Some(tip));
            }
            St::UnsignedExtraRef => {
                let c = fx::commit(&raw, &format!("extra-{i}-{}", rng.u32()), &[master]);
                fx::set_ref(&raw, &k, "refs/heads/extra", c);
                // (and the signed part advances honestly so that the namespace is fetched)
                let c2 = fx::commit(&raw, &format!("extra2-{i}-{}", rng.u32()), &[master]);
                let mut listed = self.listed(i);
                listed.insert("refs/heads/master".into(), c2);
                self.craft(i, &listed, None, None, Some(tip));
            }
            St::SignedRefMoved => {
                let c2 = fx::commit(&raw, &format!("mv-{i}-{}", rng.u32()), &[master]);
                let mut listed = self.listed(i);
                listed.insert("refs/heads/master".into(), c2);
                self.craft(i, &listed, None, None, Some(tip));
                // the actual ref points somewhere else than its signed target
                let c3 = fx::commit(&raw, &format!("mv3-{i}-{}", rng.u32()), &[]);
                fx::set_ref(&raw, &k, "refs/heads/master", c3);
            }
            St::SignedRefDeleted => {
                let c2 = fx::commit(&raw, &format!("del-{i}-{}", rng.u32()), &[master]);
                let mut listed = self.listed(i);
                listed.insert("refs/heads/master".into(), c2);
                self.craft(i, &listed, None, None, Some(tip));
                fx::del_ref(&raw, &k, "refs/heads/master");
                fx::del_ref(&raw, &k, "refs/tags/v1");
            }
            St::NonCommitTarget => {
                let blob = raw.blob(format!("blob-{i}-{}", rng.u32()).as_bytes()).unwrap();
                let mut listed = self.listed(i);
                listed.insert("refs/heads/blobby".into(), blob);
                fx::set_ref(&raw, &k, "refs/heads/blobby", blob);
                self.craft(i, &listed, None, None, Some(tip));
            }
            St::OddCategory => {
                let c = fx::commit(&raw, &format!("odd-{i}-{}", rng.u32()), &[master]);
                let mut listed = self.listed(i);
                listed.insert("refs/weird/thing".into(), c);
                fx::set_ref(&raw, &k, "refs/weird/thing", c);
                self.craft(i, &listed, None, None, Some(tip));
            }
            St::NoSigrefs => {
                let c = fx::commit(&raw, &format!("ns-{i}-{}", rng.u32()), &[master]);
                fx::set_ref(&raw, &k, "refs/heads/master", c);
                fx::del_ref(&raw, &k, "refs/rad/sigrefs");
            }
            St::GarbageBlob => {
                let listed = self.listed(i);
                let blob = b"this is not a refs blob\n".to_vec();
                self.craft(i, &listed, Some(blob), None, Some(tip));
            }
        }
    }
}

#[derive(Debug)]
enum Outcome {
    Success { remotes: BTreeSet<PublicKey> },
    Failed,
    Error(String),
}

/// Run the real client. Returns the outcome and the path of the client repository (if any).
fn run_fetch(w: &World, sc: &Scenario, pull: bool, followed: &HashSet<PublicKey>, blocked: &[PublicKey], refs_at: Option<Vec<RefsAt>>) -> Result<(Outcome, Option<std::path::PathBuf>), String> {
    let allowed = if sc.followed_scope { Allowed::Followed { remotes: followed.clone() } } else { Allowed::All };
    let blocklist: BlockList = blocked.iter().copied().collect();
    let stream = UploadPack::spawn(w.repo.raw().path().to_path_buf()).map_err(|e| format!("spawn git upload-pack: {e}"))?;
    let remote = w.key(0);
    let local = *w.local.public_key();
    if pull {
        let repo = w.client.repository(w.rid).map_err(|e| e.to_string())?;
        let path = repo.raw().path().to_path_buf();
        let mut handle = Handle::new(local, repo, allowed, blocklist, stream).map_err(|e| e.to_string())?;
        let r = radicle_fetch::pull(&mut handle, FetchLimit::default(), remote, refs_at);
        Ok((classify(r), Some(path)))
    } else {
        let (repo, tmp) = w.client.lock_repository(w.rid).map_err(|e| e.to_string())?;
        let mut handle = Handle::new(local, repo, allowed, blocklist, stream).map_err(|e| e.to_string())?;
        let r = radicle_fetch::clone(&mut handle, FetchLimit::default(), remote);
        let out = classify(r);
        drop(handle);
        // as the worker's `mv`: the temporary repository becomes the stored one (we keep it even on
        // failure so that the oracle can inspect what was written)
        let to = w.client.path_of(&w.rid);
        std::fs::rename(tmp.path(), &to).map_err(|e| e.to_string())?;
        std::mem::forget(tmp);
        Ok((out, Some(to)))
    }
}

fn classify(r: Result<FetchResult, radicle_fetch::Error>) -> Outcome {
    match r {
        Ok(FetchResult::Success { remotes, .. }) => Outcome::Success { remotes },
        Ok(FetchResult::Failed { .. }) => Outcome::Failed,
        Err(e) => {
            let mut s = e.to_string();
            let mut src = std::error::Error::source(&e);
            while let Some(x) = src {
                s.push_str(&format!(": {x}"));
                src = x.source();
            }
            Outcome::Error(s)
        }
    }
}

fn gen_scenario(rng: &mut Rng, prop: &str, idx: u64) -> Scenario {
    let nd = 1 + rng.usize(4);
    let threshold = 1 + rng.usize(nd);
    let ncontrib = rng.usize(3);
    let local_delegate = if nd >= 2 && rng.chance(1, 3) { Some(1 + rng.usize(nd - 1)) } else { None };
    let pull = rng.chance(3, 5);
    let n = nd + ncontrib;
    let mut states = vec![St::Equal; n];
    if prop == "C02" {
        // every combination region: per-delegate offered state
        for s in states.iter_mut().take(nd) {
            *s = match rng.below(10) {
                0 => St::Equal,
                1 => *rng.pick(UNUSUAL),
                2 | 3 => St::Ahead,
                4 => St::Behind,
                5 => St::Diverged,
                6 => St::Missing,
                _ => *rng.pick(TAMPERS),
            };
        }
        for s in states.iter_mut().skip(nd) {
            *s = *rng.pick(&[St::Equal, St::Ahead, St::Behind, St::Diverged, St::SigFlipped, St::BranchRewound, St::TagRecreated]);
        }
    } else {
        // C01: 1-3 tampered namespaces (systematically cycling through the operators), rest honest
        for s in states.iter_mut() {
            *s = if rng.chance(1, 3) { *rng.pick(UNUSUAL) } else { *rng.pick(&[St::Equal, St::Ahead, St::Ahead]) };
        }
        let k = 1 + rng.usize(3.min(n));
        for j in 0..k {
            let i = rng.usize(n);
            states[i] = if j == 0 { TAMPERS[(idx as usize) % TAMPERS.len()] } else { *rng.pick(&[St::Behind, St::Diverged, St::SigFlipped, St::Rekeyed, St::RootOtherRepo, St::UnsignedExtraRef, St::SignedRefMoved]) };
        }
    }
    if !pull {
        for s in states.iter_mut() {
            if matches!(s, St::Behind | St::Diverged) {
                *s = St::Ahead;
            }
        }
    }
    let blocked = if rng.chance(1, 8) { vec![rng.usize(n)] } else { vec![] };
    Scenario { nd, threshold, ncontrib, local_delegate, pull, followed_scope: rng.chance(1, 3), use_refs_at: pull && rng.chance(1, 3), states, blocked }
}

fn changed_namespaces(before: &BTreeMap<String, String>, after: &BTreeMap<String, String>) -> BTreeSet<String> {
    let mut out = BTreeSet::new();
    for (k, v) in after {
        if before.get(k) != Some(v) {
            if let Some(ns) = fx::ns_of(k) {
                out.insert(ns.to_string());
            }
        }
    }
    for k in before.keys() {
        if !after.contains_key(k) {
            if let Some(ns) = fx::ns_of(k) {
                out.insert(ns.to_string());
            }
        }
    }
    out
}

fn one(rep: &mut Reporter, prop: &str, seed: u64, idx: u64) {
    let mut rng = Rng::new(seed);
    let sc = gen_scenario(&mut rng, prop, idx);
    let r = guarded(|| judge(rep, prop, &sc, &mut rng, seed, idx));
    if let Err(p) = r {
        // a panic in the fetch client is a crash of the worker, reported under the property driving it
        rep.violation(&format!("{prop}/panic/{}", vcommon::panic_site(&p)), json!({"case_seed": seed, "index": idx, "scenario": sc.json(), "panic": p}));
    }
}

fn judge(rep: &mut Reporter, prop: &str, sc: &Scenario, rng: &mut Rng, seed: u64, idx: u64) {
    let mut w = build(sc, seed % 1_000_000);
    let n = w.keys.len();
    let followed: HashSet<PublicKey> = (0..n).filter(|_| rng.chance(2, 3)).map(|i| w.key(i)).collect();
    let blocked: Vec<PublicKey> = sc.blocked.iter().map(|i| w.key(*i)).collect();
    rep.eval();
    let witness = |extra: Value| json!({"case_seed": seed, "index": idx, "scenario": sc.json(), "detail": extra});
    // 1. a client that pulled v1 before
    if sc.pull {
        match run_fetch(&w, sc, false, &followed, &[], None) {
            Ok((Outcome::Success { .. }, _)) => {}
            other => {
                rep.inconclusive("honest initial clone did not succeed", json!({"r": format!("{:?}", other.map(|o| o.0)), "scenario": sc.json()}));
                return;
            }
        }
    }
    // 2. the server moves to the offered state
    for i in 0..n {
        w.offer(i, sc.states[i], rng);
        rep.count(&format!("offered:{:?}", sc.states[i]));
    }
    // ground truth about what is offered (own checker on the server repository)
    let srv = git2::Repository::open_bare(w.repo.raw().path()).unwrap();
    let offered: Vec<fx::NsCheck> = (0..n).map(|i| fx::check_ns(&srv, &w.key(i), &w.rid, None)).collect();
    let client_path = w.client.path_of(&w.rid);
    let before = if sc.pull { fx::snapshot(&git2::Repository::open_bare(&client_path).unwrap()) } else { BTreeMap::new() };
    let held_before: Vec<Option<git2::Oid>> = (0..n)
        .map(|i| if sc.pull { fx::get_ref(&git2::Repository::open_bare(&client_path).unwrap(), &w.key(i), "refs/rad/sigrefs") } else { None })
        .collect();
    let refs_at = if sc.use_refs_at {
        // (the service never asks for its own namespace: `refs_status_of` removes the local remote)
        // a third of the announced tips are stale: the announcer has moved on since it announced (the
        // server advertises a newer `rad/sigrefs` than the one named in the announcement)
        let mut stale = 0;
        let mut v = vec![];
        for i in 0..n {
            if !rng.chance(2, 3) || w.key(i) == *w.local.public_key() {
                continue;
            }
            let Some(mut at) = offered[i].at else { continue };
            if rng.chance(1, 3) {
                if let Some(p) = srv.find_commit(at).ok().and_then(|c| c.parent_id(0).ok()) {
                    at = p;
                    stale += 1;
                }
            }
            v.push(RefsAt { remote: w.key(i), at: at.into() });
        }
        if stale > 0 {
            rep.count("cases.refs_at-with-stale-announced-tip");
        }
        Some(v)
    } else {
        None
    };
    // 3. the fetch under test
    let (outcome, path) = match run_fetch(&w, sc, sc.pull, &followed, &blocked, refs_at.clone()) {
        Ok(x) => x,
        Err(e) => {
            rep.inconclusive("fixture error", json!({"e": e, "scenario": sc.json()}));
            return;
        }
    };
    let cl = git2::Repository::open_bare(path.as_ref().unwrap()).unwrap();
    let after = fx::snapshot(&cl);
    let changed = changed_namespaces(&before, &after);
    rep.count(match &outcome { Outcome::Success { .. } => "result:success", Outcome::Failed => "result:failed", Outcome::Error(_) => "result:error" });
    let out_desc = format!("{outcome:?}").chars().take(300).collect::<String>();
    if !changed.is_empty() {
        rep.count("cases.with-a-changed-namespace");
        rep.nontrivial(seed);
    }

    // ---------------- C01 -------------------------------------------------------------------
    if prop == "C01" {
        let mut invalid_offered = false;
        for i in 0..n {
            let k = w.key(i).to_string();
            // (2) a namespace whose offered signed refs fail (a)-(c) stays exactly as it was
            let bad = matches!(offered[i].sig, Sig::BadSignature | Sig::Unreadable(_)) || offered[i].root == Some(false);
            if bad {
                invalid_offered = true;
                rep.count("namespaces-offered-invalid");
                if changed.contains(&k) {
                    rep.violation(&format!("C01/namespace-with-invalid-offer-changed/{:?}", sc.states[i]), witness(json!({"namespace_index": i, "offered": format!("{:?}", offered[i].sig), "root": offered[i].root, "outcome": out_desc})));
                    return;
                }
            }
            // (1) every changed namespace is fully consistent on the client
            if changed.contains(&k) {
                let c = fx::check_ns(&cl, &w.key(i), &w.rid, None);
                let actual: BTreeMap<String, String> = after.iter().filter(|(name, _)| fx::ns_of(name) == Some(k.as_str())).map(|(name, v)| (name[("refs/namespaces/".len() + k.len() + 1)..].to_string(), v.clone())).filter(|(name, _)| name != "refs/rad/sigrefs").collect();
                let listed: BTreeMap<String, String> = c.listed.iter().map(|(a, b)| (a.clone(), b.to_string())).collect();
                let sig = match (&c.sig, c.root) {
                    (Sig::MissingSigrefs, _) => Some("C01/changed-namespace-has-no-sigrefs".to_string()),
                    (Sig::Unreadable(_), _) => Some("C01/changed-namespace-sigrefs-unreadable".into()),
                    (Sig::BadSignature, _) => Some("C01/changed-namespace-sigrefs-signature-invalid".into()),
                    (Sig::Ok, Some(false)) => Some("C01/changed-namespace-sigrefs-name-another-repository".into()),
                    (Sig::Ok, None) => Some("C01/changed-namespace-sigrefs-do-not-name-the-repository/rad-root-not-listed".into()),
                    (Sig::Ok, Some(true)) => {
                        if actual != listed {
                            let extra: Vec<&String> = actual.keys().filter(|a| !listed.contains_key(*a)).collect();
                            let missing: Vec<&String> = listed.keys().filter(|a| !actual.contains_key(*a)).collect();
                            Some(if !extra.is_empty() { "C01/changed-namespace-has-ref-not-in-signed-refs".into() } else if !missing.is_empty() { "C01/changed-namespace-lacks-signed-ref".into() } else { "C01/changed-namespace-ref-differs-from-signed-target".into() })
                        } else {
                            None
                        }
                    }
                };
                rep.count("changed-namespaces-checked");
                if let Some(s) = sig {
                    rep.violation(&s, witness(json!({"namespace_index": i, "offer": format!("{:?}", sc.states[i]), "client_refs": actual, "client_signed_refs": listed, "outcome": out_desc})));
                    return;
                }
            }
        }
        if invalid_offered {
            rep.count("cases.with-an-invalid-namespace-offered");
        }
    }

    // ---------------- C02 -------------------------------------------------------------------
    if prop == "C02" {
        // I1: a delegate's sigrefs never move backwards or sideways
        for i in 0..sc.nd {
            if let (Some(b), Some(a)) = (held_before[i], fx::get_ref(&cl, &w.key(i), "refs/rad/sigrefs")) {
                if a != b {
                    rep.count("delegate-sigrefs-moved");
                    if !cl.graph_descendant_of(a, b).unwrap_or(false) {
                        rep.violation(&format!("C02/delegate-sigrefs-moved-to-non-descendant/{:?}", sc.states[i]), witness(json!({"delegate": i, "before": b.to_string(), "after": a.to_string(), "outcome": out_desc})));
                        return;
                    }
                }
            }
        }
        // I2: success => enough delegates with valid signed refs (most generous count)
        let local_is_delegate = sc.local_delegate.is_some();
        let need = if local_is_delegate { sc.threshold - 1 } else { sc.threshold };
        let mut vmax = 0;
        for i in 0..sc.nd {
            if sc.blocked.contains(&i) {
                continue; // blocked delegates are removed from the delegate set by the client
            }
            let offered_valid = offered[i].sig == Sig::Ok && offered[i].root != Some(false);
            let offered_usable = offered_valid
                && match (held_before[i], offered[i].at) {
                    (Some(h), Some(o)) => h == o || srv.graph_descendant_of(o, h).unwrap_or(false),
                    _ => true,
                };
            let held_valid = held_before[i].is_some();
            if offered_usable || held_valid {
                vmax += 1;
            }
        }
        match &outcome {
            Outcome::Success { .. } => {
                rep.count("success-results-checked");
                if (0..sc.nd).any(|i| sc.states[i] == St::Ahead) {
                    rep.count("success.with-a-delegate-ahead");
                }
                if vmax < need {
                    rep.violation("C02/success-with-fewer-valid-delegates-than-threshold", witness(json!({"valid_delegates_at_most": vmax, "needed": need, "outcome": out_desc})));
                    return;
                }
            }
            Outcome::Failed | Outcome::Error(_) => {
                // I3: a failing fetch leaves storage unchanged
                if matches!(outcome, Outcome::Failed) {
                    rep.count("failed-results-checked");
                } else {
                    rep.count("error-results-checked");
                }
                if sc.pull && after != before {
                    let kind = if matches!(outcome, Outcome::Failed) { "failed" } else { "error" };
                    rep.violation(&format!("C02/{kind}-fetch-changed-refs"), witness(json!({"changed_namespaces": changed, "outcome": out_desc})));
                    return;
                }
                if !sc.pull && !after.keys().all(|k| !k.starts_with("refs/namespaces/")) {
                    let kind = if matches!(outcome, Outcome::Failed) { "failed" } else { "error" };
                    rep.violation(&format!("C02/{kind}-clone-left-namespace-refs"), witness(json!({"refs": after.keys().take(20).collect::<Vec<_>>(), "outcome": out_desc})));
                    return;
                }
            }
        }
        if (0..sc.nd).any(|i| matches!(sc.states[i], St::Behind | St::Diverged)) {
            rep.count("cases.with-delegate-behind-or-diverged");
        }
    }
    if rep.wants_sample() && !changed.is_empty() {
        rep.sample(json!({"scenario": sc.json(), "outcome": out_desc, "changed_namespaces": changed.len()}));
    }
}

pub fn run(args: &Args, prop: &str) {
    let mut rep = Reporter::new(prop);
    if let Some(path) = &args.replay {
        let w = vcommon::load_replay(path);
        one(&mut rep, prop, w["case_seed"].as_u64().unwrap_or(args.seed), w["index"].as_u64().unwrap_or(0));
        rep.finish();
        return;
    }
    let n = if prop == "C01" { args.budget(320, 3_200) } else { args.budget(384, 3_840) };
    for k in 0..n {
        one(&mut rep, prop, args.case_seed(k), args.index(k));
    }
    rep.finish();
}
